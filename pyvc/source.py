"""Front end: locate the *real* functions under /repo/src at check time.

Nothing is copied into /verif.  Every run re-reads the file, parses it with ``ast`` and
records the sha256 of the source segment of each function put under contract, so the
evidence names exactly the text that was verified.
"""
import ast
import hashlib
import os

REPO = os.environ.get("VERIF_REPO", "/repo")
SRC = os.path.join(REPO, "src")


class SourceError(Exception):
    """The function is gone / does not parse: undecided, never a violation."""


_module_cache = {}


class Module:
    def __init__(self, rel):
        self.rel = rel
        self.path = os.path.join(SRC, rel)
        try:
            with open(self.path, encoding="utf-8") as f:
                self.text = f.read()
        except OSError as e:
            raise SourceError(f"cannot read {self.path}: {e}")
        try:
            self.tree = ast.parse(self.text, filename=self.path)
        except SyntaxError as e:
            raise SourceError(f"{self.path} does not parse: {e}")
        self.lines = self.text.splitlines()
        # module-level name table
        self.defs = {}      # name -> FunctionDef | ClassDef
        self.assigns = {}   # name -> ast.expr (last module-level assignment)
        self.imports = {}   # local name -> dotted path
        for node in self.tree.body:
            self._index(node)

    def _index(self, node):
        if isinstance(node, (ast.FunctionDef, ast.ClassDef, ast.AsyncFunctionDef)):
            self.defs[node.name] = node
        elif isinstance(node, ast.Assign):
            for t in node.targets:
                if isinstance(t, ast.Name):
                    self.assigns[t.id] = node.value
        elif isinstance(node, ast.AnnAssign) and node.value is not None:
            if isinstance(node.target, ast.Name):
                self.assigns[node.target.id] = node.value
        elif isinstance(node, ast.Import):
            for a in node.names:
                if a.asname:
                    self.imports[a.asname] = a.name
                else:
                    self.imports[a.name.split(".")[0]] = a.name.split(".")[0]
        elif isinstance(node, ast.ImportFrom):
            mod = ("." * node.level) + (node.module or "")
            for a in node.names:
                self.imports[a.asname or a.name] = mod + "." + a.name if mod else a.name
        elif isinstance(node, (ast.If, ast.Try)):
            for sub in getattr(node, "body", []):
                self._index(sub)
            for sub in getattr(node, "orelse", []):
                self._index(sub)

    def find(self, qualname):
        """qualname: 'func' or 'Class.method' or 'Class.method.inner'."""
        parts = qualname.split(".")
        scope = self.tree.body
        node = None
        for p in parts:
            found = None
            for n in scope:
                if isinstance(n, (ast.FunctionDef, ast.ClassDef, ast.AsyncFunctionDef)) and n.name == p:
                    found = n  # keep the last definition, like Python does
            if found is None:
                # search nested statement bodies (functions defined under if/try)
                for n in scope:
                    for sub in ast.walk(n):
                        if isinstance(sub, (ast.FunctionDef, ast.ClassDef)) and sub.name == p:
                            found = sub
                            break
                    if found:
                        break
            if found is None:
                raise SourceError(f"{self.rel}: {qualname} not found")
            node = found
            scope = node.body
        return node

    def segment(self, node):
        start = node.lineno - 1
        if getattr(node, "decorator_list", None):
            start = min(start, min(d.lineno for d in node.decorator_list) - 1)
        return "\n".join(self.lines[start:node.end_lineno])

    def sha(self, node):
        return hashlib.sha256(self.segment(node).encode()).hexdigest()[:16]


def module(rel):
    m = _module_cache.get(rel)
    if m is None:
        m = _module_cache[rel] = Module(rel)
    return m


def reset_cache():
    _module_cache.clear()


class FuncRef:
    """A real function of the repository: module + qualified name + its AST."""

    def __init__(self, rel, qualname):
        self.rel = rel
        self.qualname = qualname
        self.mod = module(rel)
        self.node = self.mod.find(qualname)
        if not isinstance(self.node, (ast.FunctionDef, ast.AsyncFunctionDef)):
            raise SourceError(f"{rel}:{qualname} is not a function")
        self.sha = self.mod.sha(self.node)

    @property
    def ident(self):
        return f"{self.rel}:{self.qualname}"

    def describe(self):
        return {"function": self.qualname, "file": "src/" + self.rel,
                "line": self.node.lineno, "sha256_16": self.sha}

    def loops(self):
        """loops of the function body in source order (ordinal = index)."""
        out = []

        def walk(stmts):
            for s in stmts:
                if isinstance(s, (ast.For, ast.While)):
                    out.append(s)
                if isinstance(s, (ast.FunctionDef, ast.ClassDef)):
                    continue
                for fld in ("body", "orelse", "finalbody"):
                    sub = getattr(s, fld, None)
                    if sub:
                        walk(sub)
                if isinstance(s, ast.Try):
                    for h in s.handlers:
                        walk(h.body)
        walk(self.node.body)
        return out
