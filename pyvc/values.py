"""Symbolic value universe of the interpreter.

Concrete Python scalars (int, bool, str, float, None) and containers with a concrete
shape (list, tuple, dict, set holding values) are represented by themselves.  Symbolic
leaves wrap z3 terms.  Everything else is one of the classes below.
"""
import z3


class Sym:
    __slots__ = ("z",)
    kind = "sym"

    def __init__(self, z):
        self.z = z

    def __repr__(self):
        return f"{self.kind}<{self.z}>"


class SInt(Sym):
    kind = "int"


class SBool(Sym):
    kind = "bool"


class SStr(Sym):
    kind = "str"


class SReal(Sym):
    kind = "float"


class SBytes(Sym):
    """bytes value, modelled as an opaque z3 String (only passed around)."""
    kind = "bytes"


class PObj:
    """An object with concrete identity; fields are a python dict of values."""

    def __init__(self, cls, fields=None, name=None):
        self.cls = cls          # ClassRef or a plain string for library objects
        self.fields = fields if fields is not None else {}
        self.name = name

    def clsname(self):
        return self.cls if isinstance(self.cls, str) else self.cls.name

    def __repr__(self):
        return f"<obj {self.clsname()} {self.name or hex(id(self))}>"


class SRef:
    """A symbolic reference into the array heap (class name + Int term; 0 is None)."""
    __slots__ = ("cls", "z")

    def __init__(self, cls, z):
        self.cls = cls
        self.z = z

    def __repr__(self):
        return f"ref<{self.cls}:{self.z}>"


class SList:
    """Symbolic-length list: heap-free functional encoding (len term, elem array term).

    ``elem`` is a z3 Array Int -> sort; ``wrap`` turns an element term into a value.
    Mutations rebind the python-side fields (the interpreter keeps one SList object per
    python list object, so aliasing within a path is preserved).
    """

    def __init__(self, length, elem, wrap, unwrap, name=None):
        self.length = length
        self.elem = elem
        self.wrap = wrap
        self.unwrap = unwrap
        self.name = name

    def __repr__(self):
        return f"slist<{self.name}>"


class SMap:
    """Symbolic mapping given by two python callables over values: has(key)->z3 Bool,
    get(key)->value.  Used for library tables (e.g. name2codepoint) and JSON-ish records."""

    def __init__(self, has, get, name="map", keys_hint=None):
        self.has = has
        self.get = get
        self.name = name


class Closure:
    def __init__(self, node, module, env, qualname, cls=None, kind="function"):
        self.node = node        # FunctionDef | Lambda
        self.module = module    # source.Module
        self.env = env          # enclosing Frame (or None for module level)
        self.qualname = qualname
        self.cls = cls          # ClassRef when defined in a class body
        self.kind = kind        # function | staticmethod | classmethod | property

    @property
    def ident(self):
        return f"{self.module.rel}:{self.qualname}"

    def __repr__(self):
        return f"<closure {self.ident}>"


class ClassRef:
    def __init__(self, node, module):
        self.node = node
        self.module = module
        self.name = node.name

    def __repr__(self):
        return f"<class {self.module.rel}:{self.name}>"


class ModRef:
    def __init__(self, dotted):
        self.dotted = dotted

    def __repr__(self):
        return f"<module-ref {self.dotted}>"


class Model:
    """A library function model / assumed contract: fn(interp, *args, **kwargs)."""

    def __init__(self, name, fn, trusted=True):
        self.name = name
        self.fn = fn
        self.trusted = trusted

    def __repr__(self):
        return f"<model {self.name}>"


class BoundMethod:
    def __init__(self, recv, func):
        self.recv = recv
        self.func = func


class ExcClass:
    """An exception class by name (builtin or repository-defined), with its MRO names."""

    def __init__(self, name, mro):
        self.name = name
        self.mro = mro

    def __repr__(self):
        return f"<exc-class {self.name}>"


class ExcVal:
    def __init__(self, cls, args):
        self.cls = cls
        self.args = args

    def __repr__(self):
        return f"<exc {self.cls.name}>"


class CtxMgr:
    """Context manager value: enter(interp)->value, exit(interp, exc_or_None)->suppress?"""

    def __init__(self, enter, exit_):
        self.enter = enter
        self.exit = exit_


class Opaque:
    """A value the encoding does not model.  Passing it around is fine; inspecting it
    makes the path undecided."""

    def __init__(self, what):
        self.what = what

    def __repr__(self):
        return f"<opaque {self.what}>"


def is_symbolic(v):
    return isinstance(v, (Sym, SRef, SList))


def z3_of(v):
    """z3 term of a scalar value."""
    if isinstance(v, Sym):
        return v.z
    if isinstance(v, z3.ExprRef):
        return v
    if isinstance(v, bool):
        return z3.BoolVal(v)
    if isinstance(v, int):
        return z3.IntVal(v)
    if isinstance(v, str):
        return z3.StringVal(v)
    if isinstance(v, float):
        return z3.RealVal(v)
    raise TypeError(f"no z3 term for {v!r}")


def kind_of(v):
    if isinstance(v, Sym):
        return v.kind
    if v is None:
        return "none"
    if isinstance(v, bool):
        return "bool"
    if isinstance(v, int):
        return "int"
    if isinstance(v, str):
        return "str"
    if isinstance(v, float):
        return "float"
    if isinstance(v, bytes):
        return "bytes"
    if isinstance(v, list) or isinstance(v, SList):
        return "list"
    if isinstance(v, tuple):
        return "tuple"
    if isinstance(v, dict) or isinstance(v, SMap):
        return "dict"
    if isinstance(v, (set, frozenset)):
        return "set"
    if isinstance(v, (PObj, SRef)):
        return "object"
    if isinstance(v, (Closure, Model, BoundMethod)):
        return "function"
    return "other"
