"""Typed instantiation of universally quantified hypotheses.

Quantified facts (the global invariant of an abstract state, axioms of abstract
containers, loop invariants over sets) are registered as *schemas*:
``(types, fn)`` with ``fn(*terms) -> z3 Bool``.  When an obligation is emitted, every
schema is instantiated over the ground terms of matching type that occur in the path
condition and the goal (two rounds).  Instances of a true universal fact are true, so the
resulting quantifier-free VC is *weaker-or-equal* in its hypotheses: a proof of it is a
proof of the quantified VC (sound); a counter-model of it is only a candidate.

Term typing is by position: arrays are named ``<prefix><field>!n`` or carry an ``@type``
marker; the index/value types of each field are declared by the sidecar.
"""
import itertools

import z3


class Typing:
    def __init__(self, index_types, value_types, func_types=None):
        self.index_types = index_types      # field -> tuple of index types (outer to inner)
        self.value_types = value_types      # field -> type of the Int value stored
        self.func_types = func_types or {}  # function name -> result type
        self.fields = sorted(index_types, key=len, reverse=True)
        self._root_cache = {}

    def field_of_name(self, name):
        base = name.split("!")[0]
        if "@" in base:
            return None
        for f in self.fields:
            if base.endswith(f):
                return f
        return None

    def marker_type(self, name):
        base = name.split("!")[0]
        if "@" in base:
            return base.split("@", 1)[1]
        return None

    def array_info(self, a):
        """-> (index types remaining for array term a, value type) or None"""
        k = a.get_id()
        if k in self._root_cache:
            return self._root_cache[k]
        r = None
        if z3.is_const(a) and a.decl().kind() == z3.Z3_OP_UNINTERPRETED:
            nm = a.decl().name()
            f = self.field_of_name(nm)
            if f is not None:
                r = (tuple(self.index_types[f]), self.value_types.get(f))
            else:
                mt = self.marker_type(nm)
                if mt is not None:
                    parts = tuple(mt.split(">"))
                    r = (parts[:1], parts[1] if len(parts) > 1 else None)
        elif z3.is_store(a):
            r = self.array_info(a.arg(0))
        elif z3.is_select(a):
            inner = self.array_info(a.arg(0))
            if inner is not None and len(inner[0]) > 1:
                r = (inner[0][1:], inner[1])
        elif z3.is_app(a) and a.decl().kind() == z3.Z3_OP_ITE:
            r = self.array_info(a.arg(1)) or self.array_info(a.arg(2))
        self._root_cache[k] = r
        return r

    def collect(self, formulas, cands):
        """add typed ground Int terms occurring in `formulas` to cands: type -> {id: term}"""
        seen = set()
        todo = list(formulas)
        while todo:
            t = todo.pop()
            i = t.get_id()
            if i in seen:
                continue
            seen.add(i)
            if z3.is_quantifier(t):
                continue
            if z3.is_app(t):
                todo.extend(t.children())
                if z3.is_select(t) or z3.is_store(t):
                    info = self.array_info(t.arg(0))
                    if info is not None and info[0]:
                        idx = t.arg(1)
                        if _ground(idx):
                            cands.setdefault(info[0][0], {})[idx.get_id()] = idx
                        if z3.is_select(t) and len(info[0]) == 1 and info[1] and t.sort().kind() == z3.Z3_INT_SORT:
                            cands.setdefault(info[1], {})[t.get_id()] = t
                elif z3.is_const(t) and t.sort().kind() == z3.Z3_INT_SORT and t.decl().kind() == z3.Z3_OP_UNINTERPRETED:
                    mt = self.marker_type(t.decl().name())
                    if mt:
                        cands.setdefault(mt, {})[t.get_id()] = t
                elif t.decl().kind() == z3.Z3_OP_UNINTERPRETED and t.sort().kind() == z3.Z3_INT_SORT:
                    ft = self.func_types.get(t.decl().name())
                    if ft:
                        cands.setdefault(ft, {})[t.get_id()] = t


def _ground(t):
    return True


class Schemas:
    def __init__(self, typing):
        self.typing = typing
        self.items = []     # (label, types, fn)
        self.cache = {}
        self.keep = []

    def add(self, label, types, fn):
        self.items.append((label, tuple(types), fn))

    def instantiate(self, formulas, max_instances=6000, rounds=2):
        cands = {}
        self.typing.collect(formulas, cands)
        used = set()
        out = []
        for _ in range(rounds):
            new = []
            for si, (label, types, fn) in enumerate(self.items):
                pools = [list(cands.get(t, {}).values()) for t in types]
                if any(not p for p in pools):
                    continue
                for tup in itertools.product(*pools):
                    key = (si,) + tuple(x.get_id() for x in tup)
                    if key in used:
                        continue
                    used.add(key)
                    f = self.cache.get(key)
                    if f is None:
                        f = fn(*tup)
                        self.cache[key] = f
                        self.keep.append(tup)    # keep terms alive: ids are only unique while referenced
                    new.append(f)
                    if len(out) + len(new) > max_instances:
                        return out + new, True
            if not new:
                break
            out.extend(new)
            self.typing.collect(new, cands)
        return out, False
