"""Typed instantiation of universally quantified hypotheses.

Quantified facts (the global invariant of an abstract state, axioms of abstract
containers, loop invariants over sets) are registered as *schemas*:
``(types, fn)`` with ``fn(*terms) -> z3 Bool``.  When an obligation is emitted, every
schema is instantiated over the ground terms of matching type that occur in the path
condition and the goal (two rounds).  Instances of a true universal fact are true, so the
resulting quantifier-free VC is *weaker-or-equal* in its hypotheses: a proof of it is a
proof of the quantified VC (sound); a counter-model of it is only a candidate.

Term typing is by position: arrays are named ``<prefix><field>!n`` or carry an ``@type``
marker; the index/value types of each field are declared by the sidecar.
"""
import itertools

import z3


class Typing:
    def __init__(self, index_types, value_types, func_types=None):
        self.index_types = index_types      # field -> tuple of index types (outer to inner)
        self.value_types = value_types      # field -> type of the Int value stored
        self.func_types = func_types or {}  # function name -> result type
        self.fields = sorted(index_types, key=len, reverse=True)
        self._root_cache = {}
        self._collect_cache = {}

    def field_of_name(self, name):
        base = name.split("!")[0]
        if "@" in base:
            return None
        for f in self.fields:
            if base.endswith(f):
                return f
        return None

    def marker_type(self, name):
        base = name.split("!")[0]
        if "@" in base:
            return base.split("@", 1)[1]
        return None

    def array_info(self, a):
        """-> (index types remaining for array term a, value type) or None"""
        k = a.get_id()
        if k in self._root_cache:
            return self._root_cache[k]
        r = None
        if z3.is_const(a) and a.decl().kind() == z3.Z3_OP_UNINTERPRETED:
            nm = a.decl().name()
            f = self.field_of_name(nm)
            if f is not None:
                r = (tuple(self.index_types[f]), self.value_types.get(f))
            else:
                mt = self.marker_type(nm)
                if mt is not None:
                    parts = tuple(mt.split(">"))
                    r = (parts[:1], parts[1] if len(parts) > 1 else None)
        elif z3.is_store(a):
            r = self.array_info(a.arg(0))
        elif z3.is_select(a):
            inner = self.array_info(a.arg(0))
            if inner is not None and len(inner[0]) > 1:
                r = (inner[0][1:], inner[1])
        elif z3.is_app(a) and a.decl().kind() == z3.Z3_OP_ITE:
            r = self.array_info(a.arg(1)) or self.array_info(a.arg(2))
        self._root_cache[k] = r
        return r

    def collect(self, formulas, cands):
        """add typed ground Int terms occurring in `formulas` to cands: type -> {id: term}.
        Results are cached per top-level formula (formulas are kept alive by the cache, so
        their ids stay unique)."""
        for f in formulas:
            k = f.get_id()
            hit = self._collect_cache.get(k)
            if hit is None:
                found = []
                self._collect_one(f, found)
                hit = (f, found)
                self._collect_cache[k] = hit
            for typ, t in hit[1]:
                cands.setdefault(typ, {})[t.get_id()] = t

    def _collect_one(self, f, found):
        seen = set()
        todo = [f]
        while todo:
            t = todo.pop()
            i = t.get_id()
            if i in seen:
                continue
            seen.add(i)
            if z3.is_quantifier(t):
                continue
            if not z3.is_app(t):
                continue
            ch = t.children()
            todo.extend(ch)
            dk = t.decl().kind()
            if dk == z3.Z3_OP_SELECT or dk == z3.Z3_OP_STORE:
                info = self.array_info(ch[0])
                if info is not None and info[0]:
                    found.append((info[0][0], ch[1]))
                    if dk == z3.Z3_OP_SELECT and len(info[0]) == 1 and info[1] and t.sort().kind() == z3.Z3_INT_SORT:
                        found.append((info[1], t))
            elif dk == z3.Z3_OP_UNINTERPRETED and t.sort().kind() == z3.Z3_INT_SORT:
                if not ch:
                    mt = self.marker_type(t.decl().name())
                    if mt:
                        found.append((mt, t))
                else:
                    ft = self.func_types.get(t.decl().name())
                    if ft:
                        found.append((ft, t))


def _ground(t):
    return True


_GLOBAL = {}   # (schema body id, argument ids) -> [instance, template instances, args, body] (kept alive)


class Schemas:
    def __init__(self, typing):
        self.typing = typing
        self.items = []     # (label, types, placeholders, body, templates)
        self.cache = {}
        self.keep = []
        self.hints = []
        self._n = 0

    def add(self, label, types, fn):
        types = tuple(types)
        self._n += 1
        ph = [z3.Int(f"ph!{self._n}!{i}") for i in range(len(types))]
        body = fn(*ph)
        if body is None:
            return
        # typed sub-terms of the body that mention a placeholder: instantiating them yields the
        # new candidate terms of the next round without walking every instance
        found = []
        self.typing._collect_one(body, found)
        ph_ids = {p.get_id() for p in ph}
        templates = []
        seen = set()
        for typ, t in found:
            if t.get_id() in seen or t.get_id() in ph_ids:
                continue
            seen.add(t.get_id())
            if _mentions_any(t, ph_ids):
                templates.append((typ, t))
        ground = [(typ, t) for typ, t in found if not _mentions_any(t, ph_ids)]
        self.items.append((label, types, ph, body, templates, ground))

    def instantiate(self, formulas, max_instances=None, rounds=None):
        max_instances = max_instances or getattr(self.typing, "max_instances", 8000)
        rounds = rounds or getattr(self.typing, "rounds", 2)
        cands = {}
        self.typing.collect(formulas, cands)
        for it in self.items:
            for typ, t in it[5]:
                cands.setdefault(typ, {})[t.get_id()] = t
        for typ, t in self.hints:           # instantiation hints given by the sidecar (extra ground terms)
            cands.setdefault(typ, {})[t.get_id()] = t
        used = set()
        out = []
        truncated_any = False
        for rnd in range(rounds):
            new = []
            newc = []
            for si, (label, types, ph, body, templates, ground) in enumerate(self.items):
                pools = [list(cands.get(t, {}).values()) for t in types]
                if any(not p for p in pools):
                    continue
                # cap the number of instances per schema (fewer instances = weaker hypotheses: sound)
                size = 1
                for p_ in pools:
                    size *= len(p_)
                while size > 8000:
                    big = max(range(len(pools)), key=lambda k: len(pools[k]))
                    size //= len(pools[big])
                    pools[big] = pools[big][:max(1, len(pools[big]) // 2)]
                    size *= len(pools[big])
                    truncated_any = True
                for tup in itertools.product(*pools):
                    key = (si,) + tuple(x.get_id() for x in tup)
                    if key in used:
                        continue
                    used.add(key)
                    gkey = (body.get_id(),) + key[1:]
                    hit = _GLOBAL.get(gkey)
                    if hit is None:
                        sub = list(zip(ph, tup))
                        f = z3.substitute(body, *sub) if sub else body
                        hit = [f, None, tup, body]
                        if len(_GLOBAL) > 400000:
                            _GLOBAL.clear()
                        _GLOBAL[gkey] = hit
                    new.append(hit[0])
                    if rnd + 1 < rounds:
                        if hit[1] is None:
                            sub = list(zip(ph, tup))
                            hit[1] = [(typ, z3.substitute(t, *sub)) for typ, t in templates]
                        newc.extend(hit[1])
                    if len(out) + len(new) > max_instances:
                        return out + new, True
            if not new:
                break
            out.extend(new)
            for typ, t in newc:
                cands.setdefault(typ, {})[t.get_id()] = t
        return out, False


def _mentions_any(t, ids):
    seen = set()
    todo = [t]
    while todo:
        x = todo.pop()
        i = x.get_id()
        if i in seen:
            continue
        seen.add(i)
        if i in ids:
            return True
        if z3.is_app(x):
            todo.extend(x.children())
    return False
