"""Library models = assumed contracts (the trusted base; every model used by a run is
listed in that run's evidence under ``trusted_base``).

A model is a python function ``fn(I, *args, **kwargs)`` over interpreter values.  On
concrete arguments it calls the real library function (exact).  On symbolic arguments it
returns the library's contract: exact SMT encodings where one exists, otherwise an
uninterpreted function with instance axioms that are stated next to it.
"""
import ast

import z3

from .values import (SInt, SBool, SStr, SReal, SBytes, Sym, PObj, SRef, SList, SMap, Closure, ClassRef, ModRef,
                     Model, BoundMethod, ExcClass, ExcVal, CtxMgr, Opaque, z3_of, kind_of)

S = z3.StringSort()
Z = z3.IntSort()
B = z3.BoolSort()

# uninterpreted library functions (shared symbols so that equal arguments give equal results)
int10_ok = z3.Function("py_int10_ok", S, B)
int10_val = z3.Function("py_int10_val", S, Z)
int16_ok = z3.Function("py_int16_ok", S, B)
int16_val = z3.Function("py_int16_val", S, Z)
chr_of = z3.Function("py_chr", Z, S)
ord_of = z3.Function("py_ord", S, Z)
str_of_int = z3.Function("py_str_of_int", Z, S)
is_ascii = z3.Function("py_isascii", S, z3.BoolSort())
is_digit = z3.Function("py_isdigit", S, z3.BoolSort())
repr_of_str = z3.Function("py_repr_str", S, S)
strip_ws = z3.Function("py_strip_ws", S, S)
lower_of = z3.Function("py_lower", S, S)
upper_of = z3.Function("py_upper", S, S)
normpath_of = z3.Function("posix_normpath", S, S)
abspath_of = z3.Function("posix_abspath", S, S)
quote_of = z3.Function("urllib_quote", S, S)

_alphabets = {}   # name -> (z3 predicate String->Bool, python predicate on one char)


def alphabet(name, charpred=None, builder=None):
    """`all characters of s belong to alphabet <name>`: an uninterpreted predicate, or a
    defined one (``builder``, e.g. "does not contain ';'").  The string models state, as
    part of each library contract, that the result's characters come from the
    receiver/arguments (alphabet preservation)."""
    if name not in _alphabets:
        _alphabets[name] = (builder or z3.Function(f"alphabet_{name}", S, B), charpred)
    return _alphabets[name][0]


def excludes_char(c):
    return alphabet(f"no_{ord(c):x}", lambda ch, c=c: ch != c, lambda x, c=c: z3.Not(z3.Contains(x, z3.StringVal(c))))


def alphabet_facts_derived(I, result, sources, extra_literals=()):
    """result's characters all come from `sources` (z3 string terms) or from literals"""
    for name, (pred, charpred) in _alphabets.items():
        if charpred is None:
            continue
        if all(charpred(c) for lit in extra_literals for c in lit):
            I.assume(z3.Implies(z3.And([alpha_term(pred, charpred, x) for x in sources] or [z3.BoolVal(True)]), pred(result)))


def alpha_term(pred, charpred, x):
    if z3.is_string_value(x):
        from .solve import _z3_unescape
        return z3.BoolVal(all(charpred(c) for c in _z3_unescape(x.as_string())))
    return pred(x)


_strip_chars_fns = {}


def strip_chars_fn(chars, side):
    key = (chars, side)
    if key not in _strip_chars_fns:
        tag = "".join(f"{ord(c):x}_" for c in chars)
        _strip_chars_fns[key] = z3.Function(f"py_{side}strip_{tag}", S, S)
    return _strip_chars_fns[key]


_replace_fns = {}


def replace_fn(a, b):
    key = (a, b)
    if key not in _replace_fns:
        tag = "".join(f"{ord(c):x}_" for c in a) + "to_" + "".join(f"{ord(c):x}_" for c in b)
        _replace_fns[key] = z3.Function(f"py_replace_{tag}", S, S)
    return _replace_fns[key]


def _undecided(msg):
    from .interp import Undecided
    raise Undecided(msg)


def concrete(*vals):
    return all(not isinstance(v, (Sym, SRef, SList, SMap, Opaque)) for v in vals)


class TypeToken(Model):
    """builtins that are both callables and types (str, int, dict, ...)."""

    def __init__(self, name, fn, kinds):
        super().__init__("builtins." + name, fn, trusted=True)
        self.kinds = kinds


def install(ex):
    M = ex.models

    def reg(name, fn):
        M[name] = Model(name, fn)
        return fn

    def regtype(name, fn, kinds):
        M["builtins." + name] = TypeToken(name, fn, kinds)

    def method(kind, name):
        def deco(fn):
            ex.methods[(kind, name)] = Model(f"{kind}.{name}", fn)
            return fn
        return deco

    # ------------------------------------------------------------ builtins
    def b_len(I, v):
        if isinstance(v, (str, list, tuple, dict, set, frozenset, bytes)):
            return len(v)
        if isinstance(v, (SStr, SBytes)):
            return SInt(z3.Length(v.z))
        if isinstance(v, SList):
            return SInt(v.length)
        if isinstance(v, PObj):
            hook = I.ex.len_hooks.get(v.clsname())
            if hook:
                return hook(I, v)
            if isinstance(v.cls, ClassRef):
                m = I.find_method(v.cls, "__len__")
                if m is not None:
                    return I.call(BoundMethod(v, m), [], {})
        if v is None or isinstance(v, (int, SInt, SBool)):
            I.throw("TypeError", "object has no len()")
        _undecided(f"len of {v!r}")
    reg("builtins.len", b_len)

    def b_int(I, v=0, base=10):
        if concrete(v, base):
            try:
                return int(v, base) if isinstance(v, str) else int(v)
            except (ValueError, TypeError, OverflowError) as e:
                I.throw(type(e).__name__, str(e))
        if isinstance(v, SInt):
            return v
        if isinstance(v, SBool):
            return SInt(I._int_term(v))
        if isinstance(v, SStr) and base in (10, 16):
            ok, val = (int10_ok, int10_val) if base == 10 else (int16_ok, int16_val)
            if not I.decide(ok(v.z)):
                I.throw("ValueError", "invalid literal for int()")
            return SInt(val(v.z))
        if isinstance(v, SReal):
            # int() truncates towards zero (finite floats assumed: time stamps)
            r = I.fresh("trunc", Z)
            rr = z3.ToReal(r)
            I.assume(z3.If(v.z >= 0, z3.And(rr <= v.z, v.z < rr + 1), z3.And(rr >= v.z, v.z > rr - 1)))
            return SInt(r)
        if v is None:
            I.throw("TypeError", "int() argument must be a string or a number, not NoneType")
        _undecided(f"int({v!r}, {base!r})")
    regtype("int", b_int, ("int",))

    def b_chr(I, n):
        if isinstance(n, int):
            try:
                return chr(n)
            except (ValueError, OverflowError) as e:
                I.throw(type(e).__name__, str(e))
        if isinstance(n, SInt):
            # measured on CPython 3.12: OverflowError iff n outside C int, ValueError iff
            # n outside range(0x110000) but inside C int
            if I.decide(z3.Or(n.z < -2**31, n.z > 2**31 - 1)):
                I.throw("OverflowError", "Python int too large to convert to C int")
            if I.decide(z3.Or(n.z < 0, n.z > 0x10FFFF)):
                I.throw("ValueError", "chr() arg not in range(0x110000)")
            r = chr_of(n.z)
            I.assume(z3.Length(r) == 1)
            return SStr(r)
        I.throw("TypeError", "an integer is required")
    reg("builtins.chr", b_chr)

    def b_ord(I, c):
        if isinstance(c, str):
            try:
                return ord(c)
            except TypeError as e:
                I.throw("TypeError", str(e))
        if isinstance(c, SStr):
            if not I.decide(z3.Length(c.z) == 1):
                I.throw("TypeError", "ord() expected a character")
            r = ord_of(c.z)
            I.assume(z3.And(r >= 0, r <= 0x10FFFF))
            return SInt(r)
        _undecided("ord")
    reg("builtins.ord", b_ord)

    def b_str(I, v=""):
        if isinstance(v, (str, SStr)):
            return v
        if v is None or isinstance(v, (bool, int, float)):
            return str(v)
        if isinstance(v, SInt):
            r = str_of_int(v.z)
            # digits-only axioms used by the string lemmas (sign or digits, never empty)
            I.assume(z3.Length(r) >= 1)
            return SStr(r)
        if isinstance(v, SBool):
            return SStr(z3.If(v.z, z3.StringVal("True"), z3.StringVal("False")))
        if isinstance(v, ExcVal):
            return I.fresh_str("excmsg")
        if isinstance(v, (list, tuple, dict)) and concrete(v) and _deep_concrete(v):
            return str(v)
        return I.fresh_str("str")
    regtype("str", b_str, ("str",))

    def _deep_concrete(v):
        if isinstance(v, (list, tuple, set)):
            return all(_deep_concrete(x) for x in v)
        if isinstance(v, dict):
            return all(_deep_concrete(k) and _deep_concrete(x) for k, x in v.items())
        return v is None or isinstance(v, (bool, int, float, str))

    def b_repr(I, v):
        if _deep_concrete(v):
            return repr(v)
        if isinstance(v, SStr):
            return SStr(repr_of_str(v.z))
        if isinstance(v, SInt):
            return b_str(I, v)
        return I.fresh_str("repr")
    reg("builtins.repr", b_repr)

    def b_bool(I, v=False):
        if isinstance(v, SBool):
            return v
        if isinstance(v, Sym):
            return SBool(I.as_bool_term(v))
        return I.truthy(v)
    regtype("bool", b_bool, ("bool",))

    def b_isinstance(I, v, t):
        if isinstance(t, tuple):
            return any(b_isinstance(I, v, x) for x in t)
        if isinstance(t, TypeToken):
            k = kind_of(v)
            if k == "bool" and "int" in t.kinds:
                return True
            return k in t.kinds
        if isinstance(t, ClassRef):
            if isinstance(v, PObj) and isinstance(v.cls, ClassRef):
                c = v.cls
                seen = [c]
                while seen:
                    c = seen.pop()
                    if c.name == t.name:
                        return True
                    for b in c.node.bases:
                        if isinstance(b, ast.Name) and isinstance(c.module.defs.get(b.id), ast.ClassDef):
                            seen.append(ClassRef(c.module.defs[b.id], c.module))
                return False
            if isinstance(v, PObj):
                return v.clsname() == t.name
            if isinstance(v, SRef):
                hook = I.ex.isinstance_hook
                if hook:
                    return hook(I, v, t)
                _undecided("isinstance on heap ref")
            return False
        if isinstance(t, ExcClass):
            return isinstance(v, ExcVal) and t.name in v.cls.mro
        _undecided(f"isinstance(_, {t!r})")
    reg("builtins.isinstance", b_isinstance)
    ex.isinstance_hook = None

    def b_dict(I, *args, **kw):
        d = {}
        if args:
            src = args[0]
            if isinstance(src, dict):
                d.update(src)
            else:
                for pair in I.iterate_concrete(src):
                    k, v = I.iterate_concrete(pair)
                    I.setitem(d, k, v)
        for k, v in kw.items():
            d[k] = v
        return d
    regtype("dict", b_dict, ("dict",))

    def b_list(I, it=()):
        if hasattr(it, "iter_state"):
            return it           # snapshot of an abstract iterable: iterated through its protocol
        if isinstance(it, SList):
            return it.copy(I) if hasattr(it, "copy") else _undecided("list(SList)")
        return list(I.iterate_concrete(it))
    regtype("list", b_list, ("list",))

    def b_tuple(I, it=()):
        return tuple(I.iterate_concrete(it))
    regtype("tuple", b_tuple, ("tuple",))

    def b_set(I, it=()):
        items = I.iterate_concrete(it)
        if any(isinstance(x, Sym) for x in items):
            _undecided("set of symbolic values")
        return set(items)
    regtype("set", b_set, ("set",))
    regtype("frozenset", b_set, ("set",))
    regtype("float", lambda I, v=0.0: float(v) if concrete(v) else _undecided("float()"), ("float",))
    regtype("bytes", lambda I, *a: _undecided("bytes()"), ("bytes",))
    regtype("object", lambda I: PObj("object"), ("object",))

    def b_range(I, *a):
        if concrete(*a):
            return range(*a)
        _undecided("symbolic range needs a loop invariant")
    reg("builtins.range", b_range)

    def b_enumerate(I, it, start=0):
        return [(i, x) for i, x in enumerate(I.iterate_concrete(it), start)]
    reg("builtins.enumerate", b_enumerate)

    def b_zip(I, *its):
        return [tuple(t) for t in zip(*[I.iterate_concrete(x) for x in its])]
    reg("builtins.zip", b_zip)

    def b_minmax(is_min):
        def f(I, *args, **kw):
            if kw:
                _undecided("min/max with key")
            items = I.iterate_concrete(args[0]) if len(args) == 1 else list(args)
            if not items:
                I.throw("ValueError", "min() arg is an empty sequence")
            best = items[0]
            for x in items[1:]:
                c = I.compare(ast.Lt() if is_min else ast.Gt(), x, best)
                if I.truthy(c):
                    best = x
            return best
        return f
    reg("builtins.min", b_minmax(True))
    reg("builtins.max", b_minmax(False))

    def b_abs(I, v):
        if isinstance(v, (int, float)):
            return abs(v)
        if isinstance(v, SReal):
            return SReal(z3.If(v.z >= 0, v.z, -v.z))
        if isinstance(v, SInt):
            return SInt(z3.If(v.z >= 0, v.z, -v.z))
        _undecided("abs")
    reg("builtins.abs", b_abs)

    def b_any(I, it):
        from .interp import LazyGen
        if isinstance(it, LazyGen):
            return I.lazy_quant(it, True)
        for x in I.iterate_concrete(it):
            if I.truthy(x):
                return True
        return False
    reg("builtins.any", b_any)

    def b_all(I, it):
        from .interp import LazyGen
        if isinstance(it, LazyGen):
            return not I.lazy_quant(it, False)
        for x in I.iterate_concrete(it):
            if not I.truthy(x):
                return False
        return True
    reg("builtins.all", b_all)

    def b_sorted(I, it, **kw):
        items = I.iterate_concrete(it)
        if concrete(*items) and not kw:
            try:
                return sorted(items)
            except TypeError as e:
                I.throw("TypeError", str(e))
        _undecided("sorted on symbolic values")
    reg("builtins.sorted", b_sorted)

    def b_getattr(I, obj, name, *default):
        if not isinstance(name, str):
            _undecided("getattr with non-constant name")
        from .interp import SymRaise
        try:
            return I.getattr(obj, name)
        except SymRaise as e:
            if default and "AttributeError" in e.exc.cls.mro:
                return default[0]
            raise
    reg("builtins.getattr", b_getattr)

    def b_hasattr(I, obj, name):
        from .interp import SymRaise
        try:
            I.getattr(obj, name)
            return True
        except SymRaise as e:
            if "AttributeError" in e.exc.cls.mro:
                return False
            raise
    reg("builtins.hasattr", b_hasattr)

    def b_type(I, v):
        k = kind_of(v)
        tok = M.get("builtins." + k)
        if isinstance(tok, TypeToken):
            return tok
        if isinstance(v, PObj):
            return v.cls if isinstance(v.cls, ClassRef) else PObj("type:" + v.clsname())
        _undecided(f"type({v!r})")
    reg("builtins.type", b_type)

    def b_callable(I, v):
        return isinstance(v, (Closure, Model, BoundMethod, ClassRef))
    reg("builtins.callable", b_callable)

    # ------------------------------------------------------------ str methods
    @method("str", "startswith")
    def s_startswith(I, s, prefix, *rest):
        if rest:
            _undecided("startswith with start")
        if isinstance(prefix, tuple):
            terms = [s_startswith(I, s, p) for p in prefix]
            if all(isinstance(t, bool) for t in terms):
                return any(terms)
            return SBool(z3.Or([z3_of(t) if not isinstance(t, bool) else z3.BoolVal(t) for t in terms]))
        if kind_of(prefix) != "str":
            I.throw("TypeError", "startswith first arg must be str or a tuple of str")
        if concrete(s, prefix):
            return s.startswith(prefix)
        return SBool(z3.PrefixOf(z3_of(prefix), z3_of(s)))

    @method("str", "endswith")
    def s_endswith(I, s, suffix, *rest):
        if rest:
            _undecided("endswith with start")
        if isinstance(suffix, tuple):
            terms = [s_endswith(I, s, p) for p in suffix]
            if all(isinstance(t, bool) for t in terms):
                return any(terms)
            return SBool(z3.Or([z3_of(t) if not isinstance(t, bool) else z3.BoolVal(t) for t in terms]))
        if kind_of(suffix) != "str":
            I.throw("TypeError", "endswith first arg must be str or a tuple of str")
        if concrete(s, suffix):
            return s.endswith(suffix)
        return SBool(z3.SuffixOf(z3_of(suffix), z3_of(s)))

    def _strip(side):
        def f(I, s, chars=None):
            if concrete(s, chars):
                return getattr(s, side + "strip")(chars) if chars is not None else getattr(s, side + "strip")()
            if isinstance(chars, Sym):
                _undecided("strip with symbolic chars")
            fn = strip_ws if (chars is None and side == "") else strip_chars_fn(chars if chars is not None else "<ws>", side)
            z = z3_of(s)
            r = fn(z)
            # contract of str.strip: the result is a contiguous part of the receiver and
            # stripping is idempotent; with an explicit char set the result neither starts
            # nor ends (per side) with one of the chars
            I.assume(z3.Contains(z, r))
            I.assume(fn(r) == r)
            I.assume(z3.Length(r) <= z3.Length(z))
            if side in ("", "l"):
                I.assume(z3.Implies(z3.Length(r) == z3.Length(z), r == z))
            if chars is not None:
                for c in chars:
                    if side in ("", "l"):
                        I.assume(z3.Not(z3.PrefixOf(z3.StringVal(c), r)))
                    if side in ("", "r"):
                        I.assume(z3.Not(z3.SuffixOf(z3.StringVal(c), r)))
                # nothing to strip => unchanged
                no_edge = []
                for c in chars:
                    if side in ("", "l"):
                        no_edge.append(z3.Not(z3.PrefixOf(z3.StringVal(c), z)))
                    if side in ("", "r"):
                        no_edge.append(z3.Not(z3.SuffixOf(z3.StringVal(c), z)))
                I.assume(z3.Implies(z3.And(no_edge), r == z))
            else:
                for c in " \t\n\r\x0b\x0c":
                    if side in ("", "l"):
                        I.assume(z3.Not(z3.PrefixOf(z3.StringVal(c), r)))
                    if side in ("", "r"):
                        I.assume(z3.Not(z3.SuffixOf(z3.StringVal(c), r)))
            if side == "r":
                I.assume(z3.PrefixOf(r, z))
            if side == "l":
                I.assume(z3.SuffixOf(r, z))
            alphabet_facts_derived(I, r, [z])
            return SStr(r)
        return f
    ex.methods[("str", "strip")] = Model("str.strip", _strip(""))
    ex.methods[("str", "lstrip")] = Model("str.lstrip", _strip("l"))
    ex.methods[("str", "rstrip")] = Model("str.rstrip", _strip("r"))

    @method("str", "replace")
    def s_replace(I, s, a, b, count=-1):
        if concrete(s, a, b, count):
            return s.replace(a, b, count)
        if not (isinstance(a, str) and isinstance(b, str)) or count != -1:
            _undecided("replace with symbolic pattern")
        z = z3_of(s)
        fn = replace_fn(a, b)
        r = fn(z)
        # contract of str.replace(a, b) for a constant non-empty pattern: the result does
        # not contain `a` when `b` does not re-introduce it; unchanged when `a` is absent;
        # single-char to single-char keeps the length
        if a and a not in b and not _can_recreate(a, b):
            I.assume(z3.Not(z3.Contains(r, z3.StringVal(a))))
        I.assume(z3.Implies(z3.Not(z3.Contains(z, z3.StringVal(a))), r == z))
        if len(a) == 1 and len(b) == 1:
            I.assume(z3.Length(r) == z3.Length(z))
            I.assume(z3.Implies(z3.Length(z) == 0, r == z))
            I.assume(z3.Implies(z3.Length(z) > 0, z3.Length(r) > 0))
        if len(a) == len(b):
            I.assume(z3.Length(r) == z3.Length(z))
        alphabet_facts_derived(I, r, [z], [b])
        return SStr(r)

    def _can_recreate(a, b):
        # replacing could create a new occurrence of `a` across a seam only if a has len > 1
        return len(a) > 1

    @method("str", "lower")
    def s_lower(I, s):
        if concrete(s):
            return s.lower()
        r = lower_of(s.z)
        I.assume(lower_of(r) == r)
        return SStr(r)

    @method("str", "upper")
    def s_upper(I, s):
        if concrete(s):
            return s.upper()
        r = upper_of(s.z)
        # instance axiom of str.upper: the empty string, and only it, maps to the empty string
        I.assume((z3.Length(r) == 0) == (z3.Length(s.z) == 0))
        return SStr(r)

    @method("str", "join")
    def s_join(I, sep, it):
        if isinstance(it, SList):
            hook = getattr(it, "join", None)
            if hook:
                return hook(I, sep)
            _undecided("join of symbolic list")
        items = I.iterate_concrete(it)
        for x in items:
            if kind_of(x) != "str":
                I.throw("TypeError", "sequence item: expected str instance")
        if concrete(sep, *items):
            return sep.join(items)
        out = None
        for i, x in enumerate(items):
            if i:
                out = I.binop(ast.Add(), out, sep)
            out = x if out is None else I.binop(ast.Add(), out, x)
        return out if out is not None else ""

    @method("str", "split")
    def s_split(I, s, sep=None, maxsplit=-1):
        if concrete(s, sep, maxsplit):
            return s.split(sep, maxsplit)
        if isinstance(sep, str) and sep and maxsplit == 1:
            z = z3_of(s)
            sp = z3.StringVal(sep)
            if not I.decide(z3.Contains(z, sp)):
                return [s]
            i = z3.IndexOf(z, sp, 0)
            a = z3.SubString(z, 0, i)
            b = z3.SubString(z, i + len(sep), z3.Length(z) - i - len(sep))
            I.assume(z3.Not(z3.Contains(a, sp)))
            I.assume(z == z3.Concat(a, sp, b))
            return [SStr(a), SStr(b)]
        _undecided("split on symbolic string")

    @method("str", "encode")
    def s_encode(I, s, *a, **k):
        if concrete(s, *a):
            try:
                return s.encode(*a, **k)
            except UnicodeError as e:
                I.throw(type(e).__name__, str(e))
        _undecided("encode of symbolic string")

    @method("str", "isascii")
    def s_isascii(I, s):
        """str.isascii: every code point < 128.  Symbolic: an uninterpreted predicate tied to py_ord for
        one-character strings; for longer strings the sidecar instantiates `isascii(s) => isascii(s[k])`"""
        if concrete(s):
            return s.isascii()
        t = is_ascii(z3_of(s))
        if I.decide(z3.Length(z3_of(s)) == 1):
            I.assume(t == (ord_of(z3_of(s)) < 128))
        return SBool(t)

    @method("str", "isdigit")
    def s_isdigit(I, s):
        """str.isdigit: an uninterpreted predicate (non-empty strings only).  Deliberately NOT tied to int(): isdigit
        accepts characters int() rejects (superscripts, circled digits), so `s.isdigit()` does not make int(s) total"""
        if concrete(s):
            return s.isdigit()
        t = is_digit(z3_of(s))
        I.assume(z3.Implies(t, z3.Length(z3_of(s)) >= 1))
        return SBool(t)

    @method("str", "format")
    def s_format(I, s, *a, **k):
        return I.fresh_str("fmt")

    @method("str", "find")
    def s_find(I, s, sub, *rest):
        if concrete(s, sub, *rest):
            return s.find(sub, *rest)
        if rest:
            _undecided("find with start")
        return SInt(z3.IndexOf(z3_of(s), z3_of(sub), 0))

    @method("str", "count")
    def s_count(I, s, sub):
        if concrete(s, sub):
            return s.count(sub)
        _undecided("count on symbolic string")

    # ------------------------------------------------------------ list / dict / tuple methods (concrete shape)
    @method("list", "append")
    def l_append(I, lst, v):
        if isinstance(lst, SList):
            lst.elem = z3.Store(lst.elem, lst.length, lst.unwrap(I, v))
            lst.length = lst.length + 1
            return None
        lst.append(v)

    @method("list", "extend")
    def l_extend(I, lst, it):
        if isinstance(lst, SList):
            _undecided("extend on symbolic list")
        lst.extend(I.iterate_concrete(it))

    @method("list", "insert")
    def l_insert(I, lst, i, v):
        if isinstance(lst, SList) or not isinstance(i, int):
            _undecided("insert on symbolic list")
        lst.insert(i, v)

    @method("list", "pop")
    def l_pop(I, lst, *a):
        if isinstance(lst, SList):
            hook = getattr(lst, "pop", None)
            if hook:
                return hook(I, *a)
            _undecided("pop on symbolic list")
        if not concrete(*a):
            _undecided("pop with symbolic index")
        try:
            return lst.pop(*a)
        except IndexError as e:
            I.throw("IndexError", str(e))

    @method("list", "remove")
    def l_remove(I, lst, v):
        if isinstance(lst, SList):
            hook = getattr(lst, "remove", None)
            if hook:
                return hook(I, v)
            _undecided("remove on symbolic list")
        for i, x in enumerate(lst):
            t = I.eq_term(x, v)
            if t is True or (t is not False and I.decide(t)):
                del lst[i]
                return None
        I.throw("ValueError", "list.remove(x): x not in list")

    @method("list", "index")
    def l_index(I, lst, v):
        if isinstance(lst, SList):
            _undecided("index on symbolic list")
        for i, x in enumerate(lst):
            t = I.eq_term(x, v)
            if t is True or (t is not False and I.decide(t)):
                return i
        I.throw("ValueError", "x not in list")
    ex.methods[("tuple", "index")] = ex.methods[("list", "index")]

    @method("list", "sort")
    def l_sort(I, lst, **kw):
        if isinstance(lst, SList) or kw or not concrete(*lst):
            _undecided("sort on symbolic list")
        lst.sort()

    @method("list", "reverse")
    def l_reverse(I, lst):
        if isinstance(lst, SList):
            _undecided("reverse on symbolic list")
        lst.reverse()

    @method("list", "copy")
    def l_copy(I, lst):
        if isinstance(lst, SList):
            _undecided("copy of symbolic list")
        return list(lst)

    @method("dict", "get")
    def d_get(I, d, k, default=None):
        if isinstance(d, SMap):
            h = d.has(I, k)
            if (h if isinstance(h, bool) else I.decide(h)):
                return d.get(I, k)
            return default
        from .interp import SymRaise
        try:
            return I.getitem(d, k)
        except SymRaise as e:
            if e.exc.cls.name == "KeyError":
                return default
            raise

    @method("dict", "keys")
    def d_keys(I, d):
        if isinstance(d, SMap):
            _undecided("keys of symbolic map")
        return list(d.keys())

    @method("dict", "values")
    def d_values(I, d):
        if isinstance(d, SMap):
            _undecided("values of symbolic map")
        return list(d.values())

    @method("dict", "items")
    def d_items(I, d):
        if isinstance(d, SMap):
            _undecided("items of symbolic map")
        return [(k, v) for k, v in d.items()]

    @method("dict", "update")
    def d_update(I, d, other=None, **kw):
        if isinstance(d, SMap):
            _undecided("update of symbolic map")
        if other is not None:
            if not isinstance(other, dict):
                _undecided("update from non-dict")
            for k, v in other.items():
                I.setitem(d, k, v)
        for k, v in kw.items():
            d[k] = v

    @method("dict", "pop")
    def d_pop(I, d, k, *default):
        if isinstance(d, SMap):
            _undecided("pop of symbolic map")
        from .interp import SymRaise
        try:
            v = I.getitem(d, k)
        except SymRaise as e:
            if e.exc.cls.name == "KeyError" and default:
                return default[0]
            raise
        I.delitem(d, k)
        return v

    @method("dict", "setdefault")
    def d_setdefault(I, d, k, default=None):
        if isinstance(d, SMap):
            _undecided("setdefault of symbolic map")
        from .interp import SymRaise
        try:
            return I.getitem(d, k)
        except SymRaise as e:
            if e.exc.cls.name != "KeyError":
                raise
        I.setitem(d, k, default)
        return default

    @method("dict", "copy")
    def d_copy(I, d):
        if isinstance(d, SMap):
            return d
        return dict(d)

    @method("set", "add")
    def set_add(I, s, v):
        if isinstance(v, Sym):
            _undecided("set.add of symbolic value")
        s.add(v)

    @method("set", "update")
    def set_update(I, s, it):
        for v in I.iterate_concrete(it):
            if isinstance(v, Sym):
                _undecided("set.update with a symbolic value")
            s.add(v)

    @method("set", "discard")
    def set_discard(I, s, v):
        if isinstance(v, Sym):
            _undecided("set.discard of symbolic value")
        s.discard(v)

    # ------------------------------------------------------------ os.path (POSIX contract)
    M["os.path.sep"] = "/"
    M["os.sep"] = "/"

    def p_join(I, a, *rest):
        out = a
        for b in rest:
            if kind_of(out) != "str" or kind_of(b) != "str":
                I.throw("TypeError", "join() argument must be str")
            if concrete(out, b):
                import posixpath
                out = posixpath.join(out, b)
                continue
            za, zb = z3_of(out), z3_of(b)
            slash = z3.StringVal("/")
            # posixpath.join, exactly; path-split (no ite) keeps the string terms small
            if I.decide(z3.PrefixOf(slash, zb)):
                out = b
            elif I.decide(z3.Or(z3.Length(za) == 0, z3.SuffixOf(slash, za))):
                out = I.named_str("joined", z3.Concat(za, zb))
            else:
                out = I.named_str("joined", z3.Concat(za, slash, zb))
        return out
    reg("os.path.join", p_join)

    def p_normpath(I, p):
        if concrete(p):
            import posixpath
            return posixpath.normpath(p)
        z = z3_of(p)
        r = I.fresh("normpath", S)
        I.assume(r == normpath_of(z))
        sl = z3.StringVal("/")
        # POSIX normpath contract (validated against posixpath on the bounded domain of C15):
        # non-empty; absolute stays absolute; an absolute result has no '..' component; no
        # '.' component; no trailing slash (except the root); idempotent
        I.assume(z3.Length(r) >= 1)
        I.assume(z3.Implies(z3.PrefixOf(sl, z), z3.PrefixOf(sl, r)))
        I.assume(z3.Implies(z3.PrefixOf(sl, z), z3.Not(z3.Contains(z3.Concat(r, sl), z3.StringVal("/../")))))
        I.assume(z3.Not(z3.Contains(z3.Concat(r, sl), z3.StringVal("/./"))))
        # no trailing slash, except for the two POSIX roots "/" and "//"
        I.assume(z3.Or(r == sl, r == z3.StringVal("//"), z3.Not(z3.SuffixOf(sl, r))))
        I.assume(z3.Implies(z3.Length(r) > 2, z3.Not(z3.Contains(z3.SubString(r, 1, z3.Length(r)), z3.StringVal("//")))))
        I.assume(normpath_of(r) == r)
        return SStr(r)
    reg("os.path.normpath", p_normpath)
    reg("posixpath.normpath", p_normpath)

    def p_abspath(I, p):
        if not concrete(p):
            z = z3_of(p)
            r = abspath_of(z)
            sl = z3.StringVal("/")
            # abspath = normpath(join(cwd, p)), cwd absolute: result is an absolute normal path
            I.assume(z3.PrefixOf(sl, r))
            I.assume(normpath_of(r) == r)
            I.assume(z3.Not(z3.Contains(r, z3.StringVal("/../"))))
            I.assume(z3.Not(z3.SuffixOf(z3.StringVal("/.."), r)))
            I.assume(z3.Or(r == sl, r == z3.StringVal("//"), z3.Not(z3.SuffixOf(sl, r))))
            return SStr(r)
        _undecided("abspath of a concrete relative path depends on cwd")
    reg("os.path.abspath", p_abspath)

    def p_dirname(I, p):
        if concrete(p):
            import posixpath
            return posixpath.dirname(p)
        z = z3_of(p)
        sl = z3.StringVal("/")
        slashes = z3.Star(z3.Re("/"))
        head = I.fresh("dirhead", S)
        base = I.fresh("dirbase", S)
        r = I.fresh("dirname", S)
        # posixpath.dirname, exactly: head = p[:p.rfind('/')+1]; if head is not made of
        # slashes only, its trailing slashes are stripped
        I.assume(z == z3.Concat(head, base))
        I.assume(z3.Not(z3.Contains(base, sl)))
        I.assume(z3.Or(z3.Length(head) == 0, z3.SuffixOf(sl, head)))
        if I.decide(z3.InRe(head, slashes)):
            I.assume(r == head)
            # consequence (a string of slashes contains no dot), stated to guide the solvers
            I.assume(z3.Not(z3.Contains(r, z3.StringVal("."))))
        else:
            tail = I.fresh("dirslashes", S)
            I.assume(head == z3.Concat(r, tail))
            I.assume(z3.Not(z3.SuffixOf(sl, r)))
            I.assume(z3.InRe(tail, z3.Plus(z3.Re("/"))))
            I.assume(z3.PrefixOf(sl, tail))          # consequence of tail in '/'+
        return SStr(r)
    reg("os.path.dirname", p_dirname)

    # ------------------------------------------------------------ misc library
    def html_name2codepoint():
        import html.entities as he
        tbl = he.name2codepoint
        has = z3.Function("name2codepoint_has", S, B)
        val = z3.Function("name2codepoint_val", S, Z)
        lo, hi = min(tbl.values()), max(tbl.values())

        def has_(I, k):
            if isinstance(k, str):
                return k in tbl
            if kind_of(k) != "str":
                return False
            return has(z3_of(k))

        def get_(I, k):
            if isinstance(k, str):
                return tbl[k]
            v = val(z3_of(k))
            # data lemma re-checked concretely on every run: all code points within [lo, hi]
            I.assume(z3.And(v >= lo, v <= hi))
            return SInt(v)
        return SMap(has_, get_, name="html.entities.name2codepoint")
    M["html.entities.name2codepoint"] = html_name2codepoint()

    def urllib_quote(I, s, *a, **k):
        if concrete(s):
            import urllib.parse
            return urllib.parse.quote(s, *a, **k)
        r = quote_of(z3_of(s))
        return SStr(r)
    reg("urllib.parse.quote", urllib_quote)

    def t_time(I):
        return SReal(I.fresh("now", z3.RealSort()))
    reg("time.time", t_time)

    def ctx_suppress(I, *classes):
        """contextlib.suppress: swallows exactly the exceptions matching one of the classes"""
        from .values import CtxMgr
        return CtxMgr(lambda I2: None, lambda I2, exc: exc is not None and I2.exc_matches(exc, tuple(classes)))
    reg("contextlib.suppress", ctx_suppress)
