"""Symbolic interpreter for the Python subset used by the functions under contract.

Direct-style interpreter with *decision replay*: a path is identified by the list of
branch decisions taken; ``Explorer`` re-executes the harness once per feasible decision
list.  Symbolic exceptions are Python exceptions (``SymRaise``) so ``try/except/finally``
and ``with`` of the interpreted code map onto the host constructs one to one.

What is dropped from the verified text (and nothing else): docstrings, type annotations,
calls on ``log``/``logger``/``logging``/``print``/``traceback.print_exc`` used as
statements (arguments are not evaluated), ``# noqa`` comments.
"""
import ast
import builtins as _py_builtins

import z3

from . import source
from .values import (SInt, SBool, SStr, SReal, SBytes, Sym, PObj, SRef, SList, SMap, Closure,
                     ClassRef, ModRef, Model, BoundMethod, ExcClass, ExcVal, CtxMgr, Opaque,
                     z3_of, kind_of)


class Undecided(Exception):
    """Engine limit reached on this path: the run is undecided (exit 2), not a verdict."""


class PathCut(Exception):
    """Path ends here (infeasible assumption, or loop body cut after invariant check)."""


class SymRaise(Exception):
    def __init__(self, exc):
        self.exc = exc  # ExcVal


class _Return(Exception):
    def __init__(self, value):
        self.value = value


class _Break(Exception):
    pass


class _Continue(Exception):
    pass


LOG_NAMES = {"log", "logger", "logging"}
MAX_UNROLL = 256


_str_cache = {}


def _has_strings(t):
    """does the term mention the sequence theory?"""
    k = t.get_id()
    r = _str_cache.get(k)
    if r is not None:
        return r
    seen = set()
    todo = [t]
    r = False
    while todo:
        x = todo.pop()
        i = x.get_id()
        if i in seen:
            continue
        seen.add(i)
        if z3.is_quantifier(x):
            r = True        # quantified formulas are kept out of the fast path solver too
            break
        srt = x.sort()
        if srt.kind() in (z3.Z3_SEQ_SORT, z3.Z3_RE_SORT):
            r = True
            break
        if z3.is_app(x):
            todo.extend(x.children())
    if len(_str_cache) > 200000:
        _str_cache.clear()
    _str_cache[k] = r
    return r


def _plain(v):
    if isinstance(v, tuple):
        return all(_plain(x) for x in v)
    return v is None or isinstance(v, (bool, int, float, str))


def _builtin_exc(name):
    cls = getattr(_py_builtins, name, None)
    if isinstance(cls, type) and issubclass(cls, BaseException):
        return ExcClass(name, [c.__name__ for c in cls.__mro__])
    return None


class Frame:
    def __init__(self, closure, parent):
        self.vars = {}
        self.closure = closure
        self.parent = parent      # lexically enclosing frame
        self.cur_exc = None
        self.globals_declared = set()

    def lookup(self, name):
        f = self
        while f is not None:
            if name in f.vars:
                return True, f.vars[name]
            f = f.parent
        return False, None


_RT_MODULES = {}


def _plain(v, depth=0):
    if depth > 6:
        return False
    if v is None or isinstance(v, (bool, int, float, str, bytes)):
        return True
    if isinstance(v, (tuple, list, set, frozenset)):
        return all(_plain(x, depth + 1) for x in v)
    if isinstance(v, dict):
        return all(_plain(k, depth + 1) and _plain(x, depth + 1) for k, x in v.items())
    return False


def _same_plain(a, b):
    try:
        return _plain(a) and a == b and type(a) is type(b)
    except Exception:  # noqa: BLE001
        return False


def _runtime_global(rel, name):
    """(True, deep copy of the value) of a module-level name in the imported repository module when
    that value is plain data (numbers, strings, tuples / lists / sets / dicts of such)"""
    import copy
    import importlib
    dotted = rel[:-3].replace("/", ".")
    if dotted.endswith(".__init__"):
        dotted = dotted[:-9]
    if dotted not in _RT_MODULES:
        try:
            _RT_MODULES[dotted] = importlib.import_module(dotted)
        except BaseException:  # noqa: BLE001 - not importable here: the static value stands
            _RT_MODULES[dotted] = None
    m = _RT_MODULES[dotted]
    if m is None or not hasattr(m, name):
        return False, None
    v = getattr(m, name)
    if not _plain(v):
        return False, None
    return True, copy.deepcopy(v)


class LazyGen:
    """``(elt for x in seq)`` over a symbolic-length sequence (iteration protocol len/get)"""

    def __init__(self, e, fr, st):
        self.e, self.fr, self.st = e, fr, st


class Forall:
    """a universally quantified fact given as a typed schema: fn(*terms) -> z3 Bool"""

    def __init__(self, types, fn, label=""):
        self.types = tuple(types)
        self.fn = fn
        self.label = label


class LoopSpec:
    """Sidecar annotation for one loop of a function (keyed by function ident + ordinal).

    invariant(I, frame_vars) -> list of (label, z3 Bool | python bool)
    variant(I, frame_vars)   -> z3 Int | python int (must decrease and stay >= 0), or None
                                for ``for`` loops over an unmodified sequence
    havoc(I, frame_vars)     -> optional callback replacing mutable containers by fresh ones
    types                    -> name -> constructor(I, name) for variables first assigned
                                inside the loop that the invariant mentions
    """

    def __init__(self, invariant, variant=None, havoc=None, keep=(), extra_havoc=(), after_body=None):
        self.after_body = after_body      # (I, vars, iter_state) -> obligations about ONE arbitrary iteration
        self.invariant = invariant
        self.variant = variant
        self.havoc = havoc
        self.keep = set(keep)
        self.extra_havoc = tuple(extra_havoc)


class Interp:
    """One path of symbolic execution (state + interpreter)."""

    def __init__(self, explorer, script):
        self.ex = explorer
        self.script = list(script)
        self.pos = 0
        self.alts = []
        self.pc = []
        self.solver = z3.Solver()
        self.solver.set("timeout", 400)
        self.solver.set("rlimit", 3000000)      # deterministic resource bound (timeouts are not always honoured)
        self.fresh_n = 0
        self.assumed_foralls = {}
        self.pc_ids = set()
        self.subst = []
        self.inputs = {}        # name -> z3 const (declared harness inputs, for models)
        self.vcs = []           # (name, pc snapshot, goal)
        self.trivial = []       # names discharged by evaluation
        self.refuted_concrete = []
        self.call_depth = 0
        self.ghost = {}
        self.modcache = {}
        self.dropped = set()
        self.cur_func = None
        self.steps = 0
        self.covers = []
        self.rebind = None
        self.dry = explorer.dry

    # ------------------------------------------------------------------ path control
    def fresh(self, prefix, sort):
        self.fresh_n += 1
        return z3.Const(f"{prefix}!{self.fresh_n}", sort)

    def feasible(self, cond):
        # the path solver only holds string-free constraints (z3's sequence solver would
        # time out on every branch); ignoring the others over-approximates feasibility,
        # which is sound: an infeasible path only yields obligations with an unsat pc
        if _has_strings(cond):
            return True
        r = self.solver.check(cond)
        return r != z3.unsat

    def _add_pc(self, c):
        self.pc.append(c)
        self.pc_ids.add(c.get_id())
        if not _has_strings(c):
            self.solver.add(c)
        elif z3.is_eq(c):
            # remember `const == literal` so later string conditions simplify syntactically
            a, b = c.children()
            if z3.is_string_value(a):
                a, b = b, a
            if z3.is_string_value(b) and z3.is_const(a) and a.decl().kind() == z3.Z3_OP_UNINTERPRETED:
                self.subst.append((a, b))

    def simp(self, cond):
        if self.subst and _has_strings(cond):
            cond = z3.substitute(cond, *self.subst)
        return z3.simplify(cond)

    def schemas(self):
        sc = self.ghost.get("schemas")
        if sc is None:
            from .schema import Schemas
            if self.ex.typing is None:
                raise Undecided("quantified fact without a typing declaration")
            sc = self.ghost["schemas"] = Schemas(self.ex.typing)
        return sc

    def hint(self, typ, term):
        """extra ground term of type `typ` at which quantified hypotheses are instantiated"""
        self.schemas().hints.append((typ, term))

    def assume(self, cond):
        if isinstance(cond, Forall):
            if id(cond) not in self.assumed_foralls:
                self.assumed_foralls[id(cond)] = cond
                self.schemas().add(cond.label, cond.types, cond.fn)
            return
        if cond is True:
            return
        if cond is False:
            raise PathCut()
        orig = cond
        cond = self.simp(cond)
        if z3.is_true(cond):
            return
        if z3.is_false(cond):
            raise PathCut()
        self._add_pc(z3.simplify(orig))

    def decide(self, cond):
        """Fork on a z3 Bool. Returns the python bool taken on this path."""
        if isinstance(cond, bool):
            return cond
        scond = self.simp(cond)
        if z3.is_true(scond):
            return True
        if z3.is_false(scond):
            return False
        cond = z3.simplify(cond)
        # literally assumed (or refuted) already on this path: no fork
        if cond.get_id() in self.pc_ids:
            return True
        if z3.simplify(z3.Not(cond)).get_id() in self.pc_ids:
            return False
        if self.pos < len(self.script):
            d = self.script[self.pos]
        else:
            can_t = self.feasible(cond)
            can_f = self.feasible(z3.Not(cond))
            if can_t and can_f:
                self.alts.append(self.script[:self.pos] + [False])
                d = True
            elif can_t:
                d = True
            elif can_f:
                d = False
            else:
                raise PathCut()
            self.script.append(d)
        self.pos += 1
        c = cond if d else z3.Not(cond)
        self._add_pc(c)
        return d

    def path_feasible(self, timeout_ms=3000):
        """full check of the path condition (including string constraints); only `unsat`
        prunes"""
        s = z3.Solver()
        s.set("timeout", timeout_ms)
        s.add(*self.pc)
        return s.check() != z3.unsat

    def choose(self, n, label="choice"):
        """n-way nondeterministic choice (e.g. which alternative of a union)."""
        for k in range(n - 1):
            b = self.fresh(label, z3.BoolSort())
            if self.decide(b):
                return k
        return n - 1

    def oblige(self, name, goal, meta=None, assume_after=True):
        """Emit a proof obligation ``pc |- goal`` and continue under ``goal``."""
        if isinstance(goal, Forall):
            if id(goal) in self.assumed_foralls:
                self.ex.ob_names.setdefault(name, 0)
                self.ex.ob_names[name] += 1
                self.trivial.append(name)      # literally one of the assumed facts
                return
            sk = [self.fresh(f"sk@{t}", z3.IntSort()) for t in goal.types]
            for v in sk:
                self.inputs[str(v)] = v
            # the skolemised instance is not assumed afterwards: its constants are of no use
            # to later obligations and would only enlarge their instantiation sets
            return self.oblige(name, goal.fn(*sk), meta, assume_after=False)
        self.ex.ob_names.setdefault(name, 0)
        self.ex.ob_names[name] += 1
        if isinstance(goal, bool):
            if goal:
                self.trivial.append(name)
                return
            # concretely false on this path: refuted iff the path is reachable
            hyps = list(self.pc)
            sc = self.ghost.get("schemas")
            if sc is not None and sc.items:
                inst, truncated = sc.instantiate(hyps)
                hyps = hyps + inst
            self.vcs.append((name, hyps, z3.BoolVal(False), meta))
            raise PathCut()
        if z3.is_and(goal) and goal.num_args() > 1:
            # goals are split per conjunct (small queries are the stable ones)
            for k, g in enumerate(goal.children()):
                self.oblige(f"{name}.c{k}", g, meta, assume_after)
            self.ex.ob_names[name] -= 1
            return
        if z3.is_true(self.simp(goal)):
            self.trivial.append(name)
            return
        goal = z3.simplify(goal)
        if goal.get_id() in self.pc_ids:
            self.trivial.append(name)      # literally one of the assumptions
            return
        if self.dry:
            # path enumeration only: no hypotheses are instantiated, nothing is recorded
            if assume_after:
                self.assume(goal)
            return
        hyps = list(self.pc)
        sc = self.ghost.get("schemas")
        if sc is not None and sc.items:
            inst, truncated = sc.instantiate(hyps + [goal])
            hyps = hyps + inst
            meta = dict(meta or {}, schema_instances=len(inst), truncated=truncated)
        self.vcs.append((name, hyps, goal, meta))
        if assume_after:
            self.assume(goal)

    def cover(self, name):
        """Vacuity guard: this point must be reachable (pc satisfiable)."""
        self.covers.append((name, list(self.pc)))

    # ------------------------------------------------------------------ inputs
    def sym_int(self, name):
        c = z3.Int(name)
        self.inputs[name] = c
        return SInt(c)

    def sym_bool(self, name):
        c = z3.Bool(name)
        self.inputs[name] = c
        return SBool(c)

    def sym_str(self, name):
        c = z3.String(name)
        self.inputs[name] = c
        return SStr(c)

    def sym_real(self, name):
        c = z3.Real(name)
        self.inputs[name] = c
        return SReal(c)

    def fresh_str(self, prefix="s"):
        return SStr(self.fresh(prefix, z3.StringSort()))

    def named_str(self, prefix, term):
        """introduce a name for an intermediate string (keeps solver terms small)"""
        c = self.fresh(prefix, z3.StringSort())
        self.assume(c == term)
        return SStr(c)

    def fresh_int(self, prefix="i"):
        return SInt(self.fresh(prefix, z3.IntSort()))

    def fresh_bool(self, prefix="b"):
        return SBool(self.fresh(prefix, z3.BoolSort()))

    # ------------------------------------------------------------------ exceptions
    def exc_class(self, name):
        e = _builtin_exc(name)
        if e is not None:
            return e
        raise Undecided(f"unknown exception class {name}")

    def throw(self, name, *args):
        raise SymRaise(ExcVal(self.exc_class(name), list(args)))

    def exc_matches(self, excval, handler_val):
        if isinstance(handler_val, tuple):
            return any(self.exc_matches(excval, h) for h in handler_val)
        if isinstance(handler_val, ExcClass):
            return handler_val.name in excval.cls.mro
        raise Undecided(f"except clause with non-class {handler_val!r}")

    # ------------------------------------------------------------------ truthiness / coercions
    def truthy(self, v):
        if v is None or isinstance(v, (bool, int, str, float, list, tuple, dict, set, frozenset, bytes)):
            return bool(v)
        if isinstance(v, SBool):
            return self.decide(v.z)
        if isinstance(v, SInt):
            return self.decide(v.z != 0)
        if isinstance(v, SReal):
            return self.decide(v.z != 0)
        if isinstance(v, (SStr, SBytes)):
            return self.decide(z3.Length(v.z) > 0)
        if isinstance(v, SList):
            return self.decide(v.length > 0)
        if isinstance(v, SRef):
            return self.decide(v.z != 0)
        if isinstance(v, PObj):
            hook = self.ex.truthy_hooks.get(v.clsname())
            if hook:
                return hook(self, v)
            if isinstance(v.cls, ClassRef) and (self.find_method(v.cls, "__bool__") or self.find_method(v.cls, "__len__")):
                raise Undecided(f"truthiness of {v!r} with __bool__/__len__")
            return True
        if isinstance(v, (Closure, Model, BoundMethod, ClassRef, ModRef, ExcClass, ExcVal, CtxMgr)):
            return True
        raise Undecided(f"truthiness of {v!r}")

    def as_bool_term(self, v):
        """z3 Bool for the truthiness of a scalar without forking."""
        if isinstance(v, SBool):
            return v.z
        if isinstance(v, SInt):
            return v.z != 0
        if isinstance(v, (SStr, SBytes)):
            return z3.Length(v.z) > 0
        if isinstance(v, SList):
            return v.length > 0
        return z3.BoolVal(self.truthy(v))

    # ------------------------------------------------------------------ operators
    def binop(self, op, a, b):
        ka, kb = kind_of(a), kind_of(b)
        sym = isinstance(a, Sym) or isinstance(b, Sym)
        if ka == "str" and isinstance(op, ast.Mod) and not (isinstance(a, str) and _plain(b)):
            # "..." % x with a symbolic / object operand: only used for messages
            return self.fresh_str("fmt")
        if not sym and not isinstance(a, (SList,)) and not isinstance(b, (SList,)):
            if isinstance(a, (PObj, SRef, Opaque)) or isinstance(b, (PObj, SRef, Opaque)):
                raise Undecided(f"binary operator on objects {a!r} {b!r}")
            return self._concrete_binop(op, a, b)
        num = {"int", "bool"}
        if ka in num and kb in num:
            x, y = self._int_term(a), self._int_term(b)
            if isinstance(op, ast.Add):
                return SInt(x + y)
            if isinstance(op, ast.Sub):
                return SInt(x - y)
            if isinstance(op, ast.Mult):
                return SInt(x * y)
            if isinstance(op, (ast.FloorDiv, ast.Mod)):
                if self.decide(y == 0):
                    self.throw("ZeroDivisionError", "integer division or modulo by zero")
                q = z3.If(y > 0, x / y, (-x) / (-y))
                if isinstance(op, ast.FloorDiv):
                    return SInt(q)
                return SInt(x - y * q)
            if isinstance(op, ast.Pow):
                if self.ex.pow_hook is not None:
                    return self.ex.pow_hook(self, a, b)
                raise Undecided("symbolic ** (resource precondition applies)")
            if isinstance(op, ast.Div):
                if self.decide(y == 0):
                    self.throw("ZeroDivisionError", "division by zero")
                return SReal(z3.ToReal(x) / z3.ToReal(y))
            raise Undecided(f"int operator {op.__class__.__name__}")
        if ka in num | {"float"} and kb in num | {"float"}:
            x, y = self._real_term(a), self._real_term(b)
            if isinstance(op, ast.Add):
                return SReal(x + y)
            if isinstance(op, ast.Sub):
                return SReal(x - y)
            if isinstance(op, ast.Mult):
                return SReal(x * y)
            if isinstance(op, ast.Div):
                if self.decide(y == 0):
                    self.throw("ZeroDivisionError", "float division by zero")
                return SReal(x / y)
            if isinstance(op, ast.Pow) and self.ex.pow_hook is not None:
                return self.ex.pow_hook(self, a, b)
            raise Undecided(f"float operator {op.__class__.__name__}")
        if ka == "str" and kb == "str":
            if isinstance(op, ast.Add):
                t = z3.Concat(z3_of(a), z3_of(b))
                from . import models as _m
                if _m._alphabets:
                    _m.alphabet_facts_derived(self, t, [z3_of(a), z3_of(b)])
                return SStr(t)
            if isinstance(op, ast.Mod):
                return self.fresh_str("fmt")
        if ka == "str" and isinstance(op, ast.Mod):
            # "..." % x : only used for messages; result is an unconstrained string
            return self.fresh_str("fmt")
        if isinstance(op, ast.Add) and {ka, kb} <= {"str"} | num:
            self.throw("TypeError", "unsupported operand type(s) for +")
        raise Undecided(f"operator {op.__class__.__name__} on {ka},{kb}")

    def _concrete_binop(self, op, a, b):
        import operator
        table = {ast.Add: operator.add, ast.Sub: operator.sub, ast.Mult: operator.mul,
                 ast.FloorDiv: operator.floordiv, ast.Mod: operator.mod, ast.Div: operator.truediv,
                 ast.Pow: operator.pow, ast.BitOr: operator.or_, ast.BitAnd: operator.and_,
                 ast.LShift: operator.lshift, ast.RShift: operator.rshift, ast.BitXor: operator.xor}
        f = table.get(type(op))
        if f is None:
            raise Undecided(f"operator {op.__class__.__name__}")
        if isinstance(op, ast.Pow) and isinstance(b, int) and abs(b) > 4096:
            raise Undecided("** with huge exponent")
        if isinstance(op, ast.Mult) and isinstance(a, (str, list, tuple)) and isinstance(b, int) and b > 10**6:
            raise Undecided("sequence repetition with huge count")
        try:
            return f(a, b)
        except Exception as e:  # noqa: BLE001 - mirror Python's own exception
            self.throw(type(e).__name__, str(e))

    def _int_term(self, v):
        if isinstance(v, SBool):
            return z3.If(v.z, z3.IntVal(1), z3.IntVal(0))
        if isinstance(v, bool):
            return z3.IntVal(int(v))
        return z3_of(v)

    def _real_term(self, v):
        if isinstance(v, SReal):
            return v.z
        if isinstance(v, float):
            return z3.RealVal(v)
        return z3.ToReal(self._int_term(v))

    def eq_term(self, a, b):
        """z3 Bool (or python bool) for Python ``a == b``."""
        ka, kb = kind_of(a), kind_of(b)
        if not isinstance(a, (Sym, SRef, SList)) and not isinstance(b, (Sym, SRef, SList)):
            if isinstance(a, (PObj,)) or isinstance(b, (PObj,)):
                if isinstance(a, PObj) and isinstance(b, PObj):
                    hook = self.ex.eq_hooks.get(a.clsname())
                    if hook:
                        return hook(self, a, b)
                    if isinstance(a.cls, ClassRef) and self.find_method(a.cls, "__eq__"):
                        raise Undecided(f"== with user __eq__ on {a!r}")
                return a is b
            if isinstance(a, (list, tuple)) and isinstance(b, (list, tuple)) and type(a) is type(b):
                if len(a) != len(b):
                    return False
                terms = [self.eq_term(x, y) for x, y in zip(a, b)]
                if all(isinstance(t, bool) for t in terms):
                    return all(terms)
                return z3.And([t if not isinstance(t, bool) else z3.BoolVal(t) for t in terms])
            if isinstance(a, dict) and isinstance(b, dict):
                if set(map(repr, a.keys())) != set(map(repr, b.keys())):
                    if all(not isinstance(k, Sym) for k in list(a) + list(b)):
                        return False
                    raise Undecided("dict == with symbolic keys")
                terms = [self.eq_term(a[k], b[k]) for k in a]
                if all(isinstance(t, bool) for t in terms):
                    return all(terms)
                return z3.And([t if not isinstance(t, bool) else z3.BoolVal(t) for t in terms])
            if isinstance(a, (Opaque,)) or isinstance(b, (Opaque,)):
                raise Undecided("== on opaque value")
            try:
                return bool(a == b)
            except Exception:
                raise Undecided("== failed concretely")
        num = {"int", "bool"}
        if ka in num and kb in num:
            if ka == "bool" and kb == "bool":
                return self._bool_term(a) == self._bool_term(b)
            return self._int_term(a) == self._int_term(b)
        if ka in num | {"float"} and kb in num | {"float"}:
            return self._real_term(a) == self._real_term(b)
        if ka == "str" and kb == "str":
            return z3_of(a) == z3_of(b)
        if ka == "bytes" and kb == "bytes" and isinstance(a, Sym) and isinstance(b, Sym):
            return a.z == b.z
        if isinstance(a, SRef) and isinstance(b, SRef):
            return a.z == b.z
        if isinstance(a, SRef) and b is None:
            return a.z == 0
        if isinstance(b, SRef) and a is None:
            return b.z == 0
        if isinstance(a, (list, tuple)) and isinstance(b, (list, tuple)) and type(a) is type(b):
            if len(a) != len(b):
                return False
            terms = [self.eq_term(x, y) for x, y in zip(a, b)]
            return z3.And([t if not isinstance(t, bool) else z3.BoolVal(t) for t in terms])
        if ka != kb and ka in ("none", "str", "int", "bool", "list", "tuple", "dict") and \
                kb in ("none", "str", "int", "bool", "list", "tuple", "dict"):
            if {ka, kb} <= num:
                return self._int_term(a) == self._int_term(b)
            return False
        raise Undecided(f"== on {ka},{kb}")

    def _bool_term(self, v):
        if isinstance(v, SBool):
            return v.z
        return z3.BoolVal(bool(v))

    def compare(self, op, a, b):
        if isinstance(op, ast.Eq):
            t = self.eq_term(a, b)
            return t if isinstance(t, bool) else SBool(t)
        if isinstance(op, ast.NotEq):
            t = self.eq_term(a, b)
            return (not t) if isinstance(t, bool) else SBool(z3.Not(t))
        if isinstance(op, (ast.Is, ast.IsNot)):
            neg = isinstance(op, ast.IsNot)
            if a is None or b is None:
                other = b if a is None else a
                if isinstance(other, SRef):
                    t = other.z == 0
                    return SBool(z3.Not(t) if neg else t)
                r = other is None
                return (not r) if neg else r
            if isinstance(a, SRef) and isinstance(b, SRef):
                t = a.z == b.z
                return SBool(z3.Not(t) if neg else t)
            if isinstance(a, (bool,)) and isinstance(b, (bool,)):
                return (a is not b) if neg else (a is b)
            if isinstance(a, SBool) or isinstance(b, SBool):
                if kind_of(a) == "bool" and kind_of(b) == "bool":
                    t = self._bool_term(a) == self._bool_term(b)
                    return SBool(z3.Not(t) if neg else t)
                return neg
            if isinstance(a, (PObj, Closure, ClassRef, list, dict, Model, ExcClass)) or \
                    isinstance(b, (PObj, Closure, ClassRef, list, dict, Model, ExcClass)):
                r = a is b
                return (not r) if neg else r
            raise Undecided(f"'is' on {a!r} {b!r}")
        if isinstance(op, (ast.In, ast.NotIn)):
            t = self.contains(b, a)
            if isinstance(op, ast.NotIn):
                return (not t) if isinstance(t, bool) else SBool(z3.Not(t))
            return t if isinstance(t, bool) else SBool(t)
        ka, kb = kind_of(a), kind_of(b)
        if isinstance(a, tuple) and isinstance(b, tuple) and (any(isinstance(x, Sym) for x in a + b)):
            # lexicographic order on tuples of scalars
            if len(a) != len(b):
                raise Undecided("ordering of tuples of different length")
            strict = isinstance(op, (ast.Lt, ast.Gt))
            lt_op = ast.Lt() if isinstance(op, (ast.Lt, ast.LtE)) else ast.Gt()
            res = z3.BoolVal(not strict)
            for x, y in reversed(list(zip(a, b))):
                lt = self.compare(lt_op, x, y)
                eq = self.eq_term(x, y)
                lt = z3.BoolVal(lt) if isinstance(lt, bool) else lt.z
                eq = z3.BoolVal(eq) if isinstance(eq, bool) else eq
                res = z3.Or(lt, z3.And(eq, res))
            return SBool(z3.simplify(res))
        if not isinstance(a, Sym) and not isinstance(b, Sym):
            hook = None
            if isinstance(a, PObj):
                hook = self.ex.order_hooks.get(a.clsname())
            if hook:
                return hook(self, op, a, b)
            if isinstance(a, (PObj, SRef, Opaque)) or isinstance(b, (PObj, SRef, Opaque)):
                raise Undecided(f"ordering on objects {a!r} {b!r}")
            import operator
            f = {ast.Lt: operator.lt, ast.LtE: operator.le, ast.Gt: operator.gt, ast.GtE: operator.ge}[type(op)]
            try:
                return f(a, b)
            except TypeError as e:
                self.throw("TypeError", str(e))
        num = {"int", "bool"}
        if ka in num and kb in num:
            x, y = self._int_term(a), self._int_term(b)
        elif ka in num | {"float"} and kb in num | {"float"}:
            x, y = self._real_term(a), self._real_term(b)
        elif ka == "str" and kb == "str":
            x, y = z3_of(a), z3_of(b)
            # Python orders strings lexicographically by code point, as SMT-LIB's str.< / str.<= do
            if isinstance(op, ast.Lt):
                return SBool(x < y)
            if isinstance(op, ast.LtE):
                return SBool(x <= y)
            if isinstance(op, ast.Gt):
                return SBool(y < x)
            if isinstance(op, ast.GtE):
                return SBool(y <= x)
            raise Undecided("string ordering")
        else:
            if {ka, kb} & {"none", "str", "list", "dict"}:
                self.throw("TypeError", f"'<' not supported between {ka} and {kb}")
            raise Undecided(f"ordering on {ka},{kb}")
        if isinstance(op, ast.Lt):
            return SBool(x < y)
        if isinstance(op, ast.LtE):
            return SBool(x <= y)
        if isinstance(op, ast.Gt):
            return SBool(x > y)
        return SBool(x >= y)

    def contains(self, container, item):
        if isinstance(container, (str, SStr)):
            if kind_of(item) != "str":
                self.throw("TypeError", "'in <string>' requires string as left operand")
            if isinstance(container, str) and isinstance(item, str):
                return item in container
            return z3.Contains(z3_of(container), z3_of(item))
        if isinstance(container, (list, tuple, set, frozenset)):
            terms = [self.eq_term(item, x) for x in container]
            if any(t is True for t in terms):
                return True
            terms = [t for t in terms if t is not False]
            if not terms:
                return False
            return z3.Or(terms) if len(terms) > 1 else terms[0]
        if isinstance(container, dict):
            return self.contains(list(container.keys()), item)
        if isinstance(container, SMap):
            return container.has(self, item)
        if isinstance(container, SList):
            hook = getattr(container, "contains", None)
            if hook:
                return hook(self, item)
            raise Undecided("'in' on symbolic list")
        if isinstance(container, PObj):
            hook = self.ex.contains_hooks.get(container.clsname())
            if hook:
                return hook(self, container, item)
        raise Undecided(f"'in' on {container!r}")

    # ------------------------------------------------------------------ subscripts
    def norm_index(self, idx, length):
        """(term, in-range cond) for python index semantics."""
        i = self._int_term(idx)
        n = length
        real = z3.If(i < 0, i + n, i)
        ok = z3.And(real >= 0, real < n)
        return z3.simplify(real), z3.simplify(ok)

    def getitem(self, obj, idx):
        if isinstance(idx, slice) or isinstance(idx, tuple) and idx and idx[0] == "__slice__":
            if isinstance(obj, PObj) and obj.clsname() in self.ex.getitem_hooks:
                return self.ex.getitem_hooks[obj.clsname()](self, obj, idx)
            return self.getslice(obj, idx)
        if isinstance(obj, (str, SStr)):
            if kind_of(idx) not in ("int", "bool"):
                self.throw("TypeError", "string indices must be integers")
            if isinstance(obj, str) and isinstance(idx, int):
                try:
                    return obj[idx]
                except IndexError:
                    self.throw("IndexError", "string index out of range")
            s = z3_of(obj)
            real, ok = self.norm_index(idx, z3.Length(s))
            if not self.decide(ok):
                self.throw("IndexError", "string index out of range")
            return SStr(z3.SubString(s, real, 1))
        if isinstance(obj, (list, tuple)):
            if isinstance(idx, (int, bool)):
                try:
                    return obj[idx]
                except IndexError:
                    self.throw("IndexError", "list index out of range")
            if isinstance(idx, SInt):
                n = len(obj)
                real, ok = self.norm_index(idx, z3.IntVal(n))
                if not self.decide(ok):
                    self.throw("IndexError", "list index out of range")
                for k in range(n - 1):
                    if self.decide(real == k):
                        return obj[k]
                return obj[n - 1]
            self.throw("TypeError", "list indices must be integers or slices")
        if isinstance(obj, dict):
            if isinstance(idx, SStr) and obj and all(isinstance(k, str) for k in obj) and \
                    all(isinstance(v, int) and not isinstance(v, bool) for v in obj.values()):
                # table of integers keyed by strings: one membership decision, value as an if-then-else term
                member = z3.Or(*[idx.z == z3.StringVal(k) for k in obj])
                if not self.decide(member):
                    self.throw("KeyError", idx)
                term = None
                for k, v in obj.items():
                    term = z3.IntVal(v) if term is None else z3.If(idx.z == z3.StringVal(k), z3.IntVal(v), term)
                return SInt(term)
            if isinstance(idx, Sym):
                for k in obj:
                    t = self.eq_term(idx, k)
                    if t is True or (t is not False and self.decide(t)):
                        return obj[k]
                self.throw("KeyError", idx)
            try:
                if idx in obj:
                    return obj[idx]
            except TypeError:
                self.throw("TypeError", "unhashable type")
            for k in obj:
                if isinstance(k, Sym):
                    t = self.eq_term(idx, k)
                    if t is not False and self.decide(t):
                        return obj[k]
            self.throw("KeyError", idx)
        if isinstance(obj, SMap):
            h = obj.has(self, idx)
            if not self.decide(h) if not isinstance(h, bool) else not h:
                self.throw("KeyError", idx)
            return obj.get(self, idx)
        if isinstance(obj, SList):
            real, ok = self.norm_index(idx, obj.length)
            if not self.decide(ok):
                self.throw("IndexError", "list index out of range")
            return obj.wrap(self, z3.Select(obj.elem, real))
        if isinstance(obj, PObj):
            hook = self.ex.getitem_hooks.get(obj.clsname())
            if hook:
                return hook(self, obj, idx)
            if isinstance(obj.cls, ClassRef):
                m = self.find_method(obj.cls, "__getitem__")
                if m is not None:
                    return self.call(BoundMethod(obj, m), [idx], {})
        if obj is None:
            self.throw("TypeError", "'NoneType' object is not subscriptable")
        raise Undecided(f"subscript on {obj!r}")

    def getslice(self, obj, sl):
        _, lo, hi, step = sl
        if step is not None:
            raise Undecided("slice step")
        if isinstance(obj, (str, list, tuple)) and all(x is None or isinstance(x, int) for x in (lo, hi)):
            return obj[lo:hi]
        if isinstance(obj, (str, SStr)):
            s = z3_of(obj)
            n = z3.Length(s)

            def clamp(v, default):
                if v is None:
                    return default
                t = self._int_term(v)
                t = z3.If(t < 0, t + n, t)
                return z3.If(t < 0, z3.IntVal(0), z3.If(t > n, n, t))
            a = clamp(lo, z3.IntVal(0))
            b = clamp(hi, n)
            ln = z3.If(b > a, b - a, z3.IntVal(0))
            return SStr(z3.SubString(s, z3.simplify(a), z3.simplify(ln)))
        if isinstance(obj, SList):
            hook = getattr(obj, "slice", None)
            if hook:
                return hook(self, lo, hi)
        raise Undecided(f"slice of {obj!r}")

    def setitem(self, obj, idx, val):
        if isinstance(obj, list) and isinstance(idx, int):
            try:
                obj[idx] = val
            except IndexError:
                self.throw("IndexError", "list assignment index out of range")
            return
        if isinstance(obj, dict):
            if isinstance(idx, Sym):
                for k in list(obj):
                    t = self.eq_term(idx, k)
                    if t is True or (t is not False and self.decide(t)):
                        obj[k] = val
                        return
                obj[idx] = val  # key distinct from all present ones on this path
                return
            for k in list(obj):
                if isinstance(k, Sym):
                    t = self.eq_term(idx, k)
                    if t is not False and self.decide(t):
                        obj[k] = val
                        return
            obj[idx] = val
            return
        if isinstance(obj, SList):
            real, ok = self.norm_index(idx, obj.length)
            if not self.decide(ok):
                self.throw("IndexError", "list assignment index out of range")
            obj.elem = z3.Store(obj.elem, real, obj.unwrap(self, val))
            return
        if isinstance(obj, PObj):
            hook = self.ex.setitem_hooks.get(obj.clsname())
            if hook:
                return hook(self, obj, idx, val)
        raise Undecided(f"item assignment on {obj!r}")

    # ------------------------------------------------------------------ attributes
    def find_method(self, cls, name):
        """Search a repository class and its bases (same module) for a def."""
        seen = set()
        todo = [cls]
        while todo:
            c = todo.pop(0)
            if id(c) in seen:
                continue
            seen.add(id(c))
            for n in c.node.body:
                if isinstance(n, ast.FunctionDef) and n.name == name:
                    kind = "function"
                    for d in n.decorator_list:
                        if isinstance(d, ast.Name) and d.id in ("staticmethod", "classmethod", "property"):
                            kind = d.id
                    return Closure(n, c.module, None, f"{c.name}.{name}", cls=c, kind=kind)
            for b in c.node.bases:
                if isinstance(b, ast.Name) and b.id in c.module.defs and isinstance(c.module.defs[b.id], ast.ClassDef):
                    todo.append(ClassRef(c.module.defs[b.id], c.module))
        return None

    def class_attr(self, cls, name):
        for n in cls.node.body:
            if isinstance(n, ast.Assign):
                for t in n.targets:
                    if isinstance(t, ast.Name) and t.id == name:
                        return True, n.value
        return False, None

    def getattr(self, obj, name):
        if isinstance(obj, PObj):
            if name in obj.fields:
                return obj.fields[name]
            if name == "__dict__":
                return obj.fields
            if name == "__class__" and isinstance(obj.cls, ClassRef):
                return obj.cls
            hook = self.ex.getattr_hooks.get(obj.clsname())
            if hook:
                r = hook(self, obj, name)
                if r is not NotImplemented:
                    return r
            if isinstance(obj.cls, ClassRef):
                m = self.find_method(obj.cls, name)
                if m is not None:
                    if m.kind == "property":
                        return self.call(m, [obj], {})
                    if m.kind == "staticmethod":
                        return m
                    return BoundMethod(obj, m)
                ok, expr = self.class_attr(obj.cls, name)
                if ok:
                    return self.eval_in_module(obj.cls.module, expr)
            mm = self.ex.methods.get((obj.clsname(), name))
            if mm:
                return BoundMethod(obj, mm)
            if isinstance(obj.cls, ClassRef) and not (name.startswith("__") and name.endswith("__")):
                ga = self.find_method(obj.cls, "__getattr__")      # the class's own fallback
                if ga is not None:
                    return self.invoke(ga, [obj, name], {})
            self.throw("AttributeError", f"{obj.clsname()} has no attribute {name}")
        if isinstance(obj, SRef):
            hook = self.ex.heap_getattr
            if hook:
                return hook(self, obj, name)
            raise Undecided("heap access without heap model")
        if isinstance(obj, ModRef):
            return self.resolve_dotted(obj.dotted + "." + name)
        if isinstance(obj, ClassRef):
            if name == "__name__":
                return obj.name
            m = self.find_method(obj, name)
            if m is not None:
                return m
            ok, expr = self.class_attr(obj, name)
            if ok:
                return self.eval_in_module(obj.module, expr)
            self.throw("AttributeError", name)
        k = kind_of(obj)
        mm = self.ex.methods.get((k, name))
        if mm:
            return BoundMethod(obj, mm)
        if isinstance(obj, ExcVal):
            if name == "args":
                return tuple(obj.args)
            f = getattr(obj, "fields", {})
            if name in f:
                return f[name]
        if isinstance(obj, Closure) and name in ("__name__",):
            return obj.node.name
        if obj is None:
            self.throw("AttributeError", f"'NoneType' object has no attribute '{name}'")
        if isinstance(obj, Opaque):
            raise Undecided(f"attribute {name} of {obj!r}")
        if k in ("str", "int", "list", "dict", "tuple", "bool", "float", "set", "bytes"):
            if not hasattr({"str": "", "int": 0, "list": [], "dict": {}, "tuple": (), "bool": True,
                            "float": 0.0, "set": set(), "bytes": b""}[k], name):
                self.throw("AttributeError", f"'{k}' object has no attribute '{name}'")
            raise Undecided(f"no model for {k}.{name}")
        raise Undecided(f"attribute {name} of {obj!r}")

    def setattr(self, obj, name, val):
        if isinstance(obj, PObj):
            hook = self.ex.setattr_hooks.get(obj.clsname())
            if hook is not None and hook(self, obj, name, val):
                return
            if name == "__dict__":
                if not isinstance(val, dict):
                    raise Undecided("__dict__ assigned a non-dict")
                obj.fields = val
                return
            obj.fields[name] = val
            return
        if isinstance(obj, SRef):
            hook = self.ex.heap_setattr
            if hook:
                return hook(self, obj, name, val)
        raise Undecided(f"attribute assignment on {obj!r}")

    # ------------------------------------------------------------------ names
    def resolve_dotted(self, dotted):
        m = self.ex.models.get(dotted)
        if m is not None:
            return m
        # repository module?
        rel = self.ex.repo_module_of(dotted)
        if rel is not None:
            modrel, rest = rel
            if not rest:
                return ModRef(dotted)
            return self.module_global(source.module(modrel), rest[0]) if len(rest) == 1 else \
                self.getattr(self.module_global(source.module(modrel), rest[0]), rest[1])
        return ModRef(dotted)

    def module_global(self, mod, name):
        key = (mod.rel, name)
        if key in self.modcache:
            return self.modcache[key]
        ov = self.ex.global_overrides.get(key)
        if ov is not None:
            v = ov(self) if callable(ov) and not isinstance(ov, (Model,)) else ov
            self.modcache[key] = v
            return v
        if name in mod.defs:
            n = mod.defs[name]
            if isinstance(n, ast.ClassDef):
                e = self.repo_exc_class(mod, n)
                v = e if e is not None else ClassRef(n, mod)
            else:
                v = Closure(n, mod, None, name)
            self.modcache[key] = v
            return v
        if name in mod.assigns:
            try:
                v = self.eval_in_module(mod, mod.assigns[name])
                static_failed = None
            except Undecided as u:
                v, static_failed = None, u
            if static_failed is not None or isinstance(v, (set, frozenset, dict, list)):
                # a module-level container may be filled / mutated by later module-level statements
                # (registration calls, updates): the value the running code sees is the one of the
                # imported module.  Taken from there when it converts (plain data and classes of the
                # repository); a container that does not convert but visibly differs from its defining
                # expression makes the path undecided instead of using a stale value.
                state, rv = self._runtime_global(mod, name)
                if state == "ok":
                    if static_failed is None and not _same_plain(v, rv):
                        self.ex.dropped.add(f"global {mod.rel}:{name} read from the imported module (mutated after its definition)")
                    v = rv
                elif static_failed is not None:
                    raise static_failed
                elif state == "differs":
                    raise Undecided(f"module-level container {mod.rel}:{name} is mutated after its definition and holds values that are not modelled")
            self.modcache[key] = v
            return v
        if name in mod.imports:
            dotted = mod.imports[name]
            if dotted.startswith("."):
                dotted = self.ex.absolutize(mod.rel, dotted)
            v = self.resolve_dotted(dotted)
            self.modcache[key] = v
            return v
        return self.builtin_name(name)

    def _runtime_global(self, mod, name):
        """('ok', interp value) | ('differs', None) | ('unknown', None) for a module-level container of the
        imported repository module"""
        import importlib
        dotted = mod.rel[:-3].replace("/", ".")
        if dotted.endswith(".__init__"):
            dotted = dotted[:-9]
        if dotted not in _RT_MODULES:
            try:
                _RT_MODULES[dotted] = importlib.import_module(dotted)
            except BaseException:  # noqa: BLE001 - not importable here: the static value stands
                _RT_MODULES[dotted] = None
        m = _RT_MODULES[dotted]
        if m is None or not hasattr(m, name):
            return "unknown", None
        rv = getattr(m, name)

        class Fail(Exception):
            pass

        def conv(v, depth=0):
            if depth > 6:
                raise Fail()
            if v is None or isinstance(v, (bool, int, float, str, bytes)):
                return v
            if isinstance(v, type) and getattr(v, "__module__", None) == dotted and v.__name__ in mod.defs:
                return self.module_global(mod, v.__name__)        # the same ClassRef the code's own names resolve to
            if isinstance(v, tuple):
                return tuple(conv(x, depth + 1) for x in v)
            if isinstance(v, list):
                return [conv(x, depth + 1) for x in v]
            if isinstance(v, (set, frozenset)):
                return type(v)(conv(x, depth + 1) for x in v)
            if isinstance(v, dict):
                return {conv(k, depth + 1): conv(x, depth + 1) for k, x in v.items()}
            raise Fail()
        try:
            return "ok", conv(rv)
        except Fail:
            pass
        try:
            static = self.eval_in_module(mod, mod.assigns[name])
            if hasattr(rv, "__len__") and hasattr(static, "__len__") and len(rv) != len(static):
                return "differs", None
        except Exception:  # noqa: BLE001
            pass
        return "unknown", None

    def repo_exc_class(self, mod, node):
        mro = [node.name]
        cur = node
        for _ in range(8):
            if not cur.bases:
                return None
            b = cur.bases[0]
            bname = b.id if isinstance(b, ast.Name) else (b.attr if isinstance(b, ast.Attribute) else None)
            if bname is None:
                return None
            be = _builtin_exc(bname)
            if be is not None:
                return ExcClass(node.name, mro + be.mro)
            nxt = mod.defs.get(bname)
            if not isinstance(nxt, ast.ClassDef):
                return None
            mro.append(bname)
            cur = nxt
        return None

    def builtin_name(self, name):
        m = self.ex.models.get("builtins." + name)
        if m is not None:
            return m
        e = _builtin_exc(name)
        if e is not None:
            return e
        if name in ("True", "False", "None"):
            return {"True": True, "False": False, "None": None}[name]
        raise Undecided(f"name {name!r} not modelled")

    def eval_in_module(self, mod, expr):
        fr = Frame(Closure(None, mod, None, "<module>"), None)
        return self.eval(expr, fr)

    def load_name(self, name, frame):
        ok, v = frame.lookup(name)
        if ok:
            return v
        # local that is assigned somewhere in the function but not yet bound
        return self.module_global(frame.closure.module, name)

    # ------------------------------------------------------------------ calls
    def call(self, fv, args, kwargs):
        self.steps += 1
        if self.steps > 200000:
            raise Undecided("step budget exhausted")
        if isinstance(fv, Model):
            self.ex.used_models.add(fv.name)
            return fv.fn(self, *args, **kwargs)
        if isinstance(fv, BoundMethod):
            return self.call(fv.func, [fv.recv] + list(args), kwargs)
        if isinstance(fv, Closure):
            pre = self.ex.call_pre.get(fv.ident)
            if pre is not None and self.cur_target != fv.ident:
                pre(self, args, kwargs)     # call-site obligations of the callee's precondition
            contract = self.ex.contracts.get(fv.ident)
            # the function under verification is executed from its body once; its own
            # recursive calls (and every other call) go through the contract
            if contract is not None and not (self.cur_target == fv.ident and self.call_depth == 0):
                self.ex.used_contracts.add(fv.ident)
                return contract(self, *args, **kwargs)
            if fv.node is not None and (self.cur_target == fv.ident or fv.ident in self.ex.inline or
                                        isinstance(fv.node, ast.Lambda) or fv.env is not None
                                        or self.ex.inline_all):
                return self.invoke(fv, args, kwargs)
            raise Undecided(f"call to {fv.ident} has neither contract nor inline permission")
        if isinstance(fv, ClassRef):
            ctor = self.ex.constructors.get(fv.name)
            if ctor:
                return ctor(self, fv, *args, **kwargs)
            obj = PObj(fv)
            if any((isinstance(d, ast.Name) and d.id == "dataclass") or
                   (isinstance(d, ast.Call) and isinstance(d.func, ast.Name) and d.func.id == "dataclass")
                   for d in fv.node.decorator_list) and self.find_method(fv, "__init__") is None:
                # @dataclass: the generated __init__ binds the annotated fields in order
                names, defaults = [], {}
                for n in fv.node.body:
                    if isinstance(n, ast.AnnAssign) and isinstance(n.target, ast.Name):
                        names.append(n.target.id)
                        if n.value is not None:
                            defaults[n.target.id] = n.value
                if len(args) > len(names):
                    self.throw("TypeError", "too many positional arguments")
                vals = dict(zip(names, args))
                for k, v in kwargs.items():
                    if k not in names or k in vals:
                        self.throw("TypeError", f"unexpected keyword argument {k!r}")
                    vals[k] = v
                for nm in names:
                    if nm not in vals:
                        if nm not in defaults:
                            self.throw("TypeError", f"missing argument {nm!r}")
                        vals[nm] = self.eval_in_module(fv.module, defaults[nm])
                    obj.fields[nm] = vals[nm]
                return obj
            init = self.find_method(fv, "__init__")
            if init is not None:
                self.call(BoundMethod(obj, init), args, kwargs)
            return obj
        if isinstance(fv, ExcClass):
            return ExcVal(fv, list(args))
        if isinstance(fv, PObj):
            m = self.ex.methods.get((fv.clsname(), "__call__"))
            if m is not None:
                return self.call(m, list(args), kwargs)
        raise Undecided(f"call of {fv!r}")

    cur_target = None

    def invoke(self, clo, args, kwargs):
        node = clo.node
        if self.call_depth > 40:
            raise Undecided("inline depth")
        fr = Frame(clo, clo.env)
        a = node.args
        params = [p.arg for p in a.posonlyargs + a.args]
        defaults = list(a.defaults)
        args = list(args)
        if len(args) > len(params) and not a.vararg:
            self.throw("TypeError", f"{clo.qualname}() takes {len(params)} positional arguments but {len(args)} were given")
        for p, v in zip(params, args):
            fr.vars[p] = v
        if a.vararg:
            fr.vars[a.vararg.arg] = tuple(args[len(params):])
        kwargs = dict(kwargs)
        ndef = len(defaults)
        for i, p in enumerate(params):
            if p in fr.vars:
                if p in kwargs:
                    self.throw("TypeError", f"got multiple values for argument {p!r}")
                continue
            if p in kwargs:
                fr.vars[p] = kwargs.pop(p)
                continue
            di = i - (len(params) - ndef)
            if di >= 0:
                fr.vars[p] = self.eval(defaults[di], Frame(Closure(None, clo.module, None, "<defaults>"), clo.env))
            else:
                self.throw("TypeError", f"{clo.qualname}() missing required positional argument {p!r}")
        for p, d in zip(a.kwonlyargs, a.kw_defaults):
            if p.arg in kwargs:
                fr.vars[p.arg] = kwargs.pop(p.arg)
            elif d is not None:
                fr.vars[p.arg] = self.eval(d, Frame(Closure(None, clo.module, None, "<defaults>"), clo.env))
            else:
                self.throw("TypeError", f"missing keyword-only argument {p.arg!r}")
        if a.kwarg:
            fr.vars[a.kwarg.arg] = kwargs
        elif kwargs:
            self.throw("TypeError", f"{clo.qualname}() got an unexpected keyword argument {next(iter(kwargs))!r}")
        if isinstance(node, ast.Lambda):
            return self.eval(node.body, fr)
        self.call_depth += 1
        saved = self.cur_func
        self.cur_func = clo
        try:
            self.exec_block(node.body, fr)
        except _Return as r:
            return r.value
        finally:
            self.call_depth -= 1
            self.cur_func = saved
        return None

    # ------------------------------------------------------------------ statements
    def exec_block(self, stmts, fr):
        for s in stmts:
            self.exec(s, fr)

    def exec(self, s, fr):
        self.steps += 1
        if self.steps > 200000:
            raise Undecided("step budget exhausted")
        m = getattr(self, "x_" + s.__class__.__name__, None)
        if m is None:
            raise Undecided(f"statement {s.__class__.__name__} (line {s.lineno})")
        return m(s, fr)

    def x_Expr(self, s, fr):
        v = s.value
        if isinstance(v, ast.Constant):
            return  # docstring
        if isinstance(v, ast.Call):
            f = v.func
            root = f
            while isinstance(root, ast.Attribute):
                root = root.value
            if isinstance(root, ast.Name) and (root.id in LOG_NAMES and isinstance(f, ast.Attribute)):
                self.ex.dropped.add(f"{ast.unparse(f)} (logging call)")
                return
            if isinstance(f, ast.Name) and f.id == "print":
                self.ex.dropped.add("print (logging call)")
                return
            if isinstance(f, ast.Attribute) and f.attr == "print_exc":
                self.ex.dropped.add("traceback.print_exc (logging call)")
                return
        self.eval(v, fr)

    def x_Pass(self, s, fr):
        return

    def x_Return(self, s, fr):
        raise _Return(self.eval(s.value, fr) if s.value is not None else None)

    def x_Break(self, s, fr):
        raise _Break()

    def x_Continue(self, s, fr):
        raise _Continue()

    def x_Global(self, s, fr):
        raise Undecided("global statement")

    def x_Nonlocal(self, s, fr):
        fr.globals_declared.update(s.names)

    def x_Import(self, s, fr):
        for a in s.names:
            if a.asname:
                fr.vars[a.asname] = self.resolve_dotted(a.name)
            else:
                top = a.name.split(".")[0]
                fr.vars[top] = self.resolve_dotted(top)

    def x_ImportFrom(self, s, fr):
        mod = ("." * s.level) + (s.module or "")
        if mod.startswith("."):
            mod = self.ex.absolutize(fr.closure.module.rel, mod)
        for a in s.names:
            fr.vars[a.asname or a.name] = self.resolve_dotted(mod + "." + a.name)

    def x_FunctionDef(self, s, fr):
        qn = (fr.closure.qualname + "." if fr.closure and fr.closure.qualname else "") + s.name
        fr.vars[s.name] = Closure(s, fr.closure.module, fr, qn)

    def x_Assert(self, s, fr):
        if not self.truthy(self.eval(s.test, fr)):
            self.throw("AssertionError", "assert")

    def x_Delete(self, s, fr):
        for t in s.targets:
            if isinstance(t, ast.Subscript):
                obj = self.eval(t.value, fr)
                idx = self.eval_index(t.slice, fr)
                self.delitem(obj, idx)
            elif isinstance(t, ast.Name):
                fr.vars.pop(t.id, None)
            else:
                raise Undecided("del of attribute")

    def delitem(self, obj, idx):
        if isinstance(obj, dict):
            if not isinstance(idx, Sym) and all(not isinstance(k, Sym) for k in obj):
                if idx in obj:
                    del obj[idx]
                    return
                self.throw("KeyError", idx)
            for k in list(obj):
                t = self.eq_term(idx, k)
                if t is True or (t is not False and self.decide(t)):
                    del obj[k]
                    return
            self.throw("KeyError", idx)
        if isinstance(obj, list) and isinstance(idx, int):
            try:
                del obj[idx]
            except IndexError:
                self.throw("IndexError", "list assignment index out of range")
            return
        if isinstance(obj, list) and isinstance(idx, tuple) and idx[0] == "__slice__" and \
                all(x is None or isinstance(x, int) for x in idx[1:3]):
            del obj[idx[1]:idx[2]]
            return
        if isinstance(obj, SList):
            hook = getattr(obj, "delitem", None)
            if hook:
                return hook(self, idx)
        if isinstance(obj, PObj):
            hook = self.ex.delitem_hooks.get(obj.clsname())
            if hook:
                return hook(self, obj, idx)
        raise Undecided(f"del on {obj!r}")

    def assign(self, target, val, fr):
        if isinstance(target, ast.Name):
            if target.id in fr.globals_declared:
                f = fr.parent
                while f is not None:
                    if target.id in f.vars:
                        f.vars[target.id] = val
                        return
                    f = f.parent
            fr.vars[target.id] = val
        elif isinstance(target, ast.Attribute):
            self.setattr(self.eval(target.value, fr), target.attr, val)
        elif isinstance(target, ast.Subscript):
            obj = self.eval(target.value, fr)
            idx = self.eval_index(target.slice, fr)
            if isinstance(idx, tuple) and idx and idx[0] == "__slice__":
                self.setslice(obj, idx, val)
            else:
                self.setitem(obj, idx, val)
        elif isinstance(target, (ast.Tuple, ast.List)):
            items = self.iterate_concrete(val)
            if len(items) != len(target.elts):
                self.throw("ValueError", "unpack length mismatch")
            for t, v in zip(target.elts, items):
                self.assign(t, v, fr)
        else:
            raise Undecided(f"assignment target {target.__class__.__name__}")

    def setslice(self, obj, sl, val):
        if isinstance(obj, PObj) and obj.clsname() in self.ex.setitem_hooks:
            return self.ex.setitem_hooks[obj.clsname()](self, obj, sl, val)
        _, lo, hi, step = sl
        if isinstance(obj, list) and step is None and all(x is None or isinstance(x, int) for x in (lo, hi)):
            obj[lo:hi] = self.iterate_concrete(val)
            return
        if isinstance(obj, SList):
            hook = getattr(obj, "setslice", None)
            if hook:
                return hook(self, lo, hi, val)
        raise Undecided(f"slice assignment on {obj!r}")

    def x_Assign(self, s, fr):
        v = self.eval(s.value, fr)
        self.rebind = None
        for t in s.targets:
            self.assign(t, v, fr)
        if self.rebind is not None and self.rebind[0] is v:
            # `a = container[k] = []`: the container adopted the fresh list as an abstract
            # value; names bound to the same object by this statement must alias it
            for t in s.targets:
                if isinstance(t, ast.Name) and fr.vars.get(t.id) is v:
                    fr.vars[t.id] = self.rebind[1]
        self.rebind = None

    def x_AnnAssign(self, s, fr):
        if s.value is not None:
            self.assign(s.target, self.eval(s.value, fr), fr)

    def x_AugAssign(self, s, fr):
        t = s.target
        if isinstance(t, ast.Name):
            cur = self.load_name(t.id, fr)
            if isinstance(cur, list) and isinstance(s.op, ast.Add):
                cur.extend(self.iterate_concrete(self.eval(s.value, fr)))
                return
            self.assign(t, self.binop(s.op, cur, self.eval(s.value, fr)), fr)
        elif isinstance(t, ast.Attribute):
            obj = self.eval(t.value, fr)
            cur = self.getattr(obj, t.attr)
            self.setattr(obj, t.attr, self.binop(s.op, cur, self.eval(s.value, fr)))
        elif isinstance(t, ast.Subscript):
            obj = self.eval(t.value, fr)
            idx = self.eval_index(t.slice, fr)
            cur = self.getitem(obj, idx)
            self.setitem(obj, idx, self.binop(s.op, cur, self.eval(s.value, fr)))
        else:
            raise Undecided("augmented assignment target")

    def x_If(self, s, fr):
        if self.truthy(self.eval(s.test, fr)):
            self.exec_block(s.body, fr)
        else:
            self.exec_block(s.orelse, fr)

    def x_Raise(self, s, fr):
        if s.exc is None:
            if fr.cur_exc is None:
                self.throw("RuntimeError", "No active exception to reraise")
            raise SymRaise(fr.cur_exc)
        v = self.eval(s.exc, fr)
        if isinstance(v, ExcClass):
            v = ExcVal(v, [])
        if isinstance(v, ExcVal):
            raise SymRaise(v)
        if isinstance(v, PObj):
            hook = self.ex.raise_hooks.get(v.clsname())
            if hook:
                raise SymRaise(hook(self, v))
        raise Undecided(f"raise of {v!r}")

    def x_Try(self, s, fr):
        try:
            try:
                self.exec_block(s.body, fr)
            except SymRaise as e:
                handled = False
                for h in s.handlers:
                    if h.type is None:
                        match = True
                    else:
                        match = self.exc_matches(e.exc, self.eval(h.type, fr))
                    if match:
                        handled = True
                        saved = fr.cur_exc
                        fr.cur_exc = e.exc
                        if h.name:
                            fr.vars[h.name] = e.exc
                        try:
                            self.exec_block(h.body, fr)
                        finally:
                            fr.cur_exc = saved
                        break
                if not handled:
                    raise
            else:
                self.exec_block(s.orelse, fr)
        finally:
            if s.finalbody:
                # host `finally` also runs for engine exceptions; only run user code for
                # real control flow of the interpreted program
                import sys
                et = sys.exc_info()[0]
                if et is None or issubclass(et, (SymRaise, _Return, _Break, _Continue)):
                    self.exec_block(s.finalbody, fr)

    def x_With(self, s, fr):
        if len(s.items) != 1:
            # nest
            inner = ast.With(items=s.items[1:], body=s.body, lineno=s.lineno, col_offset=0)
            outer = ast.With(items=s.items[:1], body=[inner], lineno=s.lineno, col_offset=0)
            return self.x_With(outer, fr)
        item = s.items[0]
        mgr = self.eval(item.context_expr, fr)
        if not isinstance(mgr, CtxMgr):
            if isinstance(mgr, PObj):
                hook = self.ex.ctxmgr_hooks.get(mgr.clsname())
                if hook:
                    mgr = hook(self, mgr)
            if not isinstance(mgr, CtxMgr):
                raise Undecided(f"with on {mgr!r}")
        v = mgr.enter(self)
        if item.optional_vars is not None:
            self.assign(item.optional_vars, v, fr)
        try:
            self.exec_block(s.body, fr)
        except SymRaise as e:
            if mgr.exit(self, e.exc):
                return
            raise
        except (_Return, _Break, _Continue):
            mgr.exit(self, None)
            raise
        else:
            mgr.exit(self, None)

    # ---- loops
    def loop_ordinal(self, s):
        clo = self.cur_func
        if clo is None:
            return None, None
        key = clo.ident
        loops = self.ex.loop_index.get(key)
        if loops is None:
            loops = self.ex.loop_index[key] = source.FuncRef.loops(type("F", (), {"node": clo.node})())
        for i, l in enumerate(loops):
            if l is s:
                return key, i
        return key, None

    def x_While(self, s, fr):
        key, ordinal = self.loop_ordinal(s)
        spec = self.ex.loopspecs.get((key, ordinal))
        if spec is None:
            n = 0
            while True:
                n += 1
                if n > MAX_UNROLL:
                    raise Undecided(f"while loop at line {s.lineno} of {key} needs an invariant")
                if not self.truthy(self.eval(s.test, fr)):
                    self.exec_block(s.orelse, fr)
                    return
                try:
                    self.exec_block(s.body, fr)
                except _Break:
                    return
                except _Continue:
                    continue
            return
        self.cut_loop(s, fr, spec, key, ordinal, None)

    def assigned_names(self, stmts):
        names = set()
        for st in stmts:
            for n in ast.walk(st):
                if isinstance(n, ast.Name) and isinstance(n.ctx, (ast.Store, ast.Del)):
                    names.add(n.id)
                elif isinstance(n, (ast.FunctionDef, ast.ClassDef)):
                    names.add(n.name)
        return names

    def havoc_like(self, v, name):
        if isinstance(v, bool) or isinstance(v, SBool):
            return self.fresh_bool(name)
        if isinstance(v, (int, SInt)):
            return self.fresh_int(name)
        if isinstance(v, (str, SStr)):
            return self.fresh_str(name)
        if isinstance(v, (float, SReal)):
            return SReal(self.fresh(name, z3.RealSort()))
        return None

    def cut_loop(self, s, fr, spec, key, ordinal, iter_state):
        try:
            return self._cut_loop(s, fr, spec, key, ordinal, iter_state)
        except KeyError as e:
            # the sidecar's invariant / variant names a local the loop no longer has: the annotation does not
            # fit the code any more - undecided, never a verdict
            raise Undecided(f"loop annotation of {key} (loop {ordinal}) refers to {e} which the code does not bind")

    def _cut_loop(self, s, fr, spec, key, ordinal, iter_state):
        tag = f"{key.split(':')[-1]}.loop{ordinal}"
        I = self
        # 1. invariant on entry
        for label, g in spec.invariant(I, fr.vars, iter_state):
            I.oblige(f"{tag}.inv_entry.{label}", g)
        # 2. havoc the write set
        body_names = self.assigned_names(s.body) | set(spec.extra_havoc)
        for nme in sorted(body_names):
            if nme in spec.keep:
                continue
            if nme in fr.vars:
                nv = self.havoc_like(fr.vars[nme], nme)
                if nv is None:
                    if spec.havoc is None:
                        raise Undecided(f"{tag}: cannot havoc {nme}={fr.vars[nme]!r}; sidecar must provide havoc")
                    # unknown after an arbitrary number of iterations: unbind (a read before
                    # re-assignment makes the path undecided instead of using a stale value);
                    # the sidecar's havoc callback may bind it again (old value: ghost['loop_old_vars'])
                    self.ghost.setdefault("loop_old_vars", {})[nme] = fr.vars[nme]
                    del fr.vars[nme]
                else:
                    fr.vars[nme] = nv
        if iter_state is not None and "havoc" in iter_state:
            iter_state["havoc"](self)
        elif iter_state is not None:
            iter_state["i"] = self.fresh("idx", z3.IntSort())
            self.assume(z3.And(iter_state["i"] >= 0, iter_state["i"] <= iter_state["len"]()))
        if spec.havoc is not None:
            spec.havoc(I, fr.vars, iter_state)
        # 3. assume invariant
        for label, g in spec.invariant(I, fr.vars, iter_state):
            I.assume(g)
        v0 = spec.variant(I, fr.vars, iter_state) if spec.variant else None
        # 4. one arbitrary iteration or exit
        if iter_state is None:
            go = self.truthy(self.eval(s.test, fr))
        elif "has_next" in iter_state:
            go = self.decide(iter_state["has_next"](self))
        else:
            go = self.decide(iter_state["i"] < iter_state["len"]())
        if not go:
            if iter_state is not None and "at_exit" in iter_state:
                iter_state["at_exit"](self)
            self.exec_block(s.orelse, fr)
            return
        if iter_state is not None and "take" in iter_state:
            self.assign(s.target, iter_state["take"](self), fr)
        elif iter_state is not None:
            self.assign(s.target, iter_state["get"](iter_state["i"]), fr)
        try:
            self.exec_block(s.body, fr)
        except _Break:
            return
        except _Continue:
            pass
        if iter_state is not None and "i" in iter_state:
            iter_state["i"] = iter_state["i"] + 1
        if spec.after_body is not None:
            for label, g in spec.after_body(I, fr.vars, iter_state):
                I.oblige(f"{tag}.iteration.{label}", g)
        for label, g in spec.invariant(I, fr.vars, iter_state):
            I.oblige(f"{tag}.inv_preserved.{label}", g)
        if spec.variant:
            v1 = spec.variant(I, fr.vars, iter_state)
            I.oblige(f"{tag}.variant_bounded", z3_of(v0) >= 0)
            I.oblige(f"{tag}.variant_decreases", z3_of(v1) < z3_of(v0))
        self.ex.loop_cuts += 1
        raise PathCut()

    def iterate_concrete(self, v):
        if isinstance(v, (list, tuple)):
            return list(v)
        if isinstance(v, dict):
            return list(v.keys())
        if isinstance(v, (set, frozenset)):
            return sorted(v, key=repr)
        if isinstance(v, str):
            return list(v)
        if isinstance(v, range):
            if len(v) > MAX_UNROLL:
                raise Undecided("long concrete range")
            return list(v)
        if isinstance(v, PObj):
            hook = self.ex.iter_hooks.get(v.clsname())
            if hook:
                return hook(self, v)
        raise Undecided(f"iteration over {v!r} needs an invariant")

    def x_For(self, s, fr):
        it = self.eval(s.iter, fr)
        key, ordinal = self.loop_ordinal(s)
        spec = self.ex.loopspecs.get((key, ordinal))
        if spec is not None:
            if isinstance(it, SStr):
                st = {"len": lambda: z3.Length(it.z), "get": lambda i: SStr(z3.SubString(it.z, i, 1)), "seq": it,
                      "i": z3.IntVal(0)}
            elif isinstance(it, SList):
                st = {"len": lambda: it.length, "get": lambda i: it.wrap(self, z3.Select(it.elem, i)), "seq": it,
                      "i": z3.IntVal(0)}
            elif hasattr(it, "iter_state"):
                st = it.iter_state(self)
            elif isinstance(it, (list, tuple, str)):
                st = None      # concrete shape on this path: unrolled below, the invariant is not needed
            else:
                raise Undecided(f"for over {it!r}")
            if st is not None:
                return self.cut_loop(s, fr, spec, key, ordinal, st)
        items = self.iterate_concrete(it)
        for x in items:
            self.assign(s.target, x, fr)
            try:
                self.exec_block(s.body, fr)
            except _Break:
                return
            except _Continue:
                continue
        self.exec_block(s.orelse, fr)

    # ------------------------------------------------------------------ expressions
    def eval(self, e, fr):
        m = getattr(self, "e_" + e.__class__.__name__, None)
        if m is None:
            raise Undecided(f"expression {e.__class__.__name__} (line {getattr(e, 'lineno', '?')})")
        return m(e, fr)

    def e_Constant(self, e, fr):
        return e.value

    def e_Name(self, e, fr):
        return self.load_name(e.id, fr)

    def e_Attribute(self, e, fr):
        return self.getattr(self.eval(e.value, fr), e.attr)

    def eval_index(self, sl, fr):
        if isinstance(sl, ast.Slice):
            return ("__slice__",
                    self.eval(sl.lower, fr) if sl.lower is not None else None,
                    self.eval(sl.upper, fr) if sl.upper is not None else None,
                    self.eval(sl.step, fr) if sl.step is not None else None)
        return self.eval(sl, fr)

    def e_Subscript(self, e, fr):
        obj = self.eval(e.value, fr)
        idx = self.eval_index(e.slice, fr)
        return self.getitem(obj, idx)

    def e_BinOp(self, e, fr):
        return self.binop(e.op, self.eval(e.left, fr), self.eval(e.right, fr))

    def e_UnaryOp(self, e, fr):
        v = self.eval(e.operand, fr)
        if isinstance(e.op, ast.Not):
            if isinstance(v, SBool):
                return SBool(z3.Not(v.z))
            return not self.truthy(v)
        if isinstance(e.op, ast.USub):
            if isinstance(v, SInt):
                return SInt(-v.z)
            if isinstance(v, SReal):
                return SReal(-v.z)
            if isinstance(v, (int, float)):
                return -v
        if isinstance(e.op, ast.UAdd) and isinstance(v, (int, float, SInt, SReal)):
            return v
        raise Undecided(f"unary {e.op.__class__.__name__} on {v!r}")

    def e_BoolOp(self, e, fr):
        is_and = isinstance(e.op, ast.And)
        v = None
        for i, sub in enumerate(e.values):
            v = self.eval(sub, fr)
            if i == len(e.values) - 1:
                return v
            t = self.truthy(v)
            if is_and and not t:
                return v
            if not is_and and t:
                return v
        return v

    def e_Compare(self, e, fr):
        left = self.eval(e.left, fr)
        result = True
        for op, rhs in zip(e.ops, e.comparators):
            right = self.eval(rhs, fr)
            r = self.compare(op, left, right)
            if len(e.ops) == 1:
                return r
            if not self.truthy(r):
                return False
            left = right
        return result

    def e_IfExp(self, e, fr):
        if self.truthy(self.eval(e.test, fr)):
            return self.eval(e.body, fr)
        return self.eval(e.orelse, fr)

    def e_Tuple(self, e, fr):
        out = []
        for x in e.elts:
            if isinstance(x, ast.Starred):
                out.extend(self.iterate_concrete(self.eval(x.value, fr)))
            else:
                out.append(self.eval(x, fr))
        return tuple(out)

    def e_List(self, e, fr):
        return list(self.e_Tuple(e, fr))

    def e_Set(self, e, fr):
        vals = self.e_Tuple(e, fr)
        if any(isinstance(v, Sym) for v in vals):
            return list(vals)
        return set(vals)

    def e_Dict(self, e, fr):
        d = {}
        for k, v in zip(e.keys, e.values):
            if k is None:
                sub = self.eval(v, fr)
                if not isinstance(sub, dict):
                    raise Undecided("** of non-concrete dict")
                d.update(sub)
            else:
                self.setitem(d, self.eval(k, fr), self.eval(v, fr))
        return d

    def e_Lambda(self, e, fr):
        return Closure(e, fr.closure.module, fr, (fr.closure.qualname or "") + ".<lambda>")

    def to_str(self, v, conv=-1):
        if conv == ord("r"):
            m = self.ex.models.get("builtins.repr")
            return m.fn(self, v)
        m = self.ex.models.get("builtins.str")
        return m.fn(self, v)

    def e_JoinedStr(self, e, fr):
        parts = []
        for p in e.values:
            if isinstance(p, ast.Constant):
                parts.append(p.value)
            else:
                v = self.eval(p.value, fr)
                if p.format_spec is not None:
                    parts.append(self.fresh_str("fmt"))
                else:
                    parts.append(self.to_str(v, p.conversion))
        if all(isinstance(p, str) for p in parts):
            return "".join(parts)
        out = None
        for p in parts:
            if isinstance(p, str) and p == "":
                continue
            out = p if out is None else self.binop(ast.Add(), out, p)
        return out if out is not None else ""

    def e_Call(self, e, fr):
        fv = self.eval(e.func, fr)
        args = []
        for a in e.args:
            if isinstance(a, ast.Starred):
                args.extend(self.iterate_concrete(self.eval(a.value, fr)))
            else:
                args.append(self.eval(a, fr))
        kwargs = {}
        for k in e.keywords:
            if k.arg is None:
                sub = self.eval(k.value, fr)
                if isinstance(sub, PObj):
                    hook = self.ex.mapping_hooks.get(sub.clsname())
                    if hook:
                        sub = hook(self, sub)
                if not isinstance(sub, dict):
                    raise Undecided("** of non-concrete mapping")
                for kk, vv in sub.items():
                    if not isinstance(kk, str):
                        self.throw("TypeError", "keywords must be strings")
                    kwargs[kk] = vv
            else:
                kwargs[k.arg] = self.eval(k.value, fr)
        return self.call(fv, args, kwargs)

    def comprehension(self, e, fr, emit, first_iter=None):
        inner = Frame(fr.closure, fr)

        def rec(gi):
            if gi == len(e.generators):
                emit(inner)
                return
            g = e.generators[gi]
            items = self.iterate_concrete(first_iter if (gi == 0 and first_iter is not None) else self.eval(g.iter, inner if gi else fr))
            for x in items:
                self.assign(g.target, x, inner)
                if all(self.truthy(self.eval(c, inner)) for c in g.ifs):
                    rec(gi + 1)
        rec(0)

    def e_ListComp(self, e, fr):
        out = []
        self.comprehension(e, fr, lambda f: out.append(self.eval(e.elt, f)))
        return out

    def e_GeneratorExp(self, e, fr):
        # a generator over a symbolic-length sequence stays lazy: any()/all() turn it into a
        # witness (true branch) or a typed Forall hypothesis (false branch)
        if len(e.generators) == 1 and not e.generators[0].ifs:
            src = self.eval(e.generators[0].iter, fr)
            st = None
            if hasattr(src, "iter_state"):
                st = src.iter_state(self)
            if st is not None and "len" in st and "get" in st:
                return LazyGen(e, fr, st)
            out = []
            self.comprehension(e, fr, lambda f: out.append(self.eval(e.elt, f)), first_iter=src)
            return out
        return self.e_ListComp(e, fr)

    def lazy_quant(self, g, want):
        """decide ``any(g)`` (want=True) / ``all(g)`` (want=False: decides 'some element is false')"""
        ln = g.st["len"]()
        ity = getattr(self.ex, "gen_index_type", "index")

        def body(k):
            inner = Frame(g.fr.closure, g.fr)
            self.assign(g.e.generators[0].target, g.st["get"](k), inner)
            return self.eval(g.e.elt, inner)
        b = self.fresh("exists", z3.BoolSort())
        if self.decide(b):
            k = self.fresh(f"witness@{ity}", z3.IntSort())
            self.assume(z3.And(k >= 0, k < ln))
            self.hint(ity, k)
            v = body(k)
            if self.truthy(v) != want:
                raise PathCut()
            return True
        j = self.fresh(f"bound@{ity}", z3.IntSort())
        nd = self.pos
        v = body(j)
        if isinstance(v, SBool):
            t = v.z
        elif isinstance(v, (bool, int)) or v is None:
            t = z3.BoolVal(bool(v))
        else:
            raise Undecided("quantified generator body is not boolean")
        if self.pos != nd:
            raise Undecided("branching inside a quantified generator body")
        if not want:
            t = z3.Not(t)
        self.assume(Forall([ity], lambda i: z3.Implies(z3.And(i >= 0, i < ln), z3.Not(z3.substitute(t, (j, i)))), "no_element_satisfies_the_generator"))
        return False

    def e_SetComp(self, e, fr):
        out = self.e_ListComp(e, fr)
        if any(isinstance(v, Sym) for v in out):
            return out
        return set(out)

    def e_DictComp(self, e, fr):
        out = {}
        self.comprehension(e, fr, lambda f: self.setitem(out, self.eval(e.key, f), self.eval(e.value, f)))
        return out

    def e_Starred(self, e, fr):
        raise Undecided("starred expression")

    def e_NamedExpr(self, e, fr):
        v = self.eval(e.value, fr)
        self.assign(e.target, v, fr)
        return v


class Outcome:
    """Result of running a function on one path."""

    def __init__(self, kind, value=None, exc=None):
        self.kind = kind      # 'return' | 'raise'
        self.value = value
        self.exc = exc        # ExcVal

    @property
    def returned(self):
        return self.kind == "return"

    def raised(self, name=None):
        if self.kind != "raise":
            return False
        return name is None or name in self.exc.cls.mro


class Explorer:
    """Runs a harness over all feasible paths and collects the proof obligations."""

    def __init__(self):
        self.models = {}
        self.methods = {}
        self.contracts = {}
        self.pow_hook = None
        self.typing = None
        self.call_pre = {}
        self.inline = set()
        self.inline_all = False
        self.loopspecs = {}
        self.loop_index = {}
        self.global_overrides = {}
        self.constructors = {}
        self.truthy_hooks = {}
        self.setattr_hooks = {}
        self.len_hooks = {}
        self.eq_hooks = {}
        self.order_hooks = {}
        self.contains_hooks = {}
        self.getitem_hooks = {}
        self.setitem_hooks = {}
        self.delitem_hooks = {}
        self.getattr_hooks = {}
        self.iter_hooks = {}
        self.raise_hooks = {}
        self.ctxmgr_hooks = {}
        self.mapping_hooks = {}
        self.heap_getattr = None
        self.heap_setattr = None
        self.used_models = set()
        self.used_contracts = set()
        self.dropped = set()
        self.ob_names = {}
        self.loop_cuts = 0
        self.dry = False
        from . import models as _m
        _m.install(self)

    # repo module resolution -------------------------------------------------
    def repo_module_of(self, dotted):
        """dotted python path -> (module rel path, remaining attribute names) if it is a
        module under /repo/src, else None."""
        import os
        parts = dotted.split(".")
        for k in range(len(parts), 0, -1):
            base = os.path.join(source.SRC, *parts[:k])
            for cand in (base + ".py", base + ".pyx", os.path.join(base, "__init__.py")):
                if os.path.isfile(cand):
                    return os.path.relpath(cand, source.SRC), parts[k:]
        return None

    def absolutize(self, rel, dotted):
        import os
        level = len(dotted) - len(dotted.lstrip("."))
        rest = dotted.lstrip(".")
        pkg = os.path.dirname(rel).split(os.sep)
        if os.path.basename(rel) == "__init__.py":
            pass
        if level > 1:
            pkg = pkg[:len(pkg) - (level - 1)]
        base = ".".join(p for p in pkg if p)
        return base + ("." + rest if rest else "")

    # driving ----------------------------------------------------------------
    def explore(self, harness, max_paths=20000):
        """harness(I) runs once per path. Returns list of PathResult."""
        results = []
        pending = [[]]
        n = 0
        while pending:
            script = pending.pop()
            n += 1
            if n > max_paths:
                raise Undecided("path budget exhausted")
            I = Interp(self, script)
            status = "ok"
            why = ""
            try:
                harness(I)
            except PathCut:
                status = "cut"
            except Undecided as u:
                status = "undecided"
                why = str(u)
            except SymRaise as r:
                status = "undecided"
                why = f"uncaught symbolic exception escaped the harness: {r.exc!r}"
            except RecursionError:
                status = "undecided"
                why = "host recursion limit"
            pending.extend(I.alts)
            results.append(PathResult(n, I, status, why))
        return results

    def run_script(self, harness, script, n=0):
        """execute the harness on exactly one path (given by its decision script)"""
        I = Interp(self, script)
        status, why = "ok", ""
        try:
            harness(I)
        except PathCut:
            status = "cut"
        except Undecided as u:
            status, why = "undecided", str(u)
        except SymRaise as r:
            status, why = "undecided", f"uncaught symbolic exception escaped the harness: {r.exc!r}"
        except RecursionError:
            status, why = "undecided", "host recursion limit"
        return PathResult(n, I, status, why)

    def run_function(self, I, clo, args, kwargs=None):
        """Execute a real function symbolically on path I; exceptions become an Outcome."""
        saved = I.cur_target
        I.cur_target = clo.ident
        try:
            v = I.call(clo, list(args), kwargs or {})
            return Outcome("return", value=v)
        except SymRaise as r:
            return Outcome("raise", exc=r.exc)
        finally:
            I.cur_target = saved

    def function(self, rel, qualname):
        fr = source.FuncRef(rel, qualname)
        parts = qualname.split(".")
        cls = None
        if len(parts) > 1:
            cnode = fr.mod.find(".".join(parts[:-1]))
            if isinstance(cnode, ast.ClassDef):
                cls = ClassRef(cnode, fr.mod)
        kind = "function"
        for d in fr.node.decorator_list:
            if isinstance(d, ast.Name) and d.id in ("staticmethod", "classmethod", "property"):
                kind = d.id
        clo = Closure(fr.node, fr.mod, None, qualname, cls=cls, kind=kind)
        clo.ref = fr
        return clo


class PathResult:
    def __init__(self, n, I, status, why):
        self.n = n
        self.vcs = I.vcs
        self.trivial = I.trivial
        self.status = status
        self.why = why
        self.inputs = I.inputs
        self.covers = I.covers
        self.pc = I.pc
        self.script = I.script
