"""Static decision procedure for one clause of C01 ("time grows at most polynomially"):
no regular expression used by the parser has *exponential degree of ambiguity* (EDA).

A backtracking matcher (CPython's sre) explores, on a failing suffix, every accepting-prefix
path of the expression's NFA; the number of such paths over a word of length n is
exponential iff the (trimmed) NFA has EDA, i.e. some state q with two distinct q->q paths
over the same word (Weber & Seidl 1991).  Decided on the squared automaton: EDA iff a
strongly connected component of A x A holds a diagonal pair (q,q) together with an
off-diagonal pair, or a doubled edge between diagonal pairs.

Encoding assumptions (reported in the evidence):
  * the expression is read from the real compiled pattern object / source literal and parsed
    with CPython's own ``re._parser`` (so the syntax is the one that runs);
  * characters are abstracted to a finite alphabet of representatives (every literal, range
    end points +-1, one representative per category);
  * counted repeats {m,n} are unrolled to at most 2 mandatory + 2 optional copies (or a
    star); look-arounds, anchors and back-references are treated as empty (over-approximates
    ambiguity); atomic groups / possessive repeats as ordinary ones (over-approximation).
Because of the over-approximations a hit is only a *candidate*: the sidecar replays the pump
word on the real pattern object and reports a violation only when the measured time really
grows geometrically.
"""
import re
import re._constants as C
import re._parser as sp
import time

MAXREPEAT = C.MAXREPEAT
BASE_CHARS = "aZ0_ \n\t-!é\x00=|\"'<>:;.[]{}/#%&"


def _cat(cat, ch):
    name = str(cat)
    neg = "NOT_" in name
    if "DIGIT" in name:
        r = ch.isdigit()
    elif "SPACE" in name:
        r = ch.isspace()
    elif "WORD" in name:
        r = ch.isalnum() or ch == "_"
    elif "LINEBREAK" in name:
        r = ch == "\n"
    else:
        r = False
    return r != neg


class NFA:
    def __init__(self, flags):
        self.n = 0
        self.eps = {}
        self.sym = {}      # state -> [(pred, target)]
        self.flags = flags
        self.chars = set(BASE_CHARS)

    def new(self):
        self.n += 1
        return self.n - 1

    def e(self, a, b):
        self.eps.setdefault(a, []).append(b)

    def s(self, a, pred, b):
        self.sym.setdefault(a, []).append((pred, b))


def _single(nfa, op, av):
    """predicate char -> bool of a one-character node"""
    ic = bool(nfa.flags & re.IGNORECASE)

    def norm(ch):
        return ch.lower() if ic else ch
    if op is C.LITERAL:
        c = chr(av)
        nfa.chars.update({c, c.lower(), c.upper()})
        return lambda ch: norm(ch) == norm(c)
    if op is C.NOT_LITERAL:
        c = chr(av)
        nfa.chars.add(c)
        return lambda ch: norm(ch) != norm(c)
    if op is C.ANY:
        dotall = bool(nfa.flags & re.DOTALL)
        return lambda ch: dotall or ch != "\n"
    if op is C.IN:
        items = list(av)
        neg = bool(items and items[0][0] is C.NEGATE)
        if neg:
            items = items[1:]
        preds = []
        for o, a in items:
            if o is C.LITERAL:
                preds.append(_single(nfa, C.LITERAL, a))
            elif o is C.RANGE:
                lo, hi = a
                for x in (lo, hi, max(lo - 1, 0), min(hi + 1, 0x10FFFF), (lo + hi) // 2):
                    nfa.chars.add(chr(x))
                preds.append(lambda ch, lo=lo, hi=hi: lo <= ord(ch) <= hi or (ic and (lo <= ord(ch.lower()) <= hi or lo <= ord(ch.upper()[:1] or ch) <= hi)))
            elif o is C.CATEGORY:
                preds.append(lambda ch, a=a: _cat(a, ch))
            else:
                preds.append(lambda ch: True)
        return lambda ch: any(p(ch) for p in preds) != neg
    if op is C.CATEGORY:
        return lambda ch: _cat(av, ch)
    return None


def _build(nfa, pat, start):
    """thompson construction of the sequence `pat` from state `start`; returns the end state"""
    cur = start
    for op, av in pat:
        pred = _single(nfa, op, av)
        if pred is not None:
            nxt = nfa.new()
            nfa.s(cur, pred, nxt)
            cur = nxt
        elif op is C.BRANCH:
            end = nfa.new()
            for alt in av[1]:
                s0 = nfa.new()
                nfa.e(cur, s0)
                nfa.e(_build(nfa, alt, s0), end)
            cur = end
        elif op is C.SUBPATTERN:
            cur = _build(nfa, av[3], cur)
        elif op in (C.MAX_REPEAT, C.MIN_REPEAT) or str(op) == "POSSESSIVE_REPEAT":
            lo, hi, sub = av
            for _ in range(min(lo, 2)):
                cur = _build(nfa, sub, cur)
            if hi == MAXREPEAT:
                # star: cur -eps-> body -> back to cur ; leave through cur
                loop = nfa.new()
                nfa.e(cur, loop)
                back = _build(nfa, sub, loop)
                nfa.e(back, loop)
                out = nfa.new()
                nfa.e(loop, out)
                cur = out
            else:
                end = nfa.new()
                for _ in range(min(hi - lo, 2)):
                    nfa.e(cur, end)
                    cur = _build(nfa, sub, cur)
                nfa.e(cur, end)
                cur = end
        elif str(op) == "ATOMIC_GROUP":
            cur = _build(nfa, av, cur)
        elif op is C.GROUPREF_EXISTS:
            end = nfa.new()
            for alt in (av[1], av[2]):
                if alt is not None:
                    s0 = nfa.new()
                    nfa.e(cur, s0)
                    nfa.e(_build(nfa, alt, s0), end)
                else:
                    nfa.e(cur, end)
            cur = end
        else:
            # AT, ASSERT, ASSERT_NOT, GROUPREF, ... : treated as empty
            pass
    return cur


def _closure_mult(nfa, q, cap=2):
    """number (capped) of distinct eps-paths from q to every state; a path may pass a state
    twice (the empty exit of an inner loop followed by a new iteration of the outer one, as
    in (a*)*), but uses every eps-edge at most once"""
    out = {}
    budget = [20000]

    def dfs(x, used):
        out[x] = min(cap, out.get(x, 0) + 1)
        budget[0] -= 1
        if budget[0] < 0:
            return
        for k, y in enumerate(nfa.eps.get(x, ())):
            if (x, k) not in used:
                dfs(y, used | {(x, k)})
    dfs(q, frozenset())
    return out


def analyse(pattern, flags=0, max_states=6000):
    """-> None if no EDA, else dict(prefix=str, pump=str) (a candidate witness)"""
    if isinstance(pattern, bytes):
        pattern = pattern.decode("latin-1")
    tree = sp.parse(pattern, flags)
    nfa = NFA(tree.state.flags | flags)
    start = nfa.new()
    end = _build(nfa, tree, start)
    if nfa.n > max_states:
        return {"skipped": f"{nfa.n} states"}
    alphabet = sorted(nfa.chars)
    clos = {q: _closure_mult(nfa, q) for q in range(nfa.n)}
    # step[q][a] = {target: multiplicity}
    step = {}
    for q in range(nfa.n):
        row = {}
        for r, m in clos[q].items():
            for pred, p in nfa.sym.get(r, ()):
                for ai, ch in enumerate(alphabet):
                    if pred(ch):
                        d = row.setdefault(ai, {})
                        d[p] = min(2, d.get(p, 0) + m)
        if row:
            step[q] = row
    # reachable states (by symbols) from start
    reach = {start: ""}
    todo = [start]
    while todo:
        q = todo.pop(0)
        for ai, tg in step.get(q, {}).items():
            for p in tg:
                if p not in reach:
                    reach[p] = reach[q] + alphabet[ai]
                    todo.append(p)
    # pair graph restricted to reachable states
    edges = {}
    dup = set()
    states = [q for q in reach if q in step]
    todo = [(p, p) for p in states]
    seen_pairs = set(todo)
    while todo:
        p, q = todo.pop()
        out = {}
        for ai in step[p].keys() & step[q].keys():
            for p2, m in step[p][ai].items():
                for q2 in step[q][ai]:
                    a, b = (p2, q2) if p2 <= q2 else (q2, p2)
                    if a not in step or b not in step:
                        continue        # a dead end cannot lie on a cycle
                    if (a, b) not in out:
                        out[(a, b)] = ai
                    if p == q and p2 == q2 and m >= 2:
                        dup.add(((p, q), (a, b)))
                        out[(a, b)] = ai
                    if (a, b) not in seen_pairs:
                        seen_pairs.add((a, b))
                        todo.append((a, b))
        edges[(p, q)] = out
        if len(seen_pairs) > 400000:
            return {"skipped": "more than 400000 reachable state pairs"}
    # tarjan
    index, low, onst, st, comp = {}, {}, set(), [], {}
    counter = [0]
    import sys
    sys.setrecursionlimit(max(sys.getrecursionlimit(), 20000))

    def strong(v):
        index[v] = low[v] = counter[0]
        counter[0] += 1
        st.append(v)
        onst.add(v)
        for w in edges.get(v, {}):
            if w not in edges:
                continue
            if w not in index:
                strong(w)
                low[v] = min(low[v], low[w])
            elif w in onst:
                low[v] = min(low[v], index[w])
        if low[v] == index[v]:
            members = []
            while True:
                w = st.pop()
                onst.discard(w)
                members.append(w)
                if w == v:
                    break
            for w in members:
                comp[w] = v
    for v in edges:
        if v not in index:
            strong(v)
    groups = {}
    for v, c in comp.items():
        groups.setdefault(c, []).append(v)
    for c, members in groups.items():
        mset = set(members)
        internal = [(v, w) for v in members for w in edges[v] if w in mset]
        if not internal:
            continue
        diag = [v for v in members if v[0] == v[1]]
        off = [v for v in members if v[0] != v[1]]
        dups = [e for e in internal if e in dup]
        if diag and (off or dups):
            q = diag[0]
            # pump word: cycle q -> (target) -> q inside the component

            def path(src, dst, first_edge=None):
                seen = {src: ""}
                todo = [src]
                while todo:
                    v = todo.pop(0)
                    for w, ai in edges[v].items():
                        if w in mset and w not in seen:
                            seen[w] = seen[v] + alphabet[ai]
                            if w == dst:
                                return seen[w]
                            todo.append(w)
                return None
            if off:
                t = off[0]
                w1, w2 = path(q, t), path(t, q)
                pump = (w1 or "") + (w2 or "")
            else:
                (v, w) = dups[0]
                ai = edges[v][w]
                back = path(w, v) if w != v else ""
                pre = path(q, v) if q != v else ""
                # rotate so that the pump starts at q
                pump = alphabet[ai] + (back or "")
                q = v
            if not pump:
                continue
            return {"prefix": reach[q[0]], "pump": pump}
    return None


def confirm(rx, cand, budget_s=20.0):
    """replay a candidate on the real pattern object: geometric growth of the matching time in
    the number of pump repetitions -> (True, measurements)"""
    best = None
    t_end = time.time() + budget_s
    for method in ("search", "findall"):
        for suffix in ("\x00", "!", "", "\n", "=\x00"):
            rows = []
            n = 1
            while n <= 60 and time.time() < t_end:
                s = cand["prefix"] + cand["pump"] * n + suffix
                t0 = time.perf_counter()
                getattr(rx, method)(s)
                dt = time.perf_counter() - t0
                rows.append((n, dt))
                if dt > 0.4:
                    break
                n += 1
            big = [(n, t) for n, t in rows if t > 0.002]
            if len(big) >= 3 and big[-1][1] > 0.2:
                ratios = [big[i + 1][1] / big[i][1] for i in range(len(big) - 1)]
                tail = ratios[-4:]
                if min(tail) > 1.35:
                    return True, {"method": method, "suffix": suffix, "times": [(n, round(t, 4)) for n, t in big[-6:]],
                                  "input": cand["prefix"] + cand["pump"] * big[-1][0] + suffix}
            if best is None or (rows and rows[-1][1] > best):
                best = rows[-1][1] if rows else None
    return False, {"max_seconds_seen": best}


def patterns_of(modules):
    """(where, pattern object) of every compiled pattern reachable from the modules' globals and
    class attributes, plus every constant pattern handed to an re.<fn>() call in their source"""
    import ast
    import inspect
    out = {}
    for m in modules:
        for name, v in list(vars(m).items()):
            if isinstance(v, re.Pattern):
                out.setdefault((v.pattern, v.flags), (f"{m.__name__}.{name}", v))
            elif inspect.isclass(v) and getattr(v, "__module__", None) == m.__name__:
                for an, av in list(vars(v).items()):
                    if isinstance(av, re.Pattern):
                        out.setdefault((av.pattern, av.flags), (f"{m.__name__}.{name}.{an}", av))
        try:
            tree = ast.parse(inspect.getsource(m))
        except (OSError, TypeError):
            continue
        for node in ast.walk(tree):
            if isinstance(node, ast.Call) and isinstance(node.func, ast.Attribute) and isinstance(node.func.value, ast.Name) \
                    and node.func.value.id == "re" and node.func.attr in ("compile", "sub", "subn", "match", "search", "findall", "finditer", "split", "fullmatch") \
                    and node.args and isinstance(node.args[0], ast.Constant) and isinstance(node.args[0].value, (str, bytes)):
                flags = 0
                for extra in list(node.args[1:]) + [k.value for k in node.keywords if k.arg == "flags"]:
                    try:
                        val = eval(compile(ast.Expression(extra), "<flags>", "eval"), {"re": re})  # noqa: S307 - literal flag expression of the repo source
                        if isinstance(val, (int, re.RegexFlag)):
                            flags |= int(val)
                    except Exception:  # noqa: BLE001
                        pass
                try:
                    rx = re.compile(node.args[0].value, flags)
                except re.error:
                    continue
                out.setdefault((rx.pattern, rx.flags), (f"{m.__name__}:{node.lineno}", rx))
    return list(out.values())
