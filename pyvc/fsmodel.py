"""Ghost file system: contracts of the FS calls as an event trace per path.

Every effectful call appends ``(op, path, info)`` to ``I.ghost['fs']``; with
``I.ghost['fs_faults']`` set, every such call may instead raise ``OSError`` (ENOSPC/EIO
injection = the exceptional postcondition of the call's contract).
"""
import z3

from .values import SStr, SInt, SBool, PObj, Model, CtxMgr, Sym, z3_of, kind_of

S = z3.StringSort()


def trace(I):
    return I.ghost.setdefault("fs", [])


def maybe_fault(I, op, exc="OSError"):
    if I.ghost.get("fs_faults"):
        if I.decide(I.fresh(f"fault_{op}", z3.BoolSort())):
            trace(I).append(("fault", op, None))
            I.throw(exc, f"injected I/O error in {op}")


def install(ex):
    M = ex.models

    def reg(name, fn):
        M[name] = Model(name, fn)

    def f_open(I, path, mode="r", *a, **k):
        if kind_of(path) != "str":
            I.throw("TypeError", "open() path")
        if isinstance(mode, Sym):
            from .interp import Undecided
            raise Undecided("open with symbolic mode")
        writing = any(c in mode for c in "wax+")
        maybe_fault(I, "open")
        h = PObj("file", {"path": path, "mode": mode, "closed": False, "written": False})
        if writing:
            # contract: open(p, 'w') truncates: p is *partial* from here until close
            trace(I).append(("open_w", path, h))
        else:
            trace(I).append(("open_r", path, h))

        def enter(I2):
            return h

        def exit_(I2, exc):
            if not h.fields["closed"]:
                h.fields["closed"] = True
                trace(I2).append(("close", path, h))
            return False
        mgr = CtxMgr(enter, exit_)
        mgr.handle = h
        return mgr
    reg("builtins.open", f_open)

    def file_write(I, h, data):
        maybe_fault(I, "write")
        h.fields["written"] = True
        trace(I).append(("write", h.fields["path"], h))
        return None
    ex.methods[("file", "write")] = Model("file.write", file_write)

    def file_close(I, h):
        if not h.fields["closed"]:
            h.fields["closed"] = True
            trace(I).append(("close", h.fields["path"], h))
    ex.methods[("file", "close")] = Model("file.close", file_close)
    ex.methods[("file", "flush")] = Model("file.flush", lambda I, h: None)

    def ctx_hook(I, mgr_obj):
        return None
    # `open(...)` returns the CtxMgr itself; used without `with`, attribute access is needed:
    ex.getattr_hooks["file"] = lambda I, o, n: NotImplemented

    def os_makedirs(I, p, *a, **k):
        maybe_fault(I, "makedirs")
        trace(I).append(("makedirs", p, None))
    reg("os.makedirs", os_makedirs)

    def os_isdir(I, p):
        return I.fresh_bool("isdir")
    reg("os.path.isdir", os_isdir)
    reg("os.path.exists", lambda I, p: I.fresh_bool("exists"))
    reg("os.path.isfile", lambda I, p: I.fresh_bool("isfile"))

    def os_rename(I, a, b):
        maybe_fault(I, "rename")
        trace(I).append(("rename", a, b))
    reg("os.rename", os_rename)
    reg("os.replace", os_rename)

    def sh_move(I, a, b):
        """contract of shutil.move: os.rename when possible; across file systems it COPIES:
        the destination is opened for writing, then the source is removed"""
        maybe_fault(I, "move")
        if I.decide(I.fresh("same_filesystem", z3.BoolSort())):
            trace(I).append(("rename", a, b))
            return b
        h = PObj("file", {"path": b, "mode": "wb", "closed": False, "written": False})
        trace(I).append(("open_w", b, h))
        maybe_fault(I, "copy")
        trace(I).append(("close", b, h))
        trace(I).append(("unlink", a, None))
        return b
    reg("shutil.move", sh_move)

    def sh_copy(I, a, b, *r, **k):
        maybe_fault(I, "copy")
        h = PObj("file", {"path": b, "mode": "wb", "closed": False, "written": False})
        trace(I).append(("open_w", b, h))
        trace(I).append(("close", b, h))
        return b
    for nm in ("shutil.copy", "shutil.copyfile", "shutil.copy2"):
        reg(nm, sh_copy)

    def os_unlink(I, p):
        trace(I).append(("unlink", p, None))      # the attempt is the event; it may still fail
        maybe_fault(I, "unlink")
    reg("os.unlink", os_unlink)
    reg("os.remove", os_unlink)

    def os_close(I, fd):
        trace(I).append(("close_fd", fd, None))
    reg("os.close", os_close)

    def mkstemp(I, suffix=None, prefix=None, dir=None, text=False):
        maybe_fault(I, "mkstemp")
        name = I.fresh("tmpname", S)
        # contract of mkstemp: a fresh file created inside `dir` (or the default temp
        # directory), its name ends with `suffix`
        if dir is not None:
            d = z3_of(dir)
            base = I.fresh("tmpbase", S)
            I.assume(z3.Not(z3.Contains(base, z3.StringVal("/"))))
            I.assume(z3.Length(base) > 0)
            path = z3.If(z3.Length(d) == 0, base, z3.Concat(d, z3.StringVal("/"), base))
            I.assume(name == path)
        p = SStr(name)
        fd = I.fresh_int("fd")
        trace(I).append(("mkstemp", p, dir))
        return (fd, p)
    reg("tempfile.mkstemp", mkstemp)
