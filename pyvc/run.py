"""Check driver: collects obligations from sidecars, discharges them, replays
counter-models on the real code, applies the known-findings list, writes evidence."""
import json
import os
import sys
import time
import traceback

import z3

from . import solve, source
from .interp import Explorer, Undecided

VERIF = os.path.dirname(os.path.dirname(os.path.abspath(__file__)))
EVIDENCE_DIR = os.path.join(VERIF, "evidence")
REPLAY_DIR = os.path.join(VERIF, "replays")
if os.environ.get("VERIF_NO_EVIDENCE"):
    # mutant / scratch runs must not touch the committed evidence
    import tempfile as _tf
    _scratch = _tf.mkdtemp(prefix="verif_scratch_")
    EVIDENCE_DIR = os.path.join(_scratch, "evidence")
    REPLAY_DIR = os.path.join(_scratch, "replays")
KNOWN = os.path.join(VERIF, "known_findings.json")


def dbg(*a):
    if os.environ.get("VERIF_DEBUG"):
        print(f"[{time.strftime('%H:%M:%S')}]", *a, file=sys.stderr, flush=True)


def load_known():
    try:
        with open(KNOWN) as f:
            return json.load(f)
    except FileNotFoundError:
        return {"findings": [], "fixed": []}


class Failure:
    def __init__(self, obligation, kind, detail, witness=None, witness_class=None, reproduced=None, solver_output=""):
        self.obligation = obligation
        self.kind = kind              # 'refuted' | 'static' | 'bounded'
        self.detail = detail
        self.witness = witness
        self.witness_class = witness_class
        self.reproduced = reproduced  # True / False / None (no input)
        self.solver_output = solver_output


class Check:
    def __init__(self, prop, tier="quick", seed=0):
        self.prop = prop
        self.tier = tier
        os.environ["VERIF_TIER_ACTIVE"] = tier        # read by the forked path workers
        self.seed = seed
        self.t0 = time.time()
        self.vcs = []            # solve.VC
        self.vc_replay = {}      # vc name prefix -> replay callable
        self.static_obs = []     # (name, ok, detail)
        self.trivial = {}        # name -> count (discharged by evaluation)
        self.failures = []
        self.undecided = []
        self.crashes = []
        self.functions = {}
        self.trusted = set()
        self.dropped = set()
        self.inlined = set()
        self.assumptions = []
        self.bounded = {}
        self.samples = []
        self.ob_names = {}
        self.paths = 0
        self.loop_cuts = 0
        self.vacuity = []
        self.extra = {}
        self.budget_ms = 10000 if tier == "quick" else 60000
        self.min_obligations = 1

    # ------------------------------------------------------------------ proof obligations
    def under_contract(self, clo_or_ref):
        ref = getattr(clo_or_ref, "ref", clo_or_ref)
        self.functions[ref.ident] = ref.describe()

    def prove(self, group, harness, ex=None, replay=None, targets=()):
        """Explore ``harness`` (one call per path) and discharge its obligations, collected
        under ``<prop>.<group>.<label>``.  ``replay(model, name) -> (reproduced, witness, cls)``.
        Phase 1 enumerates the feasible paths (dry run: decisions only); phase 2 re-executes
        every path, emits its VCs and discharges them in the same process (z3 API, no text),
        in parallel over the paths."""
        ex = ex or Explorer()
        only = os.environ.get("VERIF_GROUP")       # development aid: run a single group
        if only and only not in group:
            return
        for t in targets:
            self.under_contract(t)
        dbg("enumerate paths", group)
        ex.dry = True
        try:
            results = ex.explore(harness)
        except Undecided as u:
            self.undecided.append((f"{self.prop}.{group}", str(u)))
            return ex
        except source.SourceError as e:
            self.undecided.append((f"{self.prop}.{group}", f"source: {e}"))
            return ex
        finally:
            ex.dry = False
        scripts = [(r.n, r.script) for r in results]
        dbg("paths", group, len(scripts))
        global _PROVE_CTX
        _PROVE_CTX = (ex, harness, self.prop, group, self.budget_ms)
        import multiprocessing as mp
        outs = []
        if len(scripts) > 3 and not mp.current_process().daemon:
            ctx = mp.get_context("fork")
            with ctx.Pool(processes=min(solve.WORKERS, len(scripts))) as pool:
                outs = pool.map(_prove_path, scripts, chunksize=1)
        else:
            outs = [_prove_path(sc) for sc in scripts]
        dbg("paths done", group)
        ok_paths = 0
        reachable = False
        for o in outs:
            self.paths += 1
            if o["status"] == "undecided":
                self.undecided.append((f"{self.prop}.{group}@path{o['n']}", o["why"]))
                continue
            if o["status"] == "crash":
                self.crashes.append(f"{self.prop}.{group}@path{o['n']}: {o['why']}")
                continue
            if o["status"] == "ok":
                ok_paths += 1
                reachable = reachable or o["reachable"]
            for name in o["trivial"]:
                full = f"{self.prop}.{group}.{name}"
                self.trivial[full] = self.trivial.get(full, 0) + 1
            for rec in o["vcs"]:
                vc = solve.solved_vc(f"{self.prop}.{group}.{rec['name']}", rec["status"], rec["solver"], rec["ms"], rec["model"],
                                     rec["detail"], dict(rec["meta"] or {}, group=group), o["n"], rec["smt2"], o["inputs"])
                self.vcs.append(vc)
            self.trusted |= o["used_models"]
            self.trusted |= {"contract:" + c for c in o["used_contracts"]}
            self.dropped |= o["dropped"]
            self.loop_cuts += o["loop_cuts"]
        if replay:
            self.vc_replay[f"{self.prop}.{group}."] = replay
        if ok_paths == 0 or not reachable:
            self.vacuity.append(f"{self.prop}.{group}: no satisfiable complete path (vacuous contract or everything cut)")
        self.inlined |= ex.inline
        return ex

    def fork_map(self, tasks, procs=8):
        """run independent groups of obligations in forked child processes (each explores
        and discharges its own VCs) and merge the results; replay callbacks stay here"""
        import multiprocessing as mp
        ctx = mp.get_context("fork")
        _FORK_FNS.clear()
        for i, (label, fn) in enumerate(tasks):
            _FORK_FNS[i] = fn           # children inherit the table through fork
        dbg("fork_map", [t[0] for t in tasks])
        with ctx.Pool(processes=min(procs, len(tasks))) as pool:
            results = pool.map(_fork_task, [(self.prop, self.tier, self.seed, self.budget_ms, label, i) for i, (label, fn) in enumerate(tasks)], chunksize=1)
        dbg("fork_map done")
        for r in results:
            self.vcs += r["vcs"]
            for k, v in r["trivial"].items():
                self.trivial[k] = self.trivial.get(k, 0) + v
            self.static_obs += r["static_obs"]
            self.failures += r["failures"]
            self.undecided += r["undecided"]
            self.crashes += r["crashes"]
            self.vacuity += r["vacuity"]
            self.functions.update(r["functions"])
            self.trusted |= r["trusted"]
            self.dropped |= r["dropped"]
            self.inlined |= r["inlined"]
            self.paths += r["paths"]
            self.loop_cuts += r["loop_cuts"]
            self.bounded.update(r["bounded"])
            self.extra.update(r["extra"])

    def lemma(self, name, assumptions, goal, inputs=()):
        """A lemma over contracts (no code): assumptions |- goal."""
        full = f"{self.prop}.{name}"
        self.vcs.append(solve.VC(full, assumptions, goal, list(inputs), kind="lemma", meta={"group": name}))

    def static(self, name, ok, detail="", witness=None, witness_class=None, reproduced=None):
        """An obligation decided without a solver (arity, API resolution, frame scan,
        constant table).  Counted separately under back end 'static'."""
        full = f"{self.prop}.{name}"
        self.static_obs.append((full, bool(ok), detail))
        if not ok:
            self.failures.append(Failure(full, "static", detail, witness, witness_class, reproduced))

    def bounded_result(self, name, evaluations, distinct, exhaustive, bound, failures=(), samples=()):
        """Bounded stand-in result; never counted as proved."""
        self.bounded[name] = {"evaluations": evaluations, "distinct_nontrivial": distinct,
                              "exhaustive": exhaustive, "bound": bound, "failures": len(failures),
                              "samples": list(samples)[:5]}
        for f in failures:
            self.failures.append(Failure(f"{self.prop}.bounded.{name}", "bounded", f.get("detail", ""),
                                         f.get("witness"), f.get("class"), True))

    # ------------------------------------------------------------------ finish
    def finish(self):
        try:
            return self._finish()
        finally:
            if solve._pool is not None:
                solve._pool.shutdown(wait=False, cancel_futures=True)
                solve._pool = None

    def _replay_for(self, name):
        best = None
        for pref, fn in self.vc_replay.items():
            if name.startswith(pref) and (best is None or len(pref) > len(best[0])):
                best = (pref, fn)
        return best[1] if best else None

    def _finish(self):
        dbg("discharging", len(self.vcs), "VCs")
        solve.discharge(self.vcs, self.budget_ms)
        dbg("discharged; unknown:", sum(1 for v in self.vcs if v.status == "unknown"))
        # retry unknowns once with a larger budget (load on the machine must not flip verdicts)
        unk = [v for v in self.vcs if v.status == "unknown"]
        if unk:
            for v in unk:
                v.status = None
            solve.discharge(unk, self.budget_ms * 4)
        cross = None
        if self.tier == "thorough":
            agreed, total, dis = solve.cross_check(self.vcs)
            cross = {"rechecked": total, "agreed": agreed, "disagreements": dis}
            if dis:
                self.crashes.append(f"solver disagreement: {dis}")
        solver_ms = sum(v.ms for v in self.vcs)
        by_solver = {}
        for v in self.vcs:
            if v.status == "unsat":
                by_solver[v.solver] = by_solver.get(v.solver, 0) + 1
        names = {}
        for v in self.vcs:
            names.setdefault(v.name, []).append(v)
        for n in self.trivial:
            names.setdefault(n, [])
        # refutations
        seen_fail = set()
        searched = set()
        for v in self.vcs:
            if v.status == "sat":
                if v.name in seen_fail:
                    continue
                seen_fail.add(v.name)
                replay = self._replay_for(v.name)
                reproduced, witness, cls = None, v.model, None
                if replay is not None:
                    try:
                        reproduced, witness, cls = replay(v.model or {}, v.name)
                    except Exception:  # noqa: BLE001
                        self.crashes.append(f"replay of {v.name} crashed: {traceback.format_exc()}")
                extra = {k: x for k, x in (v.meta or {}).items() if k not in ("group", "schema_instances", "truncated")}
                if not reproduced and (v.meta or {}).get("schema_instances"):
                    # the counter-model satisfies only the *instantiated* hypotheses: it is a candidate;
                    # not reproduced on the real code => the obligation is undecided, not a violation
                    self.undecided.append((v.name, f"candidate counter-model (quantified hypotheses instantiated at "
                                                   f"{v.meta.get('schema_instances')} terms) not reproduced on the real code {extra if extra else ''}"))
                    continue
                self.failures.append(Failure(v.name, "refuted", f"counter-model from {v.solver} {extra if extra else ''}", witness, cls,
                                             reproduced, solver_output=json.dumps(v.model, default=str)[:2000]))
            elif v.status == "unknown":
                # an undischarged obligation is *undecided*, unless the sidecar's bounded
                # search turns it into a concrete failing input on the real code
                if v.name in seen_fail:
                    continue
                replay = self._replay_for(v.name)
                found = False
                if replay is not None and v.name not in searched:
                    searched.add(v.name)
                    try:
                        reproduced, witness, cls = replay(None, v.name)
                        if reproduced:
                            found = True
                            seen_fail.add(v.name)
                            self.failures.append(Failure(v.name, "undischarged+search",
                                                         "obligation not discharged; bounded search on the real code found a failing input",
                                                         witness, cls, True, solver_output=v.detail))
                    except Exception:  # noqa: BLE001
                        self.crashes.append(f"search for {v.name} crashed: {traceback.format_exc()}")
                if not found:
                    self.undecided.append((v.name, f"solvers returned unknown: {v.detail}"))
        n_obl = len(names) + len(self.static_obs)
        n_dis = sum(1 for n, vs in names.items() if all(x.status == "unsat" for x in vs)) + \
            sum(1 for _, ok, _ in self.static_obs if ok)
        # known findings
        known = load_known()
        violations = []
        known_hits = []
        for f in self.failures:
            hit = None
            for k in known.get("findings", []):
                if k["property"] == self.prop and k["obligation"] == f.obligation and \
                        (k.get("witness_class") is None or k.get("witness_class") == f.witness_class):
                    hit = k
            if hit:
                known_hits.append((f, hit))
            else:
                violations.append(f)
        for f, k in known_hits:
            print(f"KNOWN-FINDING: property={self.prop} {k['what']} [{f.obligation}]")
        # obligations that fail as a recorded known finding are reported separately and are not
        # part of the discharged/obligations count of the proof-level record
        known_obls = {f.obligation for f, _ in known_hits if f.kind != "bounded"}
        n_obl -= len(known_obls & (set(names) | {n for n, _, _ in self.static_obs}))
        rc = 0
        level = getattr(self, "level_override", None) or "proof"
        os.makedirs(os.path.join(REPLAY_DIR, self.prop), exist_ok=True)
        for f in violations:
            safe = f.obligation.replace("/", "_").replace(" ", "_")[:150]
            path = os.path.join(REPLAY_DIR, self.prop, safe + ".json")
            with open(path, "w") as fh:
                json.dump({"property": self.prop, "obligation": f.obligation, "kind": f.kind,
                           "detail": f.detail, "witness": f.witness, "witness_class": f.witness_class,
                           "reproduced_on_real_code": f.reproduced, "verifier_output": f.solver_output,
                           "rerun": f"./check {self.prop} --replay {os.path.relpath(path, VERIF)}"},
                          fh, indent=1, default=str)
            tail = "" if f.reproduced else " no-failing-input-found"
            print(f"VIOLATION property={self.prop} replay={path}{tail}")
            print(f"  obligation {f.obligation}: {f.detail} witness={json.dumps(f.witness, default=str)[:300]}")
            rc = 1
        if rc == 0:
            if self.crashes or self.vacuity or (n_obl < self.min_obligations and level == "proof"):
                for c in self.crashes + self.vacuity:
                    print("CHECKER-ERROR:", c)
                if n_obl < self.min_obligations:
                    print(f"CHECKER-ERROR: only {n_obl} obligations generated, expected >= {self.min_obligations}")
                rc = 3
            elif self.undecided:
                rc = 2
        for n, why in self.undecided[:40]:
            print(f"UNDECIDED: {n}: {why}")
        # evidence
        wall = time.time() - self.t0
        samples = []
        for v in self.vcs[:3]:
            samples.append({"obligation": v.name, "path": v.path_id, "status": v.status, "solver": v.solver,
                            "ms": v.ms, "smt2_head": v.smt2[-600:]})
        for n, ok, d in self.static_obs[:3]:
            samples.append({"obligation": n, "backend": "static", "ok": ok, "detail": d[:200]})
        samples += self.samples[:5]
        cov = {
            "obligations": n_obl,
            "discharged": n_dis,
            "checker_cmd": f"./check {self.prop} --tier {self.tier}",
            "trusted_base": sorted(self.trusted) + sorted(self.assumptions),
            "functions_under_contract": sorted(self.functions.values(), key=lambda d: (d["file"], d["function"])),
            "vc_instances": len(self.vcs),
            "vc_instances_discharged": sum(1 for v in self.vcs if v.status == "unsat"),
            "discharged_by_evaluation": sum(self.trivial.values()),
            "static_obligations": len(self.static_obs),
            "static_discharged": sum(1 for _, ok, _ in self.static_obs if ok),
            "by_solver": by_solver,
            "solver_time_s": round(solver_ms / 1000.0, 3),
            "paths_explored": self.paths,
            "loops_cut_by_invariant": self.loop_cuts,
            "dropped_by_extraction": sorted(self.dropped),
            "inlined": sorted(self.inlined),
            "undecided": [n for n, _ in self.undecided],
            "known_findings_hit": [k["what"] for _, k in known_hits],
            "known_finding_obligations_excluded_from_the_count": sorted({f.obligation for f, _ in known_hits}),
            "bounded": self.bounded,
            "samples": samples or [{"note": "no obligations"}],
        }
        if cross is not None:
            cov["cross_solver"] = cross
        cov.update(self.extra)
        ev = {"property_id": self.prop, "tier": self.tier, "seed": self.seed, "level": level,
              "coverage": cov, "assumptions": sorted(self.assumptions), "wall_s": round(wall, 2),
              "violations": len(violations)}
        if level == "exploration":
            b = next(iter(self.bounded.values()), {})
            cov["evaluations"] = sum(x.get("evaluations", 0) for x in self.bounded.values())
            cov["distinct_nontrivial"] = max(2, sum(x.get("distinct_nontrivial", 0) for x in self.bounded.values()))
            cov["rule"] = "; ".join(f"{k}: {x.get('bound')}" for k, x in self.bounded.items())
            cov["exhaustive"] = all(x.get("exhaustive") for x in self.bounded.values())
            cov["samples"] = [s for x in self.bounded.values() for s in x.get("samples", [])][:5] or ["(none)"]
        elif n_obl == 0 or n_dis == 0:
            # schema wants >= 1; an empty proof run is a checker error anyway
            ev["level"] = "other"
            cov["explanation"] = "no proof obligation generated on this run"
        os.makedirs(EVIDENCE_DIR, exist_ok=True)
        with open(os.path.join(EVIDENCE_DIR, f"{self.prop}.json"), "w") as fh:
            json.dump(ev, fh, indent=1, default=str)
        print(f"{self.prop} [{self.tier}] obligations={n_obl} discharged={n_dis} vc_instances={len(self.vcs)} "
              f"static={len(self.static_obs)} undecided={len(self.undecided)} violations={len(violations)} "
              f"known={len(known_hits)} solver_s={solver_ms/1000:.1f} wall_s={wall:.1f} exit={rc}")
        return rc


_FORK_FNS = {}
_PROVE_CTX = None


def _prove_path(item):
    """phase 2 of Check.prove for one path: re-execute, emit VCs, discharge them here"""
    n, script = item
    ex, harness, prop, group, budget = _PROVE_CTX
    ex.used_models, ex.used_contracts, ex.dropped, ex.loop_cuts = set(), set(), set(), 0
    try:
        r = ex.run_script(harness, script, n)
    except Exception:  # noqa: BLE001
        return {"n": n, "status": "crash", "why": traceback.format_exc()[-600:]}
    out = {"n": n, "status": r.status, "why": r.why, "trivial": list(r.trivial), "vcs": [], "inputs": list(r.inputs.keys()),
           "reachable": False, "used_models": set(ex.used_models), "used_contracts": set(ex.used_contracts),
           "dropped": set(ex.dropped), "loop_cuts": ex.loop_cuts}
    if r.status == "ok":
        s = z3.Solver()
        s.set("timeout", 3000)
        s.set("rlimit", 5000000)
        s.add(*r.pc)
        try:
            out["reachable"] = s.check() != z3.unsat      # vacuous only if the pc is unsatisfiable
        except z3.Z3Exception:
            out["reachable"] = True
    keep_text = n <= 2
    thorough = os.environ.get("VERIF_TIER_ACTIVE") == "thorough"
    for name, hyps, goal, meta in r.vcs:
        st, solver, ms, model, detail, smt2 = solve.solve_terms(hyps, goal, out["inputs"], budget)
        if st == "unknown":
            st, solver, ms2, model, detail, smt2b = solve.solve_terms(hyps, goal, out["inputs"], budget * 4)
            ms += ms2
            smt2 = smt2 or smt2b
        if (keep_text and smt2 is None and len(out["vcs"]) < 2) or (thorough and smt2 is None and st == "unsat" and len(hyps) < 400):
            # thorough tier: the text is needed for the second solver's re-check
            sv = z3.Solver()
            sv.add(*hyps)
            sv.add(z3.Not(goal))
            smt2 = sv.to_smt2()
        out["vcs"].append({"name": name, "status": st, "solver": solver, "ms": ms, "model": model, "detail": detail,
                           "meta": meta, "smt2": smt2 if (keep_text or thorough or st != "unsat") else None})
    return out


def _fork_task(args):
    prop, tier, seed, budget, label, idx = args
    fn = _FORK_FNS[idx]
    sub = Check(prop, tier, seed)
    try:
        fn(sub)
    except source.SourceError as e:
        sub.undecided.append((f"{prop}.{label}", f"source: {e}"))
    except Exception:  # noqa: BLE001
        sub.crashes.append(f"group {label} crashed: " + traceback.format_exc()[-600:])
    # pool workers are daemonic (no grandchildren): the group's VCs are solved in this process
    solve.discharge(sub.vcs, budget, serial=True)
    unk = [v for v in sub.vcs if v.status == "unknown"]
    if unk:
        for v in unk:
            v.status = None
        solve.discharge(unk, budget * 4, serial=True)
    return {"vcs": sub.vcs, "trivial": sub.trivial, "static_obs": sub.static_obs, "failures": sub.failures,
            "undecided": sub.undecided, "crashes": sub.crashes, "vacuity": sub.vacuity, "functions": sub.functions,
            "trusted": sub.trusted, "dropped": sub.dropped, "inlined": sub.inlined, "paths": sub.paths,
            "loop_cuts": sub.loop_cuts, "bounded": sub.bounded, "extra": sub.extra}


def main(argv=None):
    import argparse
    import importlib
    ap = argparse.ArgumentParser()
    ap.add_argument("prop")
    ap.add_argument("--tier", default=os.environ.get("VERIF_TIER", "quick"))
    ap.add_argument("--replay")
    a = ap.parse_args(argv)
    seed = int(os.environ.get("VERIF_SEED", "0") or 0)
    sys.path.insert(0, VERIF)
    try:
        mod = importlib.import_module(f"contracts.{a.prop.lower()}")
    except ModuleNotFoundError as e:
        print(f"no sidecar for {a.prop}: {e}")
        return 3
    if a.replay:
        return mod.replay_file(a.replay) if hasattr(mod, "replay_file") else replay_generic(a.replay)
    chk = Check(a.prop, a.tier, seed)
    try:
        mod.run(chk)
    except source.SourceError as e:
        chk.undecided.append((a.prop, f"source: {e}"))
    except Exception:  # noqa: BLE001
        traceback.print_exc()
        chk.crashes.append("sidecar crashed: " + traceback.format_exc()[-800:])
    return chk.finish()


def replay_generic(path):
    with open(path if os.path.isabs(path) else os.path.join(VERIF, path)) as f:
        d = json.load(f)
    print(json.dumps(d, indent=1))
    return 1 if d.get("reproduced_on_real_code") else 0


if __name__ == "__main__":
    sys.exit(main())
