"""Back end: discharge verification conditions with a z3 / cvc5 portfolio.

A VC is ``assumptions |- goal``; it is discharged when ``assumptions and not goal`` is
``unsat`` for some solver.  ``sat`` yields a counter-model over the declared input
symbols.  ``unknown``/timeout is *undecided*, never a violation.
VCs are shipped to worker processes as SMT-LIB2 text (z3 terms cannot cross processes).
"""
import os
import re
import subprocess
import tempfile
import time
from concurrent.futures import ProcessPoolExecutor

import z3

CVC5 = "/usr/bin/cvc5"
WORKERS = int(os.environ.get("VERIF_WORKERS", "12"))


class VC:
    __slots__ = ("name", "smt2", "inputs", "has_strings", "has_quant", "path_id",
                 "status", "solver", "ms", "model", "detail", "kind", "meta")

    def __init__(self, name, assumptions, goal, inputs, path_id=0, kind="vc", meta=None):
        s = z3.Solver()
        for a in assumptions:
            s.add(a)
        s.add(z3.Not(goal))
        self.name = name
        self.smt2 = s.to_smt2()
        self.inputs = list(inputs)  # names of declared input constants
        self.has_strings = "String" in self.smt2 or "(Seq" in self.smt2
        self.has_quant = "(forall" in self.smt2 or "(exists" in self.smt2
        self.path_id = path_id
        self.kind = kind
        self.status = None   # 'unsat' (discharged) | 'sat' | 'unknown' | 'trivial'
        self.solver = None
        self.ms = 0
        self.model = None
        self.detail = ""
        self.meta = meta or {}


def solved_vc(name, status, solver, ms, model, detail, meta, path_id, smt2, inputs):
    v = VC.__new__(VC)
    v.name, v.status, v.solver, v.ms, v.model, v.detail = name, status, solver, ms, model, detail
    v.meta, v.path_id, v.smt2, v.inputs = meta or {}, path_id, smt2 or "", list(inputs)
    v.has_strings = False
    v.has_quant = False
    v.kind = "vc"
    return v


def _decode_z3_string(v):
    try:
        return v.as_string() if not hasattr(v, "py_value") else v.py_value()
    except Exception:
        return str(v)


def _z3_unescape(s):
    def rep(m):
        return chr(int(m.group(1), 16))
    s = re.sub(r"\\u\{([0-9a-fA-F]+)\}", rep, s)
    s = re.sub(r"\\u([0-9a-fA-F]{4})", rep, s)
    s = re.sub(r"\\x([0-9a-fA-F]{2})", rep, s)
    return s


def _run_z3(smt2, timeout_ms, inputs):
    t0 = time.time()
    s = z3.Solver()
    s.set("timeout", int(timeout_ms))
    try:
        s.from_string(smt2)
        r = s.check()
    except z3.Z3Exception as e:
        return "unknown", None, f"z3 exception: {e}", int((time.time() - t0) * 1000)
    ms = int((time.time() - t0) * 1000)
    if r == z3.unsat:
        return "unsat", None, "", ms
    if r == z3.sat:
        m = s.model()
        vals = {}
        want = set(inputs)
        for d in m.decls():
            if d.arity() == 0 and (not want or d.name() in want):
                v = m[d]
                try:
                    if z3.is_int_value(v):
                        vals[d.name()] = v.as_long()
                    elif z3.is_true(v) or z3.is_false(v):
                        vals[d.name()] = z3.is_true(v)
                    elif z3.is_string_value(v):
                        vals[d.name()] = _z3_unescape(v.as_string())
                    elif z3.is_rational_value(v):
                        vals[d.name()] = float(v.as_fraction())
                    else:
                        vals[d.name()] = str(v)
                except Exception:
                    vals[d.name()] = str(v)
        return "sat", vals, "", ms
    return "unknown", None, s.reason_unknown(), ms


def _parse_cvc5_values(text):
    vals = {}
    for m in re.finditer(r"\(\s*([^\s()]+|\|[^|]*\|)\s+(\"(?:[^\"]|\"\")*\"|\(- \d+\)|-?\d+|true|false)\s*\)", text):
        k, v = m.group(1).strip("|"), m.group(2)
        if v.startswith('"'):
            vals[k] = _z3_unescape(v[1:-1].replace('""', '"'))
        elif v in ("true", "false"):
            vals[k] = v == "true"
        elif v.startswith("(-"):
            vals[k] = -int(v[2:-1].strip())
        else:
            vals[k] = int(v)
    return vals


def _run_cvc5(smt2, timeout_ms, inputs, want_model=False, fmf=False):
    t0 = time.time()
    text = smt2
    # z3 prints (check-sat) at the end; cvc5 needs a logic and get-value for models
    text = "(set-logic ALL)\n" + text
    inputs = [n for n in inputs if f"(declare-fun {n} " in smt2 or f"(declare-fun |{n}| " in smt2
              or f"(declare-const {n} " in smt2]
    if want_model and inputs:
        names = " ".join(n if re.fullmatch(r"[A-Za-z_][A-Za-z0-9_.!]*", n) else f"|{n}|" for n in inputs)
        text += f"\n(get-value ({names}))\n"
    with tempfile.NamedTemporaryFile("w", suffix=".smt2", delete=False) as f:
        f.write(text)
        fn = f.name
    cmd = [CVC5, "--strings-exp", f"--tlimit={int(timeout_ms)}"]
    if want_model:
        cmd.append("--produce-models")
    if fmf:
        cmd.append("--strings-fmf")
    try:
        p = subprocess.run(cmd + [fn], capture_output=True, text=True, timeout=timeout_ms / 1000 + 5)
        out = p.stdout.strip()
        err = p.stderr.strip()
    except subprocess.TimeoutExpired:
        out, err = "unknown", "timeout"
    finally:
        os.unlink(fn)
    ms = int((time.time() - t0) * 1000)
    first = out.split("\n", 1)[0].strip() if out else ""
    if first == "unsat":
        return "unsat", None, "", ms
    if first == "sat":
        vals = _parse_cvc5_values(out.split("\n", 1)[1]) if "\n" in out else {}
        return "sat", vals, "", ms
    return "unknown", None, (out + " " + err)[:300], ms


def solve_one(args):
    """Portfolio on one VC. Returns (status, solver, ms, model, detail)."""
    smt2, inputs, has_strings, budget_ms = args
    total = 0
    detail = []
    order = []
    if "(forall" in smt2:
        order = [("z3", budget_ms)]       # cvc5 1.0.3 gives up on quantifiers + arrays at once
    elif has_strings:
        order = [("cvc5", budget_ms), ("z3", budget_ms)]
    elif not order:
        order = [("z3", budget_ms), ("cvc5", budget_ms)]
    for name, ms in order:
        if name == "z3":
            st, model, why, t = _run_z3(smt2, ms, inputs)
        else:
            st, model, why, t = _run_cvc5(smt2, ms, inputs, want_model=False)
            if st == "sat":
                # re-run for a model (cheap: the query is already known sat)
                st2, model2, why2, t2 = _run_cvc5(smt2, ms, inputs, want_model=True)
                t += t2
                if st2 == "sat":
                    model = model2
        total += t
        if st in ("unsat", "sat"):
            return st, name, total, model, "; ".join(detail)
        detail.append(f"{name}: unknown ({why})")
    return "unknown", None, total, None, "; ".join(detail)


def cross_check_one(args):
    """Second-solver re-check of a discharged VC (thorough tier)."""
    smt2, has_strings, first_solver, budget_ms = args
    if first_solver == "z3":
        st, _, why, t = _run_cvc5(smt2, budget_ms, [])
        other = "cvc5"
    else:
        st, _, why, t = _run_z3(smt2, budget_ms, [])
        other = "z3"
    return st, other, t


def solve_terms(hyps, goal, inputs, budget_ms):
    """discharge one VC given as z3 terms, in this process (no SMT-LIB text unless needed).
    Returns (status, solver, ms, model, detail, smt2_or_None)."""
    t0 = time.time()
    from .interp import _has_strings
    stringy = _has_strings(goal) or any(_has_strings(h) for h in hyps)
    if not stringy:
        s = z3.Solver()
        s.set("timeout", int(budget_ms))
        s.set("rlimit", 40000000)
        for h in hyps:
            s.add(h)
        s.add(z3.Not(goal))
        try:
            r = s.check()
        except z3.Z3Exception:
            r = z3.unknown
        ms = int((time.time() - t0) * 1000)
        if r == z3.unsat:
            return "unsat", "z3", ms, None, "", None
        if r == z3.sat:
            m = s.model()
            vals = {}
            want = set(inputs)
            for d in m.decls():
                if d.arity() == 0 and d.name() in want:
                    v = m[d]
                    try:
                        if z3.is_int_value(v):
                            vals[d.name()] = v.as_long()
                        elif z3.is_true(v) or z3.is_false(v):
                            vals[d.name()] = z3.is_true(v)
                        elif z3.is_string_value(v):
                            vals[d.name()] = _z3_unescape(v.as_string())
                        else:
                            vals[d.name()] = str(v)
                    except Exception:  # noqa: BLE001
                        vals[d.name()] = str(v)
            return "sat", "z3", ms, vals, "", None
    # strings (cvc5 first) or z3 unknown: fall back to the text portfolio
    sv = z3.Solver()
    for h in hyps:
        sv.add(h)
    sv.add(z3.Not(goal))
    smt2 = sv.to_smt2()
    has_strings = "String" in smt2 or "(Seq" in smt2
    st, solver, ms, model, detail = solve_one((smt2, list(inputs), has_strings, budget_ms))
    return st, solver, ms + int((time.time() - t0) * 1000), model, detail, smt2


_pool = None


def pool():
    global _pool
    if _pool is None:
        _pool = ProcessPoolExecutor(max_workers=WORKERS)
    return _pool


def discharge(vcs, budget_ms=10000, serial=False):
    todo = [v for v in vcs if v.status is None]
    if not todo:
        return
    jobs = [(v.smt2, v.inputs, v.has_strings, budget_ms) for v in todo]
    if len(todo) <= 2 or serial:
        results = [solve_one(j) for j in jobs]
    else:
        results = list(pool().map(solve_one, jobs, chunksize=1))
    for v, (st, solver, ms, model, detail) in zip(todo, results):
        v.status, v.solver, v.ms, v.model, v.detail = st, solver, ms, model, detail


def cross_check(vcs, budget_ms=20000):
    todo = [v for v in vcs if v.status == "unsat" and v.solver in ("z3", "cvc5") and v.smt2]      # only VCs whose text was kept
    jobs = [(v.smt2, v.has_strings, v.solver, budget_ms) for v in todo]
    results = list(pool().map(cross_check_one, jobs, chunksize=1)) if jobs else []
    disagreements = []
    agreed = 0
    for v, (st, other, t) in zip(todo, results):
        if st == "sat":
            disagreements.append((v.name, v.solver, other))
        elif st == "unsat":
            agreed += 1
    return agreed, len(todo), disagreements
