#!/bin/bash
# tools/seedall.sh : run every seeded change against the check of its property (4 at a time), summary to seeded/RESULTS.txt
cd /verif
out=seeded/RESULTS.txt; : > $out.tmp
ls -d seeded/C??-? | xargs -P 4 -I{} sh -c 'd={}; id=$(basename $d); p=${id%%-*}; r=$(tools/seedrun.sh $p /verif/$d 2>&1 | grep -v conda); clean=$(echo "$r" | grep -o "demo_clean_exit=[0-9]*"); seeded=$(echo "$r" | grep -o "demo_seeded_exit=[0-9]*"); suite=$(echo "$r" | grep -o "[0-9]* passed" | head -1); line=$(echo "$r" | grep "^$p \[" | tail -1 | grep -o "violations=[0-9]*.*exit=[0-9]*"); viol=$(echo "$r" | grep -c "^VIOLATION"); echo "$id $clean $seeded suite=\"$suite\" VIOLATION_lines=$viol $line" >> seeded/RESULTS.txt.tmp'
sort $out.tmp > $out; rm $out.tmp; cat $out
