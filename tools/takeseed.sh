#!/bin/bash
# tools/takeseed.sh <prop> <worktree> : copy a seed author's delivery (A,B -> C,D or the letters given) into /verif/seeded, drop the worktree, run both against the property's check
P=$1; WT=$2; LA=${3:-C}; LB=${4:-D}
cd /verif
mkdir -p seeded/$P-$LA seeded/$P-$LB seeded/preexisting
cp -r $WT/_seed/A/. seeded/$P-$LA/ && cp -r $WT/_seed/B/. seeded/$P-$LB/
for f in $WT/_seed/preexisting*; do [ -e "$f" ] && cp -r $f seeded/preexisting/$P-$LA-$(basename $f); done
git -C /repo worktree remove --force $WT
for id in $P-$LA $P-$LB; do
  (tools/seedrun.sh $P /verif/seeded/$id > /tmp/seed3_$id.log 2>&1) &
done
wait
for id in $P-$LA $P-$LB; do echo "## $id"; grep -v "conda\|httpx\|_compat\|^KNOWN" /tmp/seed3_$id.log | grep "demo_\|passed\|^VIOLATION\|^$P \[\|^UNDECIDED\|PATCH\|CHECKER" | cut -c1-220 | head -12; done
