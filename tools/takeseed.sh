#!/bin/bash
# tools/takeseed.sh <prop> <worktree> : copy a seed author's delivery (A,B -> C,D) into /verif/seeded, drop the worktree, run both against the property's check
P=$1; WT=$2
cd /verif
mkdir -p seeded/$P-C seeded/$P-D seeded/preexisting
cp -r $WT/_seed/A/. seeded/$P-C/ && cp -r $WT/_seed/B/. seeded/$P-D/
for f in $WT/_seed/preexisting*; do [ -e "$f" ] && cp -r $f seeded/preexisting/$P-$(basename $f); done
git -C /repo worktree remove --force $WT
for id in $P-C $P-D; do
  (tools/seedrun.sh $P /verif/seeded/$id > /tmp/seed3_$id.log 2>&1) &
done
wait
for id in $P-C $P-D; do echo "## $id"; grep -v "conda\|httpx\|_compat\|^KNOWN" /tmp/seed3_$id.log | grep "demo_\|passed\|^VIOLATION\|^$P \[\|^UNDECIDED\|PATCH\|CHECKER" | cut -c1-220 | head -12; done
