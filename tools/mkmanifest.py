#!/usr/bin/env python3
"""Regenerates /verif/MANIFEST.json from the table below (single source of truth)."""
import json, os
V = os.path.dirname(os.path.dirname(os.path.abspath(__file__)))
props = [json.loads(l)["id"] for l in open(os.path.join(V, "properties.jsonl"))]

CHECKS = {
 "C01": dict(cat="proof", tech="contract-based deductive verification: VCs generated from the real AST (pyvc), z3/cvc5; bounded stand-in for the pipeline",
   text="Proof obligations on the leaf mechanisms of parse totality read from /repo/src at run time (resolve_entity exception-freedom for every entity string). Whole-pipeline totality is not a discharged contract; see level_note.",
   note="Assumes library contracts of int/chr/str slicing and html.entities.name2codepoint range; not covered: passes outside the verified set, C++ scanner.", ref="3/C01"),
 "C15": dict(cat="proof", tech="contract-based deductive verification with a ghost file system (pyvc VCs over strings, cvc5/z3); bounded sandbox stand-in",
   text="extract_member/extractall verified for all member names and destinations: every FS effect lies under the destination, rejected members leave no effect; extractall is checked against extract_member's contract through a loop invariant.",
   note="Trusted: POSIX os.path join/normpath/abspath/dirname contracts (re-validated against posixpath on the bounded domain every run), no symlinks in a fresh destination.", ref="3/C15"),
}
NA = {
}
checks = []
for p in props:
    if p in CHECKS:
        c = CHECKS[p]
        checks.append({"property_id": p, "quick_cmd": f"./check {p} --tier quick", "thorough_cmd": f"./check {p} --tier thorough",
                       "evidence_file": f"evidence/{p}.json", "replay_cmd_template": f"./check {p} --replay {{path}}",
                       "engine": "pyvc", "level_claimed": {"category": c["cat"], "text": c["text"], "design_ref": c["ref"]},
                       "level_note": c["note"], "technique": c["tech"]})
na = [{"property_id": p, "reason": NA.get(p, "check not built yet (work in progress; see DESIGN.md section 3)")} for p in props if p not in CHECKS]
m = {"version": 1, "setup_cmd": "./setup.sh",
     "hooks": {"guard": "MWLIB_VERIF", "enable": "no hooks: contracts live in sidecars under /verif/contracts; checks read /repo/src at run time",
               "baseline_off_cmd": "cd /repo && /venv/bin/python -m pytest -ra -q -p no:cacheprovider --timeout=900 --continue-on-collection-errors",
               "source_commits": [], "add_only": True},
     "engines": [{"name": "pyvc", "path": "pyvc/", "serves_properties": sorted(CHECKS),
                  "kind_free_text": "verification-condition generator over the real Python AST (symbolic interpreter with contracts, loop invariants, ghost state), discharged by z3 5.1 / cvc5 1.0.3; static obligation classes; bounded harness as labelled stand-in"}],
     "checks": checks, "not_applicable": na,
     "notes": "exit codes of ./check: 0 held, 1 VIOLATION, 2 undecided (engine limit / solver unknown), 3 checker error"}
json.dump(m, open(os.path.join(V, "MANIFEST.json"), "w"), indent=1)
print("checks:", [c["property_id"] for c in checks])
