#!/usr/bin/env python3
"""Regenerates /verif/MANIFEST.json from the table below (single source of truth)."""
import json, os
V = os.path.dirname(os.path.dirname(os.path.abspath(__file__)))
props = [json.loads(l)["id"] for l in open(os.path.join(V, "properties.jsonl"))]

T = "contract-based deductive verification: VCs generated from the real Python AST by a symbolic interpreter with contracts, loop invariants and ghost state (pyvc), discharged by z3 5.1 / cvc5 1.0.3"
B = "; bounded run-time-contract stand-in on the real code, labelled bounded"
CHECKS = {
 "C01": dict(cat="proof", tech=T + B, ref="3/C01",
   text="Proved on the real code: resolve_entity never raises and returns the entity or one character (all entity strings); State.get_next adds at most 1/2/2/6/6 successors linked to the predecessor (the fan-out bound behind the 32-state pruning); tokenize's non-empty precondition holds at its call site in parse_txt for any text and any result of comment stripping. Decided statically: none of the ~100 regular expressions the parser compiles (recorded from re._compile on every run) has exponential ambiguity (squared-NFA criterion; candidates are replayed on the real pattern object). Whole-pipeline totality is NOT proved: parse_string is exercised by the bounded stand-in only.",
   note="Trusted: library contracts of int/chr/str slicing, name2codepoint range; the regex analysis abstracts characters to representatives and unrolls counted repeats (see pyvc/regexamb.py). Not covered by proof: the refinement passes other than ParseLines (C02), tagext/imgmap handlers, the C++ scanner, polynomial time bounds."),
 "C02": dict(cat="proof", tech=T + B, ref="3/C02",
   text="Proved: link classification (compat._handle_link_node) as a decision table over namespace/colon/langlink/interwiki; table/row child filtering; ParseLines.run overwrites exactly the token indices it collected into lines (loop invariant + ghost collected set, nothing dropped or duplicated by the grouping driver); ParseLines.analyze inserts every token it creates exactly once and in front of its guard. Section nesting, tables and apostrophes are covered by the bounded grammar round trip (every word once, in order, under the denoted ancestors), link classification into every namespace of every bundled site by a bounded family, not by discharged contracts.",
   note="collect_items / append_line / splitdl are assumed contracts; precondition of run(): item/colon tokens stand at line starts; termination of the ParseLines loops not proved. The property as a whole still rests on the bounded stand-in."),
 "C03": dict(cat="proof", tech=T + "; static call-site/arity obligations from the real classes" + B, ref="3/C03",
   text="Proved: flatten restores the recursion counter on every exit, raises TemplateRecursion before running any callee when over the limit, swallows it only at the outermost call and then yields nothing; static: every callee MagicResolver.__call__ can dispatch to accepts the one positional argument; resource contracts of every #expr operator function (int ** int needs a bounded exponent, round a bounded digit count, only arithmetic errors escape); no magic / parser function evaluates a lazy argument inside a catch-all handler; #time's post-processor (roman numerals) cannot abort the expansion. Per-function size/CPU contracts of the remaining functions are bounded only (every registered name x 0..2/3 args x 11 shapes, every #time format code).",
   note="Trusted: Node.flatten callees satisfy the callee contract; compiled evaluate.pyx behaves as its source; roman.toRoman's contract (0..4999 or OutOfRangeError) read from the installed module."),
 "C04": dict(cat="proof", tech=T + "; static constant-table obligations" + B, ref="3/C04",
   text="Proved: maybe_numeric_compare equals 'same text or same number' for all strings (int/float as partial functions); static: precedence chain and unary set of #expr; the two pop loops of the #expr evaluator against their operational definition over an abstract operator stack (closing parenthesis: exactly the operators above the nearest '('; operator token: exactly the maximal top segment binding at least as tight, nothing for a prefix operator; sign after an operator is a prefix operator). Parameter binding, #if/#ifeq/#switch and parse_expr's driver loop are bounded only.",
   note="nodes.pyx / evaluate.pyx node classes are not under contract."),
 "C05": dict(cat="proof", tech=T + " over an abstract tree heap; static frame obligation over the real AST (complete scan)" + B, ref="3/C05",
   text="Proved: the tree primitives _id_index, append_child, replace_child, remove_child, move_to and copy meet behavioural contracts over an abstract tree heap (result, full frame, parent links) and each preserves well-formedness (every listed child points back, every attached node is listed once, the root has no parent); copy restores the parent link on every exit. Decided statically (complete over the files): nodes are attached only inside these primitives and extend_classes. One step of remove_broken_children never dissolves a table/row/list into its parent. That each of the ~55 passes calls the primitives within their preconditions, and the container typing after the full sequence, are observed by the bounded stand-in only.",
   note="Preconditions: replace_child with a duplicate-free list of detached nodes or the child's own children; move_to with a target outside the node's subtree. move_to's adjacency postcondition is bounded only (small real trees)."),
 "C06": dict(cat="proof", tech="static API-resolution obligations against the real node class table" + B, ref="3/C06",
   text="Every attribute used on a value the code itself treats as a tree node resolves on the real node classes (or is assigned somewhere on nodes): the defect class 'method renamed away'. Three call sites fail and are recorded as known findings. Each pass is driven directly on enumerated inputs by the bounded stand-in; fixed-point progress is not proved.",
   note="Receiver typing is a conservative dataflow (untyped receivers generate no obligation)."),
 "C07": dict(cat="exploration", tech="bounded run-time contract only (no contract within the verifier's reach expresses the property)", ref="3/C07",
   text="BOUNDED stand-in, not a proof: clean_all keeps words, order, section / list-item nesting / reference and tables on generated ordinary documents, plus a family of hand-picked shapes inside the property's space (bare-link-only sections, tall cells, references in both orders, repeated links, captions); four of those shapes are recorded known findings.",
   note="Nothing is proved."),
 "C09": dict(cat="proof", tech=T + B, ref="3/C09",
   text="Proved: get_uniq builds the marker of the recognisers' shape and registers the replacement, marker format injective in (name, counter); _repl_to_uniq keeps the body verbatim (nowiki restores to its body, others to the complete match); _repl_from_uniq restores known markers and leaves unknown ones; ParseUniq.create_nowiki/pre/math/source/timeline carry the body verbatim (entity decoding only) and never call parse_txt/parseAndExpand.",
   note="The regular expressions replace_tags / SPLIT_PATTERN are outside SMT: bounded only."),
 "C10": dict(cat="exploration", tech="bounded run-time contract only (generated C++ scanner, no C/C++ verifier installed)", ref="3/C10",
   text="BOUNDED stand-in, not a proof: tiling contract on utoken.scan exhaustively over all sequences of <= 3 (quick) / 4 (thorough) lexemes, deep sequences over small blank / newline alphabets (line structure), plus random longer strings.",
   note="Nothing is proved."),
 "C11": dict(cat="proof", tech=T + "; static data-flow obligation", ref="3/C11",
   text="Proved (unbounded, with loop invariants): split_blocks concatenates back to the list with blocks of 1..limit entries and terminates for limit >= 1; get_block removes exactly the returned block; enqueue_missing makes scheduled the union and enqueues each new item exactly once. Static + run-time contract: _lookup_contributors stores the authors of the titles it requested. get_contributors/merge_data/get_authors store exactly the reported non-bot names and the anonymous count for any chunking of the answer. handle_new_basepath loses no (title, url) registration across its greenlet switch. Bounded: collect_page_data on page-entry shapes (missing pages), contributor lookups under every release order of concurrent API answers. Closure and termination of the greenlet fan-out are NOT covered.",
   note="Requires api_request_limit >= 1. No stand-in for the orchestration as a whole (it needs a synthetic wiki behind the API: a simulation, another family)."),
 "C12": dict(cat="proof", tech="configuration and Unicode lemmas decided exactly on every run" + B, ref="3/C12",
   text="Decided exactly: the namespace tables of all 12 bundled sites are consistent (keys = ids, names canonical, lookups unambiguous) and first-letter capitalisation is idempotent for every code point - the premises of idempotence. Proved for all titles on every bundled site table: splitname never raises, reports a namespace of the site, full = local name + ':' + partial, default / main namespace without a prefix. The rest of the contract (canonical spelling, idempotence, spelling invariance) is checked exhaustively on enumerated titles only.",
   note="Domain precondition: titles that start with ':' after the optional leading colon, or are empty, are not page titles."),
 "C13": dict(cat="proof", tech=T + "; static obligations on the serialisation call sites" + B, ref="3/C13",
   text="Proved: MetabookObject._json returns type + exactly the public non-None attributes; static: sort_keys dump, checksum = sha256(dumps), object_hook table covers every metabook class, per-instance deep copy of defaults, reads-frame of make_collection_id. Round trip / fixed point / id invariance on generated metabooks are bounded.",
   note="json and sha256 are trusted library contracts; MetabookObject.__init__ (reflection) is not under contract."),
 "C14": dict(cat="proof", tech=T + " (lemmas over the record format and the file-name code), static ties to the code" + B, ref="3/C14",
   text="Proved as lemmas: a record contains no spurious separator and splits back into header and text; the per-character code of fs_escape is prefix-free and the induction step of injectivity holds; static: both sides use the same separator literal and fs_escape. fs_escape's loop appends exactly the code of each character (loop contract replacing a text match); NuWiki._get_page by title consults the redirect table first. The composition write -> zip -> read (newest revision per title, spellings, stored redirect stubs) is bounded.",
   note="Known finding kept out of the lemma: texts starting with form feed + ' --page-- '."),
 "C15": dict(cat="proof", tech=T + " with a ghost file system" + B, ref="3/C15",
   text="extract_member/extractall verified for all member names and destinations: every FS effect lies under the destination, rejected members leave no effect; extractall is checked against extract_member's contract through a loop invariant; MultiEnvironment._validate_wiki_id accepts only identifiers that name a direct sub-directory of the extraction directory (non-empty, no '/', no '..').",
   note="Trusted: POSIX os.path join/normpath/abspath/dirname contracts (re-validated against posixpath on the bounded domain every run); no symlinks in a fresh destination."),
 "C16": dict(cat="proof", tech=T + ": inductive invariant over the atomic (between-yield) segments of the real gevent code" + B, ref="3/C16",
   text="Every atomic segment of qs/jobs.py / qs/qserve.py (push, pushjob, rpc_qpull before/after the yield and on GreenletExit, rpc_qfinish, rpc_qkill, shutdown, handletimeouts, dropdead), started in any state satisfying the invariant 'every known unfinished job is in exactly one place', ends in such a state; rpcserver.handle_client reaches the request handler's shutdown() (the re-queueing of a dropped connection's jobs) on every exit incl. I/O errors; pushjob is verified against an exact transition contract that its callers use. Holds for every schedule because control changes hands only at the yield.",
   note="Trusted: cooperative scheduling, heapq/min/random.choice/gevent contracts on abstract views. Rely of the suspended puller = closure of per-segment guarantees that are themselves obligations."),
 "C17": dict(cat="proof", tech=T + B, ref="3/C17",
   text="Proved: job order = (priority, serial) lexicographic and strict total; _mark_finished / finishjob finality and exactly-one-counter; pop returns an unfinished job of a requested channel that is minimal among candidates; add under an existing id changes nothing; shutdown re-queues only unfinished jobs; every segment of C16 re-verified under the invariant extended by I14 (handed job is of a requested channel), I15 (finish event set iff done) and I16 (an unfinished job has a timeout entry). The job a *resumed* puller receives can be finished: known finding.",
   note="As C16; _preenall's iteration is assumed (its body _preenjobq is verified)."),
 "C18": dict(cat="proof", tech=T + B, ref="3/C18",
   text="job and workq __getstate__/__setstate__ verified from every state satisfying the invariant: fields preserved, fresh event set iff done, every unfinished job queued exactly once with its timeout, finished jobs registered, counter restored, invariant re-established; Main.savedb always writes the state. Bounded stand-in: a restart at any point of a history is not observable (same jobs, outcomes incl. later time-outs, hand-out order).",
   note="Trusted: pickle rebuilds the graph through these methods."),
 "C19": dict(cat="proof", tech=T + "; lemmas over the job-id templates" + B, ref="3/C19",
   text="do_render_status verified as the exact function of the two job snapshots the statement describes, querying only its own job ids; job-id templates injective; download file name proved header-safe (printable ASCII, no whitespace, no delimiter). Bounded stand-in: the status served over histories of the real queue (kill / re-add / finish with result and error) equals the state of the render job.",
   note="Trusted: qinfo returns job._json() or None; NFKD/ASCII contract validated for every code point on every run."),
 "C20": dict(cat="proof", tech=T + " with a ghost file system, I/O-error injection at every call; static protocol obligations for render()" + B, ref="3/C20",
   text="Status.dump, ZipCreator.create_zip and make_zip verified on every path incl. injected I/O errors: the published path is never opened for writing, only ever replaced by rename of a closed temp file from the same directory, temp unlinked on error. render(): static protocol obligations, among them that the name handed to the writer is bound only from mkstemp (never the published path). download_with_retries: the destination only ever receives a complete file (retry loop invariant + variant, chunk loop); shutil.move modelled with its cross-file-system copy fallback; ZipCreator._write_zip's body: an I/O error while adding a member propagates. Bounded: concurrent image downloads share no destination / temp file.",
   note="Trusted: rename atomicity, writers write only their output path, mkstemp names differ from the published path."),
}
NA = {
 "C08": "not applicable: the statement is about text extracted from a PDF laid out by reportlab (floats, fonts, binary output, external tools) and odflint on an odfpy package; no function between the archive and the PDF has a contract an SMT-backed generator for a Python subset can state or decide, and a bounded stand-in would be an end-to-end rendering test (a different family)",
}
checks = []
for p in props:
    if p in CHECKS:
        c = CHECKS[p]
        checks.append({"property_id": p, "quick_cmd": f"./check {p} --tier quick", "thorough_cmd": f"./check {p} --tier thorough",
                       "evidence_file": f"evidence/{p}.json", "replay_cmd_template": f"./check {p} --replay {{path}}",
                       "engine": "pyvc", "level_claimed": {"category": c["cat"], "text": c["text"], "design_ref": c["ref"]},
                       "level_note": c["note"], "technique": c["tech"]})
na = [{"property_id": p, "reason": NA.get(p, "check not built (see DESIGN.md)")} for p in props if p not in CHECKS]
m = {"version": 1, "setup_cmd": "./setup.sh",
     "hooks": {"guard": "MWLIB_VERIF", "enable": "no hooks: contracts live in sidecars under /verif/contracts; checks read /repo/src at run time",
               "baseline_off_cmd": "cd /repo && /venv/bin/python -m pytest -ra -q -p no:cacheprovider --timeout=900 --continue-on-collection-errors",
               "source_commits": [], "add_only": True},
     "engines": [{"name": "pyvc", "path": "pyvc/", "serves_properties": sorted(CHECKS),
                  "kind_free_text": "verification-condition generator over the real Python AST (symbolic interpreter with contracts, loop invariants, ghost state), discharged by z3 5.1 / cvc5 1.0.3; static obligation classes; bounded harness as labelled stand-in"}],
     "checks": checks, "not_applicable": na,
     "notes": "exit codes of ./check: 0 held, 1 VIOLATION, 2 undecided (engine limit / solver unknown), 3 checker error"}
json.dump(m, open(os.path.join(V, "MANIFEST.json"), "w"), indent=1)
print("checks:", [c["property_id"] for c in checks])
