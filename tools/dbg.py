"""debug helper: tools/dbg.py <sidecar> <function> [dump-filter]  -- explores, prints path/VC counts, optionally dumps smt2"""
import sys, os, time
sys.path.insert(0, os.path.dirname(os.path.dirname(os.path.abspath(__file__))))
from pyvc.run import Check
import importlib
from collections import Counter
mod = importlib.import_module('contracts.' + sys.argv[1])
chk = Check(sys.argv[1].upper())
t = time.time()
getattr(mod, sys.argv[2])(chk)
print("paths", chk.paths, "vcs", len(chk.vcs), "undecided", len(chk.undecided), "t %.1f" % (time.time() - t))
print(Counter(v.name for v in chk.vcs).most_common(60))
for u in chk.undecided[:10]:
    print(u)
if len(sys.argv) > 3:
    os.makedirs('/tmp/vcs', exist_ok=True)
    for i, v in enumerate(chk.vcs):
        if sys.argv[3] in v.name:
            open(f'/tmp/vcs/{i}_{v.name}.smt2', 'w').write(v.smt2)
