#!/bin/bash
# tools/withseed.sh <seed-dir> <command...> : run a command with VERIF_REPO / PYTHONPATH pointing at a scratch worktree carrying the seed's patch
SEED=$1; shift
WT=$(mktemp -d /tmp/wt_with_XXXX); rmdir $WT
git -C /repo worktree add -q --detach $WT HEAD || exit 9
(cd /repo/src && find . -name "*.so" | while read f; do cp $f $WT/src/$f; done)
git -C $WT apply $SEED/patch.diff || { echo "PATCH DOES NOT APPLY"; git -C /repo worktree remove --force $WT; exit 8; }
(cd /verif && VERIF_REPO=$WT PYTHONPATH=$WT/src VERIF_NO_EVIDENCE=1 "$@")
rc=$?
git -C /repo worktree remove --force $WT
exit $rc
