#!/usr/bin/env python3
"""Run a check against a scratch copy of /repo/src with one textual edit applied.

  tools/mutant.py <relfile> <old> <new> -- ./check C15 [--tier quick]

The copy lives in a mkdtemp directory outside /repo and /verif and is removed afterwards.
The engine reads sources from $VERIF_REPO/src; replays import from it through PYTHONPATH.
(.pyx/.cc edits are not rebuilt here: only proof obligations see them.)
"""
import os, shutil, subprocess, sys, tempfile

def main():
    a = sys.argv[1:]
    i = a.index("--")
    rel, old, new = a[:i]
    cmd = a[i + 1:]
    tmp = tempfile.mkdtemp(prefix="mwlib_mut_")
    try:
        shutil.copytree("/repo/src", os.path.join(tmp, "src"), ignore=shutil.ignore_patterns("*.ttf", "*.otf", "__pycache__"))
        p = os.path.join(tmp, "src", rel)
        s = open(p).read()
        if s.count(old) != 1:
            print(f"mutant: pattern occurs {s.count(old)} times in {rel}", file=sys.stderr)
            return 99
        open(p, "w").write(s.replace(old, new))
        env = dict(os.environ, VERIF_REPO=tmp, PYTHONPATH=os.path.join(tmp, "src"), VERIF_NO_EVIDENCE="1")
        return subprocess.call(cmd, env=env, cwd="/verif")
    finally:
        shutil.rmtree(tmp, ignore_errors=True)

sys.exit(main())
