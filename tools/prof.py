"""profile the exploration of one sidecar function: tools/prof.py c16 seg_pushjob_new [seconds]"""
import sys, os, cProfile, pstats, signal, importlib
sys.path.insert(0, os.path.dirname(os.path.dirname(os.path.abspath(__file__))))
from pyvc.run import Check
m = importlib.import_module("contracts." + sys.argv[1])
chk = Check(sys.argv[1].upper())
def stop(*a): raise KeyboardInterrupt
signal.signal(signal.SIGALRM, stop); signal.alarm(int(sys.argv[3]) if len(sys.argv) > 3 else 60)
pr = cProfile.Profile(); pr.enable()
try:
    getattr(m, sys.argv[2])(chk)
except KeyboardInterrupt:
    pass
pr.disable()
print("paths", chk.paths, len(chk.vcs))
for v in chk.vcs[:8]: print(v.name, v.meta, len(v.smt2))
pstats.Stats(pr).sort_stats("cumtime").print_stats(22)
