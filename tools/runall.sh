#!/bin/bash
# runs the quick tier of every check listed (default: all registered), prints exit code and time
cd "$(dirname "$0")/.."
IDS=${@:-$(python3 -c "import json;print(' '.join(c['property_id'] for c in json.load(open('MANIFEST.json'))['checks']))")}
for id in $IDS; do
  s=$(date +%s); ./check $id --tier quick > /tmp/runall_$id.log 2>&1; rc=$?; e=$(date +%s)
  echo "$id exit=$rc secs=$((e-s)) $(grep -c '^VIOLATION' /tmp/runall_$id.log) violations, $(grep -c '^KNOWN-FINDING' /tmp/runall_$id.log) known"
done
