#!/bin/bash
# tools/seedrun.sh <prop> <seed-dir> [check-prop ...] : confirm a seeded change in a scratch worktree and run checks against it
# (the worktree lives under /tmp and is removed afterwards; /repo itself is not touched)
PROP=$1; SEED=$2; shift 2; CHECKS=${@:-$PROP}
WT=$(mktemp -d /tmp/wt_confirm_XXXX)
rmdir $WT
git -C /repo worktree add -q --detach $WT HEAD || exit 9
(cd /repo/src && find . -name "*.so" | while read f; do cp $f $WT/src/$f; done)
echo "== clean demo"; (cd $WT && PYTHONPATH=$WT/src timeout 300 /venv/bin/python $SEED/demo.py >/dev/null 2>&1; echo "demo_clean_exit=$?")
if ! git -C $WT apply $SEED/patch.diff 2>/dev/null; then
  if ! git -C $WT apply --3way $SEED/patch.diff 2>/dev/null; then echo "PATCH DOES NOT APPLY"; git -C /repo worktree remove --force $WT; exit 8; fi
fi
echo "== seeded demo"; (cd $WT && PYTHONPATH=$WT/src timeout 300 /venv/bin/python $SEED/demo.py 2>&1 | tail -2; echo "demo_seeded_exit=${PIPESTATUS[0]}")
echo "== suite"; (cd $WT && PYTHONPATH=$WT/src /venv/bin/python -m pytest -q -p no:cacheprovider --timeout=900 --continue-on-collection-errors tests 2>&1 | tail -1)
for c in $CHECKS; do
  echo "== check $c"; (cd /verif && VERIF_REPO=$WT PYTHONPATH=$WT/src VERIF_NO_EVIDENCE=1 timeout 1500 ./check $c 2>&1 | grep -E "^VIOLATION|^$c |^UNDECIDED|^CHECKER|^KNOWN" | sed 's/replay=[^ ]*//' | cut -c1-260 | head -8)
done
git -C /repo worktree remove --force $WT
