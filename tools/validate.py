#!/usr/bin/env python3
import json, sys, glob, os, jsonschema
V = os.path.dirname(os.path.dirname(os.path.abspath(__file__)))
jsonschema.validate(json.load(open(f"{V}/MANIFEST.json")), json.load(open("/root/.vp/MANIFEST.schema.json")))
es = json.load(open("/root/.vp/EVIDENCE.schema.json"))
for f in sorted(glob.glob(f"{V}/evidence/*.json")):
    jsonschema.validate(json.load(open(f)), es); print("ok", os.path.basename(f))
print("manifest ok")
