"""Documents built around the attribute / class / id values and table shapes that switch
individual cleaner passes on (the quantifier of C06: overflow:auto, region_list, noprint
classes, absolute positioning, wide / nested / single-column tables, named references),
each trigger x table shapes x caption shapes x amount of preceding text; plus short
sequences of blank inline siblings (line-break repair)."""
import itertools

BLANKS = ["<br/>", '<span id="a"> </span>', '<span class="b"> </span>', "x", " ", "<b> </b>", "<i></i>", "\n", "<span> </span>"]


def trigger_documents(tier):
    out = []
    long_text = ("lorem ipsum dolor sit amet " * 12).strip()
    attrs = ["", ' class="mp-upper"', ' id="mp-upper"', ' style="overflow:auto;height:200px"', ' class="noprint"',
             ' style="position:absolute"', ' class="infobox"', ' class="wikitable" width="100%"', ' class="navbox"']
    bold = "'" * 3
    ital = "'" * 2
    captions = ["", "|+ Cap\n", f"|+ Results {ital}overview{ital} for {bold}2009{bold}\n",
                f"|+ a {ital}b{ital} c {bold}d{bold} e [[f]]\n"]
    for pre in ("", long_text + "\n\n"):
        for attr in attrs:
            for cap in captions:
                for cols in (1, 2, 3):
                    for rows in (1, 2, 3):
                        body = ""
                        for r in range(rows):
                            body += "|-\n"
                            for c in range(cols):
                                if (r, c) == (0, 0):
                                    body += f'| c{r}{c} <ref name="n">r</ref>\n'
                                else:
                                    body += f"| cell {r} {c}\n"
                        out.append(f"{pre}{{|{attr}\n{cap}{body}|}}\n\nafter")
    big = ("word " * 120).strip()
    nested = "{|\n|-\n| " + big + "\n|-\n| second row\n|}"
    for pre in ("", long_text + "\n\n"):
        out.append(f"{pre}{{|\n|-\n|\n{nested}\n|}}\n")                 # 1x1 table holding a nested table
        out.append(f"{pre}{{|\n|-\n|\n{nested}\n|\n{nested}\n|}}\n")
        out.append(f'{pre}{{| class="wikitable"\n|-\n|\n{{| border=1\n| a\n|}}\n{{| border=1\n| b\n|}}\n{{| border=1\n| c\n|}}\n| x\n|}}\n')
        out.append(f'{pre}<div id="region_list">\n{{|\n|-\n| a || b\n|}}\n</div>')
        out.append(f'{pre}<div style="overflow:auto;height:200px">\n{{|\n|-\n| a || b\n|}}\n</div>')
        out.append(f"{pre}== S ==\n\n== T ==\npara\n\n<references/>")
    # several scrolling elements inside one table (each of them makes remove_scroll_elements dissolve the table)
    sc = 'style="overflow:auto;height:200px"'
    out.append(f"{{|\n|-\n| {sc} | a\n| {sc} | b\n|}}\n")
    out.append(f"{{|\n|-\n| <div {sc}>a</div>\n| <div {sc}>b</div>\n|-\n| <div {sc}>c</div> || d\n|}}\n")
    out.append(f"{{| {sc}\n|-\n| {sc} | a\n|}}\n")
    # a scrolling element inside a NESTED table (the outermost table is dissolved)
    out.append(f"{{|\n|-\n|\n{{|\n|-\n| {sc} | <br/>\n|}}\n|}}\n")
    out.append(f"{{|\n|-\n|\n{{|\n|-\n| {sc} | text<ref name=\"a\"/> more\n| second\n|}}\n| outer\n|}}\n")
    out.append(f"{{|\n|-\n| <div {sc}>scroll</div> ||\n{{|\n|-\n| c1 || c2\n|-\n| d1 ||\n{{| border=\"1\"\n|-\n| e1 || e2\n|-\n| f1 || f2\n|}}\n|}}\n|}}\n")
    # a bordered table inside a table caption (no Cell ancestor), below a 2-column table that is not an infobox
    bt = "<table border=1><tr><td>x</td><td>y</td></tr><tr><td>x</td><td>y</td></tr></table>"
    out.append(f"{long_text * 2}\n\n{{|\n|+ {bt}\n|-\n| a || b\n|}}\n")
    out.append(f"{long_text * 2}\n\n<table><caption>{bt}</caption><tr><td>a</td><td>b</td></tr></table>\n")
    # a colspan / rowspan value as the size of what a pass allocates (the table is split: class, big cells)
    for n in ("1000000000", "20000000", "99999999999999999999"):
        out.append(f'{long_text * 2}\n\n{{| class="mp-upper"\n|-\n| colspan={n} | a\n| b\n|-\n| c || d\n|}}\n')
        out.append(f'{long_text * 2}\n\n{{| class="mp-upper"\n|-\n| rowspan={n} | a\n| b\n|-\n| c || d\n|}}\n')
        out.append(f'{long_text * 2}\n\n{{|\n|-\n| colspan="{n}" | ' + ("word " * 600) + '\n| b\n| c\n|}\n')
    # span values that look like numbers to some predicates and not to int(): superscripts, circled digits, other scripts,
    # signs, blanks, more digits than int() accepts
    for v in ("\u00b2", "\u2460", "\u0663", "+2", "-2", " 2 ", "2.0", "1e3", "0x10", "2" * 5000, "", "\u00bd", "\uff12", "1_0"):
        for key in ("colspan", "rowspan"):
            out.append(f'{{|\n|-\n| {key}="{v}" | a\n| b\n|-\n| c || d\n|}}\n')
    # html lists with stray (non-item) children, runs of 1..5, before / between / after the items
    strays = ["some", "<b>bold</b>", "text", "<i>it</i>", "[[link]]"]
    for tag in ("ul", "ol"):
        for k in range(1, 6):
            run = " ".join(strays[:k])
            out.append(f"<{tag}>{run}<li>a</li></{tag}>")
            out.append(f"<{tag}><li>a</li>{run}<li>b</li></{tag}>")
            out.append(f"<{tag}><li>a</li>{run}</{tag}>")
            out.append(f"<{tag}>{run}</{tag}>")
        out.append(f"<{tag}><{tag}>x y z<li>a</li></{tag}>p q r</{tag}>")
    out.append("<dl>some <b>bold</b> text<dt>t</dt>more <i>x</i> y<dd>d</dd>tail a b</dl>")
    # the scrolling style on every kind of element that can carry a style (the pass dissolves the element)
    for el, inner in (("ul", "<li>a</li><li>b</li>"), ("ol", "<li>a</li><li>b</li>"), ("li", "a"), ("dl", "<dt>t</dt><dd>d</dd>"), ("dd", "d"), ("dt", "t"),
                      ("div", "x"), ("blockquote", "x"), ("p", "x"), ("span", "x"), ("center", "x"), ("pre", "x"), ("caption", "x"), ("tr", "<td>x</td>"),
                      ("td", "x"), ("th", "x"), ("h2", "x"), ("big", "x"), ("gallery", "\nImage:x.png|c\n")):
        out.append(f"before <{el} {sc}>{inner}</{el}> after")
        out.append(f"<ul><li>k<{el} {sc}>{inner}</{el}></li></ul> after")
    # attribute values that are numbers written in the wikitext
    out.append('intro\n\n{|\n|-\n| colspan="99999999999" | ' + ("word " * 600) + '\n| b\n| c\n|}\n')
    out.append('intro\n\n{|\n|-\n| colspan="3000000" | ' + ("word " * 1100) + '\n| b\n|}\n')
    out.append('{|\n|-\n| rowspan="99999999999" | a\n| b\n|-\n| c\n|}\n')
    # a table row whose cells hold only lists of different lengths (split_table_lists pads the shorter columns)
    for la, lb in ((7, 2), (6, 5), (8, 0), (7, 3)):
        ca = "\n".join(f"* a{i}" for i in range(la))
        cb = "\n".join(f"* b{i}" for i in range(lb))
        out.append(f"{{|\n|-\n|\n{ca}\n|\n{cb}\n|\n* c0\n* c1\n* c2\n|}}\n")
    # captions of tables that get dissolved (single cell / single column), also holding a list or a nested table
    out.append("<table><caption><ul><li>a</li></ul></caption><tr><td>x</td></tr></table>")
    out.append("{|\n|+ cap ''tion''\n|-\n| only cell\n|}\n")
    out.append("<table><table><caption><table><td>u")
    out.append("{|\n|+ cap\n|-\n|\n{|\n|+ inner cap\n|-\n| inner cell\n|}\n|}\n")
    # lengths in every unit the style parser knows, and in none (scale_length)
    for h in ("300px", "300pt", "30em", "50%", "300", "auto", "", "1e3px", "-5px"):
        out.append(f'<div style="overflow:auto; height:{h}">scrolling text</div>\n\nafter')
        out.append(f'{{|\n|-\n| <div style="overflow:auto; height:{h}; width:{h}">x</div> || y\n|}}\n')
    # a table inside an image caption, directly and below one more wrapper (remove_broken_children)
    for wrap in ("{}", "<center>{}</center>", "<div>{}</div>", "<center><div>{}</div></center>"):
        inner = wrap.format("\n{|\n|-\n| a || b\n|-\n| c || d\n|}\n")
        out.append(f"[[File:x.png|thumb|{inner}]]\n\ntext")
        out.append(f"[[File:x.png|thumb|caption {inner} more]]\n\ntext")
    for n in (2, 3, 4):
        for t in itertools.product(BLANKS, repeat=n):
            out.append("x" + "".join(t) + "y")
    return out


def rtl_documents():
    """formulas in every kind of parent (fix_math_dir writes the parent's attributes), for TreeCleaner(rtl=True)"""
    m = "<math>x</math>"
    return [m, f"<ul>{m}</ul>", f"<ol>{m}</ol>", f"* {m}", f": {m}", f"; a : {m}", f"<dl>{m}</dl>", f"{{|\n|-\n| {m}\n|}}", f"{{|\n|+ {m}\n|-\n| a\n|}}",
            f"== {m} ==", f"<div>{m}</div>", f"<ul><li>{m}</ul>", f"a {m} b", f"<gallery>\nImage:x.png|{m}\n</gallery>", f"<ref>{m}</ref>",
            f"<blockquote>{m}</blockquote>", f"<center>{m}</center>", f" {m}", f"<poem>{m}</poem>", f"[[Image:x.png|thumb|{m}]]"]
