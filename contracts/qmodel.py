"""Abstract state, library contracts and the global invariant for the queue server
(qs/jobs.py, qs/qserve.py) - shared by C16, C17, C18.

The *code* that runs is the real AST of qs/jobs.py / qs/qserve.py.  The *state* it runs on
is abstract: jobs, events and async results are references (Int; 0 is None) with one SMT
array per field; dicts/heaps/lists of the workq are views (set / multiset / map arrays).
The contracts of dict, list, heapq, random.choice and gevent.event on these views are the
trusted base of C16-C18 and are listed in the evidence.
"""
import ast

import z3

from pyvc.interp import Explorer, Undecided, SymRaise, LoopSpec, Forall, PathCut
from pyvc.schema import Typing
from pyvc.values import (PObj, SRef, SInt, SBool, SStr, SReal, Sym, Model, BoundMethod, ClassRef, Closure, ExcVal,
                         ExcClass, z3_of, kind_of)
from pyvc import source

JOBS = "qs/jobs.py"
QSERVE = "qs/qserve.py"

Z, Bo, Re, Sx = z3.IntSort(), z3.BoolSort(), z3.RealSort(), z3.StringSort()


def A(d, r):
    return z3.ArraySort(d, r)


FIELDS = {
    # job fields (class-level defaults of `job` are applied at allocation)
    "j_done": A(Z, Bo), "j_serial": A(Z, Z), "j_jobid": A(Z, Z), "j_prio": A(Z, Z), "j_chan": A(Z, Z),
    "j_err_none": A(Z, Bo), "j_err": A(Z, Sx), "j_timeout": A(Z, Re), "j_event": A(Z, Z), "j_ttl": A(Z, Z),
    "j_deadline": A(Z, Z), "j_drop": A(Z, Bo), "j_result": A(Z, Z), "j_info": A(Z, Z), "j_payload": A(Z, Z),
    # gevent Event / AsyncResult
    "e_set": A(Z, Bo), "a_ready": A(Z, Bo), "a_value": A(Z, Z), "a_watch": A(Z, A(Z, Bo)), "a_any": A(Z, Bo),
    # workq
    "count": Z, "id_has": A(Z, Bo), "id_val": A(Z, Z), "q_has": A(Z, Bo), "Q": A(Z, A(Z, Z)), "W": A(Z, Bo),
    "TQ": A(Z, Z), "c_has": A(Z, Bo), "c_error": A(Z, Z), "c_timeout": A(Z, Z), "c_killed": A(Z, Z),
    "c_success": A(Z, Z),
    # per-connection running jobs
    "R_has": A(Z, A(Z, Bo)), "R_val": A(Z, A(Z, Z)),
    # allocation counter (one pool for every reference => references of different objects differ)
    "alloc": Z,
    # ghost: which waiter holds job j (0 none) / which connection pulled it (0 none); finished counter
    "holder": A(Z, Z), "conn": A(Z, Z), "g_finished": Z,
    # ghost: class tag of a reference (one allocation pool for jobs, events, async results)
    "is_job": A(Z, Bo),
    # ghost: the job a finish event belongs to (events are not shared between jobs)
    "ev_owner": A(Z, Z),
}

JOB_FIELD = {  # python attribute -> (state array, kind)
    "done": ("j_done", "bool"), "serial": ("j_serial", "optint"), "jobid": ("j_jobid", "optint"),
    "priority": ("j_prio", "int"), "channel": ("j_chan", "int"), "timeout": ("j_timeout", "real"),
    "finish_event": ("j_event", "ref:event"), "ttl": ("j_ttl", "int"), "deadline": ("j_deadline", "optint"),
    "drop": ("j_drop", "bool"), "result": ("j_result", "json"), "info": ("j_info", "json"),
    "payload": ("j_payload", "json"), "error": (None, "error"),
}


INDEX_TYPES = {k: ("job",) for k in FIELDS if k.startswith("j_")}
INDEX_TYPES.update({"e_set": ("event",), "a_ready": ("waiter",), "a_value": ("waiter",), "a_watch": ("waiter", "chan"),
                    "a_any": ("waiter",), "id_has": ("id",), "id_val": ("id",), "q_has": ("chan",), "Q": ("chan", "job"),
                    "W": ("waiter",), "TQ": ("job",), "c_has": ("chan",), "c_error": ("chan",), "c_timeout": ("chan",),
                    "c_killed": ("chan",), "c_success": ("chan",), "R_has": ("conn", "id"), "R_val": ("conn", "id"),
                    "holder": ("job",), "conn": ("job",), "is_job": ("job",), "ev_owner": ("event",)})
VALUE_TYPES = {"ev_owner": "job", "a_value": "job", "id_val": "job", "R_val": "job", "holder": "waiter", "conn": "conn", "j_chan": "chan",
               "j_jobid": "id", "j_event": "event"}
TYPING = Typing(INDEX_TYPES, VALUE_TYPES, {"heap_min": "job", "timeoutq_min": "job"})
VAR_TYPES = ["job", "waiter", "chan", "conn", "id"]


class State:
    """named z3 terms; one per path, mutated by the models"""

    def __init__(self, I, prefix):
        self.t = {k: I.fresh(prefix + k, s) for k, s in FIELDS.items()}

    def copy(self):
        s = State.__new__(State)
        s.t = dict(self.t)
        return s

    def __getitem__(self, k):
        return self.t[k]

    def __setitem__(self, k, v):
        self.t[k] = v


def st(I):
    return I.ghost["S"]


def sel2(arr, a, b):
    return z3.Select(z3.Select(arr, a), b)


def store2(arr, a, b, v):
    return z3.Store(arr, a, z3.Store(z3.Select(arr, a), b, v))


# ----------------------------------------------------------------------------- order on jobs (contract of job.__lt__)
def lt(S, a, b):
    pa, pb = z3.Select(S["j_prio"], a), z3.Select(S["j_prio"], b)
    sa, sb = z3.Select(S["j_serial"], a), z3.Select(S["j_serial"], b)
    return z3.Or(pa < pb, z3.And(pa == pb, sa < sb))


# ----------------------------------------------------------------------------- abstract containers
class JsonVal(PObj):
    pass


def json_of(I, ident):
    """opaque JSON value with identity `ident` (0 is None)"""
    return PObj("json", {"id": ident})


class IdDict(PObj):
    """dict jobid -> job (id2job; running_jobs of one connection when `conn` is given)"""

    def __init__(self, conn=None):
        super().__init__("iddict", {})
        self.conn = conn

    def has(self, I, k):
        S = st(I)
        return z3.Select(S["id_has"], k) if self.conn is None else sel2(S["R_has"], self.conn, k)

    def val(self, I, k):
        S = st(I)
        return z3.Select(S["id_val"], k) if self.conn is None else sel2(S["R_val"], self.conn, k)

    def set(self, I, k, v):
        S = st(I)
        if self.conn is None:
            S["id_has"] = z3.Store(S["id_has"], k, True)
            S["id_val"] = z3.Store(S["id_val"], k, v)
        else:
            S["R_has"] = store2(S["R_has"], self.conn, k, True)
            S["R_val"] = store2(S["R_val"], self.conn, k, v)
            # ghost: the job is now held by this connection (and by no waiter)
            S["conn"] = z3.Store(S["conn"], v, self.conn)

    def delete(self, I, k):
        S = st(I)
        if self.conn is None:
            S["id_has"] = z3.Store(S["id_has"], k, False)
        else:
            old = sel2(S["R_val"], self.conn, k)
            S["R_has"] = store2(S["R_has"], self.conn, k, False)
            S["conn"] = z3.Store(S["conn"], old, z3.If(z3.Select(S["conn"], old) == self.conn, z3.IntVal(0),
                                                      z3.Select(S["conn"], old)))


def key_term(I, k):
    if k is None:
        return z3.IntVal(0)
    if isinstance(k, (SInt, int)) and not isinstance(k, bool):
        return z3_of(k)
    raise Undecided(f"job id key {k!r}")


class HeapView(PObj):
    """channel2q[c]: a heap of jobs = multiset of job references; q[0] is a minimum"""

    def __init__(self, chan):
        super().__init__("jobheap", {})
        self.chan = chan

    def counts(self, I):
        return z3.Select(st(I)["Q"], self.chan)


heap_min = z3.Function("heap_min", A(Z, Z), A(Z, Z), A(Z, Z), Z)   # (counts, prio, serial) -> a minimal member
tq_min = z3.Function("timeoutq_min", A(Z, Z), A(Z, Re), Z)
pick = z3.Function("pick_member", A(Z, Bo), Z)
heap_size = z3.Function("heap_size", A(Z, Z), Z)
dict_size = z3.Function("dict_size", A(Z, Bo), Z)


def heap_head(I, counts):
    """contract of heapq on a list kept as a heap w.r.t. a strict total order: if the
    multiset is non-empty, q[0] is a member and no member is smaller"""
    S = st(I)
    prio, serial = S["j_prio"], S["j_serial"]
    m = heap_min(counts, prio, serial)

    def ax(x):
        px, pm = z3.Select(prio, x), z3.Select(prio, m)
        sx, sm = z3.Select(serial, x), z3.Select(serial, m)
        return z3.Implies(z3.Select(counts, x) > 0,
                          z3.And(z3.Select(counts, m) > 0, z3.Not(z3.Or(px < pm, z3.And(px == pm, sx < sm)))))
    I.assume(Forall(["job"], ax, "heapq_min"))
    return m


def tq_head(I):
    S = st(I)
    tq, tmo = S["TQ"], S["j_timeout"]
    m = tq_min(tq, tmo)
    I.assume(Forall(["job"], lambda x: z3.Implies(z3.Select(tq, x) > 0,
                                                   z3.And(z3.Select(tq, m) > 0, z3.Select(tmo, m) <= z3.Select(tmo, x))),
                    "timeoutq_min"))
    return m


TYPE_OF_CLS = {"asyncresult": "waiter", "job": "job"}


class RefSet(PObj):
    """a python list used as a set of references (alternatives, heads)"""

    def __init__(self, arr, cls):
        super().__init__("refset", {})
        self.arr = arr
        self.elem_cls = cls


def as_set_term(v):
    """interpret a python list of references or a RefSet as a set array"""
    if isinstance(v, RefSet):
        return v.arr
    if isinstance(v, list):
        arr = z3.K(Z, False)
        for x in v:
            arr = z3.Store(arr, x.z, True)
        return arr
    raise Undecided(f"not a reference set: {v!r}")


class Channels(PObj):
    """the `channels` argument of pop: a list of channel ids, abstracted to a set + empty flag"""

    def __init__(self, member, empty):
        super().__init__("channels", {})
        self.member = member
        self.empty = empty
        self.iter_state = set_iter(lambda I: self.member, lambda I, c: SInt(c), "chan")


def set_iter(member, wrap, typ, on_take=None, stable=True):
    """iteration protocol over an abstract set of `typ` references: visited set V, each step
    takes an unvisited member, on exit every member has been visited"""
    def mk(I):
        state = {}

        def havoc(I2):
            V = state["V"] = I2.fresh(f"visited@{typ}", A(Z, Bo))
            if stable:
                # the iterated set is not modified by the loop: visited elements are members
                m = member(I2)
                I2.assume(Forall([typ], lambda y: z3.Implies(z3.Select(V, y), z3.Select(m, y)), "visited_are_members"))

        def has_next(I2):
            nxt = I2.fresh(f"next@{typ}", Z)
            state["next"] = nxt
            return z3.And(z3.Select(member(I2), nxt), z3.Not(z3.Select(state["V"], nxt)))

        def take(I2):
            x = state["next"]
            state["V"] = z3.Store(state["V"], x, True)
            if on_take:
                on_take(I2, x)
            return wrap(I2, x)

        def at_exit(I2):
            m = member(I2)
            V = state["V"]
            I2.assume(Forall([typ], lambda y: z3.Implies(z3.Select(m, y), z3.Select(V, y)), "all_members_visited"))
        state.update(havoc=havoc, has_next=has_next, take=take, at_exit=at_exit)
        state["V"] = z3.K(Z, False)
        return state
    return mk


def any_seq_iter(wrap, typ="id"):
    """iteration over an arbitrary (caller supplied) finite sequence: every step yields an
    arbitrary element"""
    def mk(I):
        state = {}
        state.update(havoc=lambda I2: None,
                     has_next=lambda I2: I2.fresh("more", Bo),
                     take=lambda I2: wrap(I2, I2.fresh(f"elem@{typ}", Z)),
                     at_exit=lambda I2: None)
        state["V"] = z3.K(Z, False)
        return state
    return mk


class AbsIter(PObj):
    def __init__(self, name, mk):
        super().__init__(name, {})
        self.iter_state = mk


# ----------------------------------------------------------------------------- installation
def install(ex):
    jobs_mod = source.module(JOBS)
    job_cls = ClassRef(jobs_mod.defs["job"], jobs_mod)
    workq_cls = ClassRef(jobs_mod.defs["workq"], jobs_mod)

    # ---- heap references
    def heap_getattr(I, ref, name):
        S = st(I)
        if ref.cls == "job":
            if name in JOB_FIELD:
                arr, kind = JOB_FIELD[name]
                if kind == "bool":
                    return SBool(z3.Select(S[arr], ref.z))
                if kind == "int":
                    return SInt(z3.Select(S[arr], ref.z))
                if kind == "real":
                    return SReal(z3.Select(S[arr], ref.z))
                if kind == "optint":
                    v = z3.Select(S[arr], ref.z)
                    if I.decide(v == 0):
                        return None
                    return SInt(v)
                if kind == "ref:event":
                    return SRef("event", z3.Select(S[arr], ref.z))
                if kind == "json":
                    return json_of(I, z3.Select(S[arr], ref.z))
                if kind == "error":
                    if I.decide(z3.Select(S["j_err_none"], ref.z)):
                        return None
                    return SStr(z3.Select(S["j_err"], ref.z))
            if name == "__dict__":
                return PObj("jobdict", {"job": ref, "removed": set()})
            m = I.find_method(job_cls, name)
            if m is not None:
                return BoundMethod(ref, m)
            I.throw("AttributeError", name)
        if ref.cls == "event":
            mm = ex.methods.get(("event", name))
            if mm:
                return BoundMethod(ref, mm)
        if ref.cls == "asyncresult" and name == "value":
            return SRef("job", z3.Select(S["a_value"], ref.z))
        if ref.cls == "asyncresult":
            mm = ex.methods.get(("asyncresult", name))
            if mm:
                return BoundMethod(ref, mm)
        raise Undecided(f"attribute {name} of {ref!r}")

    def heap_setattr(I, ref, name, val):
        S = st(I)
        if ref.cls == "job" and name == "__dict__":
            # self.__dict__ = state: every attribute comes from the pickled snapshot
            if not (isinstance(val, PObj) and val.cls == "jobdict"):
                raise Undecided("job.__dict__ = non-snapshot")
            src = val.fields["job"].z
            for attr, (arr, kind) in JOB_FIELD.items():
                if attr in val.fields["removed"]:
                    continue
                for a in ([arr] if arr else ["j_err_none", "j_err"]):
                    S[a] = z3.Store(S[a], ref.z, z3.Select(S[a], src))
            I.ghost.setdefault("dict_assigned", []).append((ref, val))
            return
        if ref.cls == "job" and name in JOB_FIELD:
            arr, kind = JOB_FIELD[name]
            if kind == "bool":
                S[arr] = z3.Store(S[arr], ref.z, I._bool_term(val) if kind_of(val) == "bool" else _bad(val))
            elif kind == "int":
                S[arr] = z3.Store(S[arr], ref.z, I._int_term(val))
            elif kind == "real":
                S[arr] = z3.Store(S[arr], ref.z, I._real_term(val))
            elif kind == "optint":
                S[arr] = z3.Store(S[arr], ref.z, z3.IntVal(0) if val is None else I._int_term(val))
            elif kind == "ref:event":
                S[arr] = z3.Store(S[arr], ref.z, val.z)
                S["ev_owner"] = z3.Store(S["ev_owner"], val.z, ref.z)      # ghost
            elif kind == "json":
                S[arr] = z3.Store(S[arr], ref.z, json_id(I, val))
            elif kind == "error":
                if val is None:
                    S["j_err_none"] = z3.Store(S["j_err_none"], ref.z, True)
                elif kind_of(val) == "str":
                    S["j_err_none"] = z3.Store(S["j_err_none"], ref.z, False)
                    S["j_err"] = z3.Store(S["j_err"], ref.z, z3_of(val))
                else:
                    raise Undecided(f"job.error = {val!r}")
            return
        raise Undecided(f"assignment {ref!r}.{name}")

    def _bad(v):
        raise Undecided(f"non-bool stored into a bool field: {v!r}")

    def json_id(I, v):
        if v is None:
            return z3.IntVal(0)
        if isinstance(v, PObj) and v.cls == "json":
            return v.fields["id"]
        if isinstance(v, dict) and not v:
            return z3.IntVal(-1)     # the empty dict literal
        return I.fresh("json", Z)

    # job.__dict__ as a snapshot object (job._json() / __getstate__: copy minus finish_event)
    ex.methods[("jobdict", "copy")] = Model("dict.copy of job.__dict__",
                                            lambda I, d: PObj("jobdict", {"job": d.fields["job"], "removed": set(d.fields["removed"])}))

    def jobdict_del(I, d, k):
        if not isinstance(k, str):
            raise Undecided("del on job.__dict__ with non-constant key")
        if k != "finish_event" and k not in JOB_FIELD:
            I.throw("KeyError", k)
        d.fields["removed"].add(k)
    ex.delitem_hooks["jobdict"] = jobdict_del
    ex.heap_getattr = heap_getattr
    ex.heap_setattr = heap_setattr
    ex.truthy_hooks["json"] = lambda I, v: I.decide(z3.And(v.fields["id"] != 0, v.fields["id"] != -1))
    ex.methods[("json", "update")] = Model("dict.update on job.info", lambda I, d, other: None)

    # setattr(job, k, v) with constant k
    def b_setattr(I, obj, name, val):
        if not isinstance(name, str):
            raise Undecided("setattr with non-constant name")
        I.setattr(obj, name, val)
    ex.models["builtins.setattr"] = Model("builtins.setattr", b_setattr)

    def alloc(I):
        S = st(I)
        r = S["alloc"]
        S["alloc"] = r + 1
        return r

    # ---- job(...) constructor: allocate, apply class-level defaults, run the real __init__
    def new_job(I, cls, *args, **kw):
        r = SRef("job", alloc(I))
        st(I)["is_job"] = z3.Store(st(I)["is_job"], r.z, True)
        for n in job_cls.node.body:
            if isinstance(n, ast.Assign) and len(n.targets) == 1 and isinstance(n.targets[0], ast.Name):
                nm = n.targets[0].id
                if nm in JOB_FIELD:
                    heap_setattr(I, r, nm, I.eval_in_module(jobs_mod, n.value))
        # ghost: a fresh job is nowhere yet
        S = st(I)
        S["holder"] = z3.Store(S["holder"], r.z, 0)
        S["conn"] = z3.Store(S["conn"], r.z, 0)
        init = I.find_method(job_cls, "__init__")
        I.call(BoundMethod(r, init), list(args), kw)
        return r
    ex.constructors["job"] = new_job
    ex.inline.add(JOBS + ":job.__init__")

    # ---- gevent.event
    def new_event(I):
        r = SRef("event", alloc(I))
        S = st(I)
        S["is_job"] = z3.Store(S["is_job"], r.z, False)
        S["e_set"] = z3.Store(S["e_set"], r.z, False)
        return r
    ex.models["gevent.event.Event"] = Model("gevent.event.Event()", new_event)

    def ev_set(I, e):
        S = st(I)
        S["e_set"] = z3.Store(S["e_set"], e.z, True)
    ex.methods[("event", "set")] = Model("Event.set", ev_set)
    ex.methods[("event", "is_set")] = Model("Event.is_set", lambda I, e: SBool(z3.Select(st(I)["e_set"], e.z)))

    def new_async(I):
        r = SRef("asyncresult", alloc(I))
        S = st(I)
        S["is_job"] = z3.Store(S["is_job"], r.z, False)
        S["a_ready"] = z3.Store(S["a_ready"], r.z, False)
        return r
    ex.models["gevent.event.AsyncResult"] = Model("gevent.event.AsyncResult()", new_async)

    def async_set(I, a, value=None):
        # contract: stores the value (overwriting an earlier one) and marks the result ready;
        # the registered getter is woken later (no switch here)
        S = st(I)
        S["a_ready"] = z3.Store(S["a_ready"], a.z, True)
        S["a_value"] = z3.Store(S["a_value"], a.z, value.z)
        S["holder"] = z3.Store(S["holder"], value.z, a.z)        # ghost
    ex.methods[("asyncresult", "set")] = Model("AsyncResult.set", async_set)
    ex.methods[("asyncresult", "ready")] = Model("AsyncResult.ready", lambda I, a: SBool(z3.Select(st(I)["a_ready"], a.z)))

    def async_get(I, a):
        # yield point: handled by the segment driver installed in I.ghost['on_yield']
        h = I.ghost.get("on_yield")
        if h is None:
            raise Undecided("AsyncResult.get outside a segment driver")
        return h(I, a)
    ex.methods[("asyncresult", "get")] = Model("AsyncResult.get (yields)", async_get)

    # ---- dict views
    def id_getitem(I, d, k):
        kt = key_term(I, k)
        if not I.decide(d.has(I, kt)):
            I.throw("KeyError", k)
        return SRef("job", d.val(I, kt))
    ex.getitem_hooks["iddict"] = id_getitem

    def id_setitem(I, d, k, v):
        if not isinstance(v, SRef):
            raise Undecided("id2job value is not a job")
        d.set(I, key_term(I, k), v.z)
    ex.setitem_hooks["iddict"] = id_setitem

    def id_delitem(I, d, k):
        kt = key_term(I, k)
        if not I.decide(d.has(I, kt)):
            I.throw("KeyError", k)
        d.delete(I, kt)
    ex.delitem_hooks["iddict"] = id_delitem
    ex.contains_hooks["iddict"] = lambda I, d, k: d.has(I, key_term(I, k)) if k is not None else False
    def id_values(I, d):
        # dict views are iterated as snapshots (the code wraps them in list(...))
        S = st(I)
        if d.conn is None:
            has, val = S["id_has"], S["id_val"]
            return AbsIter("idvalues", set_iter(lambda I2: has, lambda I2, i: SRef("job", z3.Select(val, i)), "id"))
        k = d.conn

        def release(I2, i):
            hook = I2.ghost.get("on_take_running")
            if hook:
                hook(I2, k, i)
        # running_jobs of a connection: iterated over the current state's view (the loop that
        # iterates it - shutdown - re-queues and thereby releases each visited entry)
        return AbsIter("idvalues", set_iter(lambda I2: z3.Select(st(I2)["R_has"], k),
                                            lambda I2, i: SRef("job", sel2(st(I2)["R_val"], k, i)), "id", release, stable=False))
    ex.methods[("iddict", "values")] = Model("dict.values view", id_values)

    def id_items(I, d):
        S = st(I)
        has, val = S["id_has"], S["id_val"]
        it = AbsIter("iditems", set_iter(lambda I2: has, lambda I2, i: (SInt(i), SRef("job", z3.Select(val, i))), "id"))
        it.snapshot = (has, val)
        I.ghost["last_items_snapshot"] = (has, val)
        return it
    ex.methods[("iddict", "items")] = Model("dict.items view", id_items)

    def len_hook(I, v):
        raise Undecided("len of abstract container")

    # channel2q
    def q_getitem(I, d, c):
        S = st(I)
        ct = I._int_term(c)
        if not I.decide(z3.Select(S["q_has"], ct)):
            I.throw("KeyError", c)
        return HeapView(ct)
    ex.getitem_hooks["chandict"] = q_getitem

    def q_setitem(I, d, c, v):
        S = st(I)
        ct = I._int_term(c)
        if isinstance(v, list) and not v:
            S["q_has"] = z3.Store(S["q_has"], ct, True)
            S["Q"] = z3.Store(S["Q"], ct, z3.K(Z, z3.IntVal(0)))
            I.rebind = (v, HeapView(ct))
            return
        raise Undecided("channel2q[c] = non-empty list")
    ex.setitem_hooks["chandict"] = q_setitem
    ex.methods[("chandict", "items")] = Model("dict.items view", lambda I, d: AbsIter("chanitems", set_iter(
        lambda I2: st(I2)["q_has"], lambda I2, c: (SInt(c), HeapView(c)), "chan")))
    ex.methods[("chandict", "keys")] = Model("dict.keys view", lambda I, d: AbsIter("chankeys", set_iter(
        lambda I2: st(I2)["q_has"], lambda I2, c: SInt(c), "chan")))

    def heap_truthy(I, h):
        c = h.counts(I)
        m = heap_head(I, c)
        return I.decide(z3.Select(c, m) > 0)
    ex.truthy_hooks["jobheap"] = heap_truthy
    ex.len_hooks["jobheap"] = lambda I, h: SInt(heap_size(h.counts(I)))
    ex.len_hooks["iddict"] = lambda I, d: SInt(dict_size(st(I)["id_has"]))
    ex.len_hooks["idvalues"] = lambda I, d: SInt(I.fresh("len_of_view", Z))

    def heap_getitem(I, h, idx):
        if idx != 0:
            raise Undecided("heap index other than 0")
        c = h.counts(I)
        m = heap_head(I, c)
        if not I.decide(z3.Select(c, m) > 0):
            I.throw("IndexError", "list index out of range")
        return SRef("job", m)
    ex.getitem_hooks["jobheap"] = heap_getitem

    def heappush(I, h, item):
        S = st(I)
        if isinstance(h, HeapView):
            if not isinstance(item, SRef):
                raise Undecided("heappush of non-job")
            c = h.counts(I)
            S["Q"] = z3.Store(S["Q"], h.chan, z3.Store(c, item.z, z3.Select(c, item.z) + 1))
            return None
        if isinstance(h, PObj) and h.cls == "timeoutq":
            t, j = item
            # the pair is (job.timeout, job): the deadline component is the job's field
            I.oblige("timeoutq.push_pair_is_job_timeout", I.eq_term(t, SReal(z3.Select(S["j_timeout"], j.z))))
            S["TQ"] = z3.Store(S["TQ"], j.z, z3.Select(S["TQ"], j.z) + 1)
            return None
        raise Undecided(f"heappush on {h!r}")
    ex.models["heapq.heappush"] = Model("heapq.heappush (multiset insert)", heappush)

    def heappop(I, h):
        S = st(I)
        if isinstance(h, HeapView):
            c = h.counts(I)
            m = heap_head(I, c)
            if not I.decide(z3.Select(c, m) > 0):
                I.throw("IndexError", "index out of range")
            S["Q"] = z3.Store(S["Q"], h.chan, z3.Store(c, m, z3.Select(c, m) - 1))
            return SRef("job", m)
        if isinstance(h, PObj) and h.cls == "timeoutq":
            m = tq_head(I)
            if not I.decide(z3.Select(S["TQ"], m) > 0):
                I.throw("IndexError", "index out of range")
            S["TQ"] = z3.Store(S["TQ"], m, z3.Select(S["TQ"], m) - 1)
            return (SReal(z3.Select(S["j_timeout"], m)), SRef("job", m))
        raise Undecided(f"heappop on {h!r}")
    ex.models["heapq.heappop"] = Model("heapq.heappop (remove a minimum)", heappop)
    ex.models["heapq.heapify"] = Model("heapq.heapify", lambda I, h: None)

    def tq_truthy(I, h):
        S = st(I)
        m = tq_head(I)
        return I.decide(z3.Select(S["TQ"], m) > 0)
    ex.truthy_hooks["timeoutq"] = tq_truthy

    def tq_append(I, h, item):
        t, j = item
        S = st(I)
        I.oblige("timeoutq.append_pair_is_job_timeout", I.eq_term(t, SReal(z3.Select(S["j_timeout"], j.z))))
        S["TQ"] = z3.Store(S["TQ"], j.z, z3.Select(S["TQ"], j.z) + 1)
    ex.methods[("timeoutq", "append")] = Model("list.append on timeoutq", tq_append)

    def workq_setattr(I, obj, name, val):
        if name == "timeoutq" and isinstance(val, list) and not val:
            st(I)["TQ"] = z3.K(Z, z3.IntVal(0))
            return True        # keep the abstract view object
        return False
    ex.setattr_hooks[workq_cls.name] = workq_setattr

    def workq_init(I, w):
        """workq.__init__ on the abstract state: empty containers, count 0"""
        S = st(I)
        S["q_has"] = z3.K(Z, False)
        S["Q"] = z3.K(Z, z3.K(Z, z3.IntVal(0)))
        S["W"] = z3.K(Z, False)
        S["id_has"] = z3.K(Z, False)
        S["TQ"] = z3.K(Z, z3.IntVal(0))
        S["c_has"] = z3.K(Z, False)
        fresh = make_workq(I, workq_cls)
        w.fields.update(fresh.fields)
        w.fields["count"] = 0
        return None
    ex.workq_init = workq_init

    def tq_getitem(I, h, idx):
        if idx != 0:
            raise Undecided("timeoutq index other than 0")
        S = st(I)
        m = tq_head(I)
        if not I.decide(z3.Select(S["TQ"], m) > 0):
            I.throw("IndexError", "list index out of range")
        return (SReal(z3.Select(S["j_timeout"], m)), SRef("job", m))
    ex.getitem_hooks["timeoutq"] = tq_getitem

    # counters
    def c_getitem(I, d, c):
        S = st(I)
        ct = I._int_term(c)
        if not I.decide(z3.Select(S["c_has"], ct)):
            I.throw("KeyError", c)
        return PObj("counter", {"chan": ct})
    ex.getitem_hooks["counters"] = c_getitem

    def c_setitem(I, d, c, v):
        S = st(I)
        ct = I._int_term(c)
        if isinstance(v, dict) and set(v) == {"error", "timeout", "killed", "success"}:
            S["c_has"] = z3.Store(S["c_has"], ct, True)
            for k in v:
                S["c_" + k] = z3.Store(S["c_" + k], ct, I._int_term(v[k]))
            I.rebind = (v, PObj("counter", {"chan": ct}))
            return
        raise Undecided("_channel2count[c] = unexpected value")
    ex.setitem_hooks["counters"] = c_setitem

    def cnt_getitem(I, c, k):
        if k not in ("error", "timeout", "killed", "success"):
            if isinstance(k, str):
                I.throw("KeyError", k)
            # symbolic key: c[e] with e in ("timeout", "killed")
            for name in ("timeout", "killed", "error", "success"):
                if I.decide(I.eq_term(k, name)):
                    k = name
                    break
            else:
                I.throw("KeyError", k)
        return SInt(z3.Select(st(I)["c_" + k], c.fields["chan"]))
    ex.getitem_hooks["counter"] = cnt_getitem

    def cnt_setitem(I, c, k, v):
        if not isinstance(k, str):
            for name in ("timeout", "killed", "error", "success"):
                if I.decide(I.eq_term(k, name)):
                    k = name
                    break
            else:
                if not I.path_feasible():
                    raise PathCut()
                raise Undecided("counter key")
        S = st(I)
        S["c_" + k] = z3.Store(S["c_" + k], c.fields["chan"], I._int_term(v))
    ex.setitem_hooks["counter"] = cnt_setitem

    # waiters
    def w_append(I, w, item):
        chans, ev = item
        S = st(I)
        if isinstance(chans, list) and not chans:
            chans = Channels(z3.K(Z, False), z3.BoolVal(True))
        if chans is None:
            # type invariant of _waiters entries, relied on by pushjob's `channel in watching or not watching`
            I.oblige("waiters.entry_watch_list_is_a_list", z3.BoolVal(False), meta={"channels": "None"})
            raise PathCut()
        if not isinstance(chans, Channels):
            raise Undecided("waiter channels")
        S["W"] = z3.Store(S["W"], ev.z, True)
        S["a_watch"] = z3.Store(S["a_watch"], ev.z, chans.member)
        S["a_any"] = z3.Store(S["a_any"], ev.z, chans.empty)
    ex.methods[("waiters", "append")] = Model("list.append on _waiters", w_append)

    def w_remove(I, w, item):
        chans, ev = item
        S = st(I)
        if not I.decide(z3.Select(S["W"], ev.z)):
            I.throw("ValueError", "list.remove(x): x not in list")
        S["W"] = z3.Store(S["W"], ev.z, False)
        # ghost: a job handed to this waiter leaves the waiter with it (it is in transit to the caller)
        v = z3.Select(S["a_value"], ev.z)
        S["holder"] = z3.Store(S["holder"], v, z3.If(z3.And(z3.Select(S["a_ready"], ev.z), z3.Select(S["holder"], v) == ev.z),
                                                      z3.IntVal(0), z3.Select(S["holder"], v)))
    ex.methods[("waiters", "remove")] = Model("list.remove on _waiters", w_remove)

    ex.waiters_iter = lambda obj: set_iter(lambda I: st(I)["W"],
                                           lambda I, w: (Channels(z3.Select(st(I)["a_watch"], w), z3.Select(st(I)["a_any"], w)),
                                                         SRef("asyncresult", w)), "waiter")

    ex.contains_hooks["channels"] = lambda I, ch, c: z3.Select(ch.member, I._int_term(c))
    ex.truthy_hooks["channels"] = lambda I, ch: I.decide(z3.Not(ch.empty))

    # refsets
    def rs_append(I, s, v):
        s.arr = z3.Store(s.arr, v.z, True)
    ex.methods[("refset", "append")] = Model("list.append (as set of references)", rs_append)

    def rs_truthy(I, s):
        arr = s.arr
        p = pick(arr)
        I.assume(Forall([TYPE_OF_CLS[s.elem_cls]], lambda x: z3.Implies(z3.Select(arr, x), z3.Select(arr, p)), "pick_member"))
        return I.decide(z3.Select(arr, p))
    ex.truthy_hooks["refset"] = rs_truthy

    def random_choice(I, s):
        if isinstance(s, list):
            if not s:
                I.throw("IndexError", "empty")
            return s[I.choose(len(s), "choice")]
        r = I.fresh(f"chosen@{TYPE_OF_CLS[s.elem_cls]}", Z)
        I.assume(z3.Select(s.arr, r))     # some member (the caller checked non-emptiness)
        return SRef(s.elem_cls, r)
    ex.models["random.choice"] = Model("random.choice (some member)", random_choice)

    def b_min(I, s):
        if isinstance(s, RefSet) and s.elem_cls == "job":
            S = st(I)
            m = I.fresh("minjob@job", Z)
            arr = s.arr
            # contract of min() w.r.t. job.__lt__ on a non-empty collection
            I.assume(z3.Select(arr, m))
            I.assume(Forall(["job"], lambda x: z3.Implies(z3.Select(arr, x), z3.Not(lt(S, x, m))), "min_is_minimal"))
            return SRef("job", m)
        raise Undecided("min on this value")
    old_min = ex.models["builtins.min"]
    ex.models["builtins.min"] = Model("builtins.min (w.r.t. job.__lt__)",
                                      lambda I, *a, **k: b_min(I, a[0]) if len(a) == 1 and isinstance(a[0], RefSet)
                                      else old_min.fn(I, *a, **k))
    ex.typing = TYPING
    return job_cls, workq_cls


def make_workq(I, workq_cls):
    w = PObj(workq_cls, {})
    S = st(I)
    w.fields["id2job"] = IdDict()
    w.fields["channel2q"] = PObj("chandict", {})
    w.fields["timeoutq"] = PObj("timeoutq", {})
    w.fields["_channel2count"] = PObj("counters", {})
    wt = PObj("waiters", {})
    wt.iter_state = I.ex.waiters_iter(wt)
    w.fields["_waiters"] = wt
    return w


class CountField:
    """workq.count lives in the abstract state (so that Inv can talk about it)"""


def install_count(ex):
    def getattr_hook(I, obj, name):
        if name == "count":
            return SInt(st(I)["count"])
        return NotImplemented
    ex.getattr_hooks["workq"] = getattr_hook
    orig_setattr = None


# ----------------------------------------------------------------------------- the invariant
def known(S, j):
    jid = z3.Select(S["j_jobid"], j)
    return z3.And(jid != 0, z3.Select(S["id_has"], jid), z3.Select(S["id_val"], jid) == j)


def valid_ref(S, r):
    return z3.And(r >= 1, r < S["alloc"])


def valid_job(S, r):
    return z3.And(r >= 1, r < S["alloc"], z3.Select(S["is_job"], r))


def b2i(b):
    return z3.If(b, z3.IntVal(1), z3.IntVal(0))


def inv_clauses(S, j, w, c, k, i):
    """The global invariant, as a dict label -> formula over the bound variables
    j (job), w (waiter), c (channel), k (connection), i (job id).  Each clause is
    universally quantified over the variables it mentions."""
    done = z3.Select(S["j_done"], j)
    chan = z3.Select(S["j_chan"], j)
    inq = sel2(S["Q"], chan, j)
    holder = z3.Select(S["holder"], j)
    conn = z3.Select(S["conn"], j)
    jid = z3.Select(S["j_jobid"], j)
    cl = {}
    # I1: a known unfinished job is in exactly one place
    cl["I1_exactly_one_place"] = z3.Implies(
        z3.And(valid_job(S, j), known(S, j), z3.Not(done)),
        inq + b2i(holder != 0) + b2i(conn != 0) == 1)
    # I2: queue entries are valid jobs, filed under their own channel, with a serial
    qcj = sel2(S["Q"], c, j)
    cl["I2_queue_entries"] = z3.And(qcj >= 0, z3.Implies(qcj > 0, z3.And(
        valid_job(S, j), c == chan, z3.Select(S["q_has"], c), z3.Select(S["j_serial"], j) != 0, jid != 0, qcj == 1)))
    # I3: holder ghost <-> ready registered waiter holding that job
    cl["I3a_holder_is_ready_waiter"] = z3.Implies(
        z3.And(valid_job(S, j), holder != 0),
        z3.And(z3.Select(S["W"], holder), z3.Select(S["a_ready"], holder), z3.Select(S["a_value"], holder) == j))
    cl["I3b_ready_waiter_holds_its_value"] = z3.Implies(
        z3.And(z3.Select(S["W"], w), z3.Select(S["a_ready"], w)),
        z3.And(valid_job(S, z3.Select(S["a_value"], w)), z3.Select(S["holder"], z3.Select(S["a_value"], w)) == w,
               z3.Select(S["j_serial"], z3.Select(S["a_value"], w)) != 0,
               z3.Select(S["j_jobid"], z3.Select(S["a_value"], w)) != 0))
    cl["I3c_waiters_valid"] = z3.Implies(z3.Select(S["W"], w), z3.And(valid_ref(S, w), z3.Not(z3.Select(S["is_job"], w))))
    # I4: conn ghost <-> running_jobs of that connection
    cl["I4a_conn_has_job"] = z3.Implies(
        z3.And(valid_job(S, j), conn != 0, z3.Not(done)),
        z3.And(sel2(S["R_has"], conn, jid), sel2(S["R_val"], conn, jid) == j))
    rj = sel2(S["R_val"], k, i)
    cl["I4b_running_jobs_owned"] = z3.Implies(
        sel2(S["R_has"], k, i),
        z3.And(valid_job(S, rj), z3.Select(S["j_jobid"], rj) == i, k != 0, i != 0, z3.Select(S["j_serial"], rj) != 0,
               z3.Implies(z3.Not(z3.Select(S["j_done"], rj)), z3.Select(S["conn"], rj) == k)))
    # I6: serials of known jobs are set and bounded by the counter; id table entries are valid
    cl["I6_serial_bounded"] = z3.Implies(z3.And(valid_job(S, j), z3.Select(S["j_serial"], j) != 0),
                                         z3.And(z3.Select(S["j_serial"], j) >= 1, z3.Select(S["j_serial"], j) <= S["count"]))
    iv = z3.Select(S["id_val"], i)
    cl["I7_id_table"] = z3.Implies(z3.Select(S["id_has"], i),
                                   z3.And(valid_job(S, iv), z3.Select(S["j_jobid"], iv) == i, i != 0,
                                          z3.Select(S["j_serial"], iv) != 0))
    cl["I8_alloc_positive"] = z3.And(S["alloc"] >= 1, S["count"] >= 0)
    # I9: an unfinished job that has been pushed (has a serial) is the one registered under its id
    cl["I9_pushed_unfinished_jobs_are_known"] = z3.Implies(
        z3.And(valid_job(S, j), z3.Select(S["j_serial"], j) != 0, z3.Not(done)), known(S, j))
    cl["I10_timeoutq_entries"] = z3.And(z3.Select(S["TQ"], j) >= 0,
                                        z3.Implies(z3.Select(S["TQ"], j) > 0, z3.And(valid_job(S, j), z3.Select(S["j_serial"], j) != 0)))
    # I12/I13: an error or a drop deadline is only ever recorded on a finished job
    cl["I12_error_implies_done"] = z3.Implies(z3.And(valid_job(S, j), z3.Not(z3.Select(S["j_err_none"], j))), done)
    cl["I13_deadline_implies_done"] = z3.Implies(z3.And(valid_job(S, j), z3.Select(S["j_deadline"], j) != 0), done)
    # C17: a ready waiter holds a job of a channel it asked for; the finish event mirrors `done`
    vj = z3.Select(S["a_value"], w)
    cl["I14_handed_job_is_eligible"] = z3.Implies(
        z3.And(z3.Select(S["W"], w), z3.Select(S["a_ready"], w)),
        z3.Or(z3.Select(S["a_any"], w), z3.Select(z3.Select(S["a_watch"], w), z3.Select(S["j_chan"], vj))))
    ev = z3.Select(S["j_event"], j)
    cl["I15_finish_event_mirrors_done"] = z3.Implies(
        z3.And(valid_job(S, j), z3.Select(S["j_serial"], j) != 0),
        z3.And(z3.Select(S["e_set"], ev) == done, ev >= 1, ev < S["alloc"], z3.Not(z3.Select(S["is_job"], ev)),
               z3.Select(S["ev_owner"], ev) == j))
    # I16 (C17, third arm of finish / kill / timeout): every unfinished pushed job has an entry in the timeout heap
    cl["I16_unfinished_job_has_a_timeout_entry"] = z3.Implies(
        z3.And(valid_job(S, j), z3.Select(S["j_serial"], j) != 0, z3.Not(done)), z3.Select(S["TQ"], j) >= 1)
    cl["I11_nowhere_without_serial"] = z3.Implies(
        z3.And(valid_job(S, j), z3.Select(S["j_serial"], j) == 0),
        z3.And(holder == 0, conn == 0))
    return cl


BOUND = [z3.Int("j!"), z3.Int("w!"), z3.Int("c!"), z3.Int("k!"), z3.Int("i!")]


def _mentions(f, v):
    seen = set()
    todo = [f]
    while todo:
        x = todo.pop()
        if x.get_id() in seen:
            continue
        seen.add(x.get_id())
        if z3.is_const(x) and x.eq(v):
            return True
        todo.extend(x.children())
    return False


_clause_vars = {}


EXTENDED = False      # C17 adds the clauses I14 / I15 / I16 to the invariant (set by contracts/c17.py)


def clause_schemas(S):
    """Inv(S) as typed schemas: one per clause, over exactly the variables it mentions.
    The clause formulas are built once (for the state terms at this moment) and
    instantiated by substitution."""
    cl = inv_clauses(S.copy(), *BOUND)
    out = []
    for name, f in cl.items():
        if not EXTENDED and name.startswith(("I14_", "I15_", "I16_")):
            continue
        if name not in _clause_vars:
            _clause_vars[name] = [n for n, v in enumerate(BOUND) if _mentions(f, v)]
        idx = _clause_vars[name]
        types = [VAR_TYPES[n] for n in idx]
        vs = [BOUND[n] for n in idx]

        def fn(*terms, f=f, vs=vs):
            return z3.substitute(f, *zip(vs, terms)) if vs else f
        out.append((name, types, fn))
    return out


_inv_cache = {}


def inv_quantified(S):
    """Inv(S) as a list of (label, Forall schema | closed formula); memoised on the state
    terms so that `Inv of an unchanged state` is recognised as already assumed"""
    key = (EXTENDED,) + tuple(S.t[k].get_id() for k in sorted(S.t))
    hit = _inv_cache.get(key)
    if hit is None:
        snap = S.copy()
        hit = (snap, [(name, Forall(types, fn, name) if types else fn()) for name, types, fn in clause_schemas(snap)])
        if len(_inv_cache) > 5000:
            _inv_cache.clear()
        _inv_cache[key] = hit
    return hit[1]


def assume_inv(I, S, extra=None):
    for name, f in inv_quantified(S):
        I.assume(f)


def oblige_inv(I, S, prefix="inv", skip=()):
    """one obligation per clause, the outer forall skolemised by fresh typed constants"""
    for name, f in inv_quantified(S):
        if name in skip:
            continue
        I.oblige(f"{prefix}.{name}", f)


def preenall_contract(I, w):
    """contract of workq._preenall (iterates _preenjobq over every channel queue; the body
    of _preenjobq is verified below, the iteration itself is assumed): finished jobs are
    skimmed off the queue heads, nothing else changes"""
    S = st(I)
    Q0 = S["Q"]
    Q1 = I.fresh("preened_Q", A(Z, A(Z, Z)))
    done = S["j_done"]
    prio, serial = S["j_prio"], S["j_serial"]
    I.assume(Forall(["chan", "job"], lambda c, x: z3.And(
        sel2(Q1, c, x) <= sel2(Q0, c, x), sel2(Q1, c, x) >= 0,
        z3.Implies(sel2(Q1, c, x) < sel2(Q0, c, x), z3.Select(done, x))), "preen_removes_only_finished"))

    def heads(c):
        qc = z3.Select(Q1, c)
        h = heap_min(qc, prio, serial)
        return z3.Implies(z3.Select(qc, h) > 0, z3.Not(z3.Select(done, h)))
    I.assume(Forall(["chan"], heads, "preen_heads_unfinished"))
    S["Q"] = Q1
    hook = I.ghost.get("after_preen")
    if hook:
        hook()
    return None



# ----------------------------------------------------------------------------- contract of workq.pushjob
PUSHJOB_TOUCHED = {"j_serial", "j_jobid", "id_has", "id_val", "TQ", "a_ready", "a_value", "holder", "q_has", "Q", "count"}


def eligible_unready(S, x, ch):
    return z3.And(z3.Select(S["W"], x), z3.Not(z3.Select(S["a_ready"], x)),
                  z3.Or(z3.Select(z3.Select(S["a_watch"], x), ch), z3.Select(S["a_any"], x)))


def pushjob_post(S0, S1, j, count0, count1, handoff_to):
    """the exact transition of workq.pushjob(job) as a relation between the state before
    (S0, count0) and after (S1, count1); `handoff_to` is the chosen waiter (a term) or None
    for the queued case.  Verified against the body by C16 'jobs.workq.pushjob[contract]',
    used at the call sites in pop() and QPlugin.shutdown()."""
    serial0 = z3.Select(S0["j_serial"], j)
    serial1 = z3.If(serial0 == 0, count0 + 1, serial0)
    jid0 = z3.Select(S0["j_jobid"], j)
    jid1 = z3.If(jid0 == 0, serial1, jid0)
    ch = z3.Select(S0["j_chan"], j)
    out = [("count", count1 == z3.If(serial0 == 0, count0 + 1, count0)),
           ("serial", S1["j_serial"] == z3.Store(S0["j_serial"], j, serial1)),
           ("jobid", S1["j_jobid"] == z3.Store(S0["j_jobid"], j, jid1)),
           ("id_has", S1["id_has"] == z3.Store(S0["id_has"], jid1, True)),
           ("id_val", S1["id_val"] == z3.Store(S0["id_val"], jid1, j)),
           ("timeoutq", S1["TQ"] == z3.Store(S0["TQ"], j, z3.Select(S0["TQ"], j) + 1))]
    for k in FIELDS:
        if k not in PUSHJOB_TOUCHED:
            out.append(("frame_" + k, S1[k] == S0[k]))
    if handoff_to is not None:
        w = handoff_to
        out += [("handoff_to_an_eligible_unready_waiter", eligible_unready(S0, w, ch)),
                ("handoff_ready", S1["a_ready"] == z3.Store(S0["a_ready"], w, True)),
                ("handoff_value", S1["a_value"] == z3.Store(S0["a_value"], w, j)),
                ("handoff_holder", S1["holder"] == z3.Store(S0["holder"], j, w)),
                ("handoff_queues_untouched", z3.And(S1["Q"] == S0["Q"], S1["q_has"] == S0["q_has"]))]
    else:
        q0 = z3.If(z3.Select(S0["q_has"], ch), z3.Select(S0["Q"], ch), z3.K(Z, z3.IntVal(0)))
        out += [("queued_q_has", S1["q_has"] == z3.Store(S0["q_has"], ch, True)),
                ("queued_Q", S1["Q"] == z3.Store(S0["Q"], ch, z3.Store(q0, j, z3.Select(q0, j) + 1))),
                ("queued_waiters_untouched", z3.And(S1["a_ready"] == S0["a_ready"], S1["a_value"] == S0["a_value"],
                                                    S1["holder"] == S0["holder"]))]
    return out, jid1


def pushjob_contract(I, w, job):
    """call-site use of the pushjob contract: havoc the touched part of the state, assume the
    verified transition relation (one fork: handed to a waiter / queued)"""
    S0 = st(I)
    j = job.z
    count0 = z3_of(w.fields["count"])
    ch = z3.Select(S0["j_chan"], j)
    pre = I.ghost.get("pushjob_pre")
    if pre:
        pre(I, S0, j)
    S1 = S0.copy()
    for k in PUSHJOB_TOUCHED:
        if k != "count":
            S1[k] = I.fresh("pj_" + k, FIELDS[k])
    count1 = I.fresh("pj_count", Z)
    wv = I.fresh("handoff@waiter", Z)
    if I.decide(eligible_unready(S0, wv, ch)):
        rel, jid1 = pushjob_post(S0, S1, j, count0, count1, wv)
    else:
        I.assume(Forall(["waiter"], lambda x: z3.Not(eligible_unready(S0, x, ch)), "no_eligible_unready_waiter"))
        rel, jid1 = pushjob_post(S0, S1, j, count0, count1, None)
    for label, f in rel:
        I.assume(f)
    I.ghost["S"] = S1
    w.fields["count"] = SInt(count1)
    return SInt(jid1)


def guarantee_clauses(I, S):
    """What every atomic segment guarantees to the greenlets suspended meanwhile, relating the state P at the start of
    the segment to the current state S (the RELY of a puller blocked in AsyncResult.get, used by segment B of rpc_qpull,
    is the reflexive-transitive closure of these; each relation is itself reflexive and transitive, so it is also a
    loop invariant of the state-modifying loops):
      G1 a job's connection attribution changes only to 0 or to the connection this segment serves
      G2 allocated jobs stay allocated; done is monotone; job id immutable; a serial, once set, immutable
      G3 a waiter made ready in this segment holds a job that is unfinished or was finished later in this segment ...
         stated on the hand-off itself: see pushjob_post; here: a waiter that was ready keeps its value
      G5 a job pushed for the first time in this segment has an id under which every job pushed earlier is finished"""
    P = I.ghost.get("S_pre")
    if P is None:
        return []
    own = I.ghost.get("own_conn", z3.IntVal(0))
    vj = valid_job

    def g1(x):
        was = z3.If(vj(P, x), z3.Select(P["conn"], x), z3.IntVal(0))
        now = z3.Select(S["conn"], x)
        return z3.Implies(z3.And(vj(S, x), now != was), z3.Or(now == 0, now == own))

    def g2(x):
        return z3.Implies(vj(P, x), z3.And(vj(S, x),
                                           z3.Implies(z3.Select(P["j_done"], x), z3.Select(S["j_done"], x)),
                                           z3.Select(S["j_jobid"], x) == z3.Select(P["j_jobid"], x),
                                           z3.Implies(z3.Select(P["j_serial"], x) != 0, z3.Select(S["j_serial"], x) == z3.Select(P["j_serial"], x))))

    def g5(x, y):
        first_push = z3.And(vj(S, x), z3.Select(S["j_serial"], x) != 0, z3.Or(z3.Not(vj(P, x)), z3.Select(P["j_serial"], x) == 0))
        earlier = z3.And(vj(P, y), z3.Select(P["j_serial"], y) != 0, z3.Select(P["j_jobid"], y) == z3.Select(S["j_jobid"], x))
        return z3.Implies(z3.And(first_push, earlier), z3.Select(S["j_done"], y))
    return [("G1_connection_attribution_only_to_own_connection", Forall(["job"], g1)),
            ("G2_done_monotone_ids_and_serials_immutable", Forall(["job"], g2)),
            ("G5_first_push_only_under_an_id_whose_earlier_jobs_are_finished", Forall(["job", "job"], g5))]


def state_loop_spec(extra=None, extra_havoc=(), rebinding=None):
    """LoopSpec for a loop whose body modifies the abstract state: the state is havocked
    and the global invariant is the loop invariant (plus `extra` facts)."""
    def invariant(I, v, it):
        S = st(I)
        cl = inv_quantified(S) + guarantee_clauses(I, S)
        if extra:
            cl = cl + extra(I, v, it)
        return cl

    def havoc(I, v, it):
        old = st(I)
        new = State(I, "loop_")
        I.ghost["S"] = new
        I.ghost.setdefault("loop_old", []).append(old)
        for obj in I.ghost.get("sync_objs", []):
            obj.fields["count"] = SInt(new["count"])
        if rebinding:
            rebinding(I, v, it, old, new)
    return LoopSpec(invariant, None, havoc, extra_havoc=extra_havoc)


def unchanged_loop_spec(extra, extra_havoc=(), havoc=None):
    """LoopSpec for a loop that must not modify the abstract state (checked: identical terms)"""
    def invariant(I, v, it):
        S = st(I)
        saved = it.get("saved_state") if it is not None else None
        same = True if saved is None else all(S.t[k].eq(saved[k]) for k in S.t)
        return [("loop_body_does_not_modify_queue_state", same)] + extra(I, v, it)

    def hv(I, v, it):
        it["saved_state"] = dict(st(I).t)
        if havoc:
            havoc(I, v, it)
    return LoopSpec(invariant, None, hv, extra_havoc=extra_havoc)
