"""C18 - saving and restoring the queue preserves every job (DESIGN 3/C18).

restore(save(q)) is the composition of four real methods (job.__getstate__/__setstate__,
workq.__getstate__/__setstate__).  "At any point of any history" is discharged by
quantifying over all states satisfying Inv (a superset of the reachable ones).
Pickle is assumed to rebuild the object graph through these methods, preserving sharing;
references are therefore identified across the round trip.
"""
import z3

from pyvc.interp import Explorer, LoopSpec, Forall, PathCut, Undecided
from pyvc.values import PObj, SRef, SInt, SBool, SReal, Model, z3_of
from contracts import qmodel as qm
from contracts import c16
from contracts.qmodel import st, Z, Bo, A, JOBS, QSERVE

KEPT = ["j_done", "j_serial", "j_jobid", "j_prio", "j_chan", "j_err_none", "j_err", "j_timeout", "j_ttl",
        "j_deadline", "j_drop", "j_result", "j_info", "j_payload"]


def p_job_roundtrip(chk):
    ex = c16.new_explorer()
    gs = ex.function(JOBS, "job.__getstate__")
    ss = ex.function(JOBS, "job.__setstate__")
    ex.inline |= {gs.ident, ss.ident}

    def harness(I):
        S, w = c16.start(I, ex)
        j = I.fresh("job@job", Z)
        I.inputs[str(j)] = j
        I.assume(qm.valid_job(S, j))
        before = S.copy()
        r1 = ex.run_function(I, gs, [SRef("job", j)])
        I.oblige("getstate_no_raise", r1.returned, meta=c16.note_exc(r1))
        state = r1.value
        I.oblige("state_is_dict_without_finish_event",
                 isinstance(state, PObj) and state.cls == "jobdict" and state.fields["removed"] == {"finish_event"})
        r2 = ex.run_function(I, ss, [SRef("job", j), state])
        I.oblige("setstate_no_raise", r2.returned, meta=c16.note_exc(r2))
        S1 = st(I)
        for k in KEPT:
            I.oblige("restored_job_keeps_" + k[2:], z3.Select(S1[k], j) == z3.Select(before[k], j))
        ev = z3.Select(S1["j_event"], j)
        I.oblige("restored_job_has_a_fresh_event", z3.And(ev >= before["alloc"], ev < S1["alloc"]))
        I.oblige("fresh_event_set_iff_done", z3.Select(S1["e_set"], ev) == z3.Select(before["j_done"], j))
        o = I.fresh("other@job", Z)
        I.assume(o != j)
        for k in KEPT:
            I.oblige("other_jobs_untouched", z3.Select(S1[k], o) == z3.Select(before[k], o))

    chk.prove("jobs.job.getstate_setstate", harness, ex, targets=[gs, ss])


def p_workq_roundtrip(chk):
    ex = c16.new_explorer()
    gs = ex.function(JOBS, "workq.__getstate__")
    ss = ex.function(JOBS, "workq.__setstate__")
    ex.inline |= {gs.ident, ss.ident}
    ex.contracts[JOBS + ":workq.__init__"] = lambda I, w: ex.workq_init(I, w)

    def known_old(old, x):
        return qm.known(old, x)

    def inv_restore(I, v, it):
        S = st(I)
        old = I.ghost["old"]
        V = it["V"]

        def queued(c, x):
            cond = z3.And(z3.Select(V, z3.Select(old["j_jobid"], x)), qm.valid_job(old, x), known_old(old, x),
                          z3.Not(z3.Select(old["j_done"], x)), z3.Select(old["j_chan"], x) == c)
            return z3.And(qm.sel2(S["Q"], c, x) == z3.If(cond, 1, 0), z3.Implies(cond, z3.Select(S["q_has"], c)))

        def timeouts(x):
            cond = z3.And(z3.Select(V, z3.Select(old["j_jobid"], x)), qm.valid_job(old, x), known_old(old, x),
                          z3.Not(z3.Select(old["j_done"], x)))
            return z3.Select(S["TQ"], x) == z3.If(cond, 1, 0)

        def ids(i):
            return z3.And(z3.Select(S["id_has"], i) == z3.And(z3.Select(V, i), z3.Select(old["id_has"], i)),
                          z3.Implies(z3.Select(S["id_has"], i), z3.Select(S["id_val"], i) == z3.Select(old["id_val"], i)))
        rest = all(S.t[k].eq(old.t[k]) for k in S.t if k.startswith(("j_", "e_", "a_", "is_job", "ev_owner", "alloc")))
        return [("queues_hold_exactly_the_visited_unfinished_jobs", Forall(["chan", "job"], queued)),
                ("timeoutq_holds_exactly_the_visited_unfinished_jobs", Forall(["job"], timeouts)),
                ("id_table_holds_exactly_the_visited_jobs", Forall(["id"], ids)),
                ("no_waiters", Forall(["waiter"], lambda x: z3.Not(z3.Select(S["W"], x)))),
                ("jobs_and_events_untouched", rest),
                ("count_restored", I.eq_term(v["self"].fields["count"], SInt(old["count"])))]

    def havoc_restore(I, v, it):
        S = st(I)
        for k in ("id_has", "id_val", "q_has", "Q", "TQ"):
            S[k] = I.fresh("restore_" + k, qm.FIELDS[k])
    ex.loopspecs[(JOBS + ":workq.__setstate__", 0)] = LoopSpec(inv_restore, None, havoc_restore)

    def harness(I):
        S, w = c16.start(I, ex)
        old = S.copy()
        I.ghost["old"] = old
        r1 = ex.run_function(I, gs, [w])
        I.oblige("getstate_no_raise", r1.returned, meta=c16.note_exc(r1))
        state = r1.value
        I.oblige("saved_state_is_counter_plus_all_jobs", isinstance(state, dict) and set(state) == {"count", "jobs"})
        I.oblige("saved_counter_is_the_counter", I.eq_term(state["count"], SInt(old["count"])))
        # the new server process: no waiters, no connections (ghost: holder / conn / R are gone)
        S["holder"] = z3.K(Z, z3.IntVal(0))
        S["conn"] = z3.K(Z, z3.IntVal(0))
        S["R_has"] = z3.K(Z, z3.K(Z, False))
        w2 = qm.make_workq(I, ex.workq_cls)
        w2.fields["count"] = I.fresh_int("uninitialised")
        I.ghost["sync_objs"] = [w2]
        r2 = ex.run_function(I, ss, [w2, state])
        I.oblige("setstate_no_raise", r2.returned, meta=c16.note_exc(r2))
        S1 = st(I)
        S1["count"] = z3_of(w2.fields["count"])

        def unfinished_pullable(x):
            live = z3.And(qm.valid_job(old, x), qm.known(old, x), z3.Not(z3.Select(old["j_done"], x)))
            return z3.Implies(live, z3.And(qm.sel2(S1["Q"], z3.Select(old["j_chan"], x), x) == 1,
                                           z3.Select(S1["TQ"], x) == 1, qm.known(S1, x)))
        I.oblige("every_unfinished_job_is_queued_once_with_its_timeout", Forall(["job"], unfinished_pullable))
        I.oblige("finished_jobs_stay_registered",
                 Forall(["job"], lambda x: z3.Implies(z3.And(qm.valid_job(old, x), qm.known(old, x)), qm.known(S1, x))))
        I.oblige("nothing_else_is_queued",
                 Forall(["chan", "job"], lambda c, x: z3.Implies(qm.sel2(S1["Q"], c, x) > 0, z3.And(
                     qm.known(old, x), z3.Not(z3.Select(old["j_done"], x)), z3.Select(old["j_chan"], x) == c))))
        I.oblige("counter_restored_so_new_ids_are_fresh", S1["count"] == old["count"])
        # the restored queue satisfies the global invariant again (so C16/C17 continue to hold)
        qm.oblige_inv(I, S1, "restored.inv")

    chk.prove("jobs.workq.getstate_setstate", harness, ex, targets=[gs, ss], replay=replay)


def p_savedb(chk):
    """qserve.Main.savedb: whenever a data directory is configured the whole db is pickled
    (unconditionally: the counter is state even when no job is left)"""
    from pyvc import fsmodel
    ex = Explorer()
    fsmodel.install(ex)
    fn = ex.function(QSERVE, "Main.savedb")
    dumped = []
    ex.models["pickle.dump"] = Model("pickle.dump", lambda I, obj, f, *a: dumped.append((obj, f)))
    ex.truthy_hooks["anydict"] = lambda I, d: I.decide(d.fields["nonempty"])

    def harness(I):
        del dumped[:]
        has_path = I.decide(I.sym_bool("data_dir_configured").z)
        qpath = I.sym_str("qpath") if has_path else None
        if has_path:
            I.assume(z3.Length(qpath.z) > 0)
        workq = PObj("workq", {"id2job": PObj("anydict", {"nonempty": I.sym_bool("has_jobs").z}), "count": I.sym_int("count")})
        db = PObj("db", {"workq": workq, "key2data": PObj("anydict", {"nonempty": I.sym_bool("has_keys").z})})
        main = PObj(fn.cls, {"qpath": qpath, "db": db})
        out = ex.run_function(I, fn, [main])
        I.oblige("no_raise", out.returned)
        if has_path:
            I.oblige("state_is_saved_whenever_a_data_dir_is_configured", len(dumped) == 1 and dumped[0][0] is db)
            opened = [e for e in fsmodel.trace(I) if e[0] == "open_w"]
            I.oblige("saved_to_the_configured_path", len(opened) == 1 and opened[0][1] is qpath)
        else:
            I.oblige("nothing_written_without_a_data_dir", len(dumped) == 0)

    chk.prove("qserve.Main.savedb", harness, ex, targets=[fn])
    import ast
    from pyvc import source
    run_fn = source.module(QSERVE).find("Main.run")
    # the try statement around the server loop calls self.savedb() in its finally block, outside any condition
    loop_try = [t for t in ast.walk(run_fn) if isinstance(t, ast.Try) and any("run_forever" in ast.unparse(b) for b in t.body)]
    saves = bool(loop_try) and all(any(isinstance(st, ast.Expr) and ast.unparse(st.value) == "self.savedb()" for st in t.finalbody) for t in loop_try)
    chk.static("qserve.Main.run.saves_in_finally", saves, "savedb() is an unconditional statement of the finally block around the server loop")
    ld = ast.unparse(source.module(QSERVE).find("Main.loaddb"))
    chk.static("qserve.Main.loaddb.loads_the_saved_file_when_present", "if qpath and os.path.exists(qpath):" in ld and "self.db = pickle.load(q_file)" in ld, "loaddb restores whenever the file exists")


def replay(model, obligation):
    r = bounded_search(3, 0, 500)
    if r["failure"]:
        return True, r["failure"], "restore"
    return False, {"histories": r["n"]}, None


def bounded_search(depth, seed, random_n):
    """pickle round trip at every position of enumerated histories on the real objects"""
    import itertools, pickle, random
    from contracts import qhistory as qh
    ops = qh.ops_alphabet()
    n = 0
    samples = []

    def final_state(hist, pos):
        """observable state at the end of the history (+ a clock tick), with / without a restart at `pos`"""
        import random as _r
        _r.seed(12345)
        w = qh.World()
        try:
            for i, op in enumerate(list(hist) + [("run",), ("clock",), ("run",)]):
                if i == pos:
                    w.rebind(pickle.loads(pickle.dumps(w.wq)))
                if qh.apply(w, op) is False:
                    return None
            jobs = {jid: (j.done, j.error, j.priority, j.channel) for jid, j in w.wq.id2job.items()}
            queued = {c: sorted((x.priority, x.serial) for x in q if not x.done) for c, q in w.wq.channel2q.items() if any(not x.done for x in q)}
            return jobs, queued, w.wq.count
        finally:
            for g in list(w.pulling.values()):
                if not g.dead:
                    g.kill(block=False)
            import gevent
            gevent.sleep(0)

    def check(hist, pos):
        # a restart is not observable: same jobs, same outcomes (timeouts included), same queues as without it;
        # only histories without a blocked or holding worker at the restart are compared (their connections end with it)
        if not any(o[0] == "pull" for o in hist[:pos]):
            a, b = final_state(hist, None), final_state(hist, pos)
            if a is not None and b is not None and a != b:
                return f"a restart at position {pos} is observable at the end of the history: without it {a}, with it {b}"
        w = qh.World()
        try:
            for i, op in enumerate(hist):
                if i == pos:
                    before = {jid: (j.done, j.error, j.result, j.priority, j.serial, j.channel, j.timeout, dict(j.info))
                              for jid, j in w.wq.id2job.items()}
                    count = w.wq.count
                    wq2 = pickle.loads(pickle.dumps(w.wq))
                    w.rebind(wq2)
                    after = {jid: (j.done, j.error, j.result, j.priority, j.serial, j.channel, j.timeout, dict(j.info))
                             for jid, j in wq2.id2job.items()}
                    if before != after:
                        return f"jobs differ after restore: {before} vs {after}"
                    if wq2.count != count:
                        return "counter not restored"
                    for jid, j in wq2.id2job.items():
                        if j.done != j.finish_event.is_set():
                            return f"restored job {jid}: done={j.done} event={j.finish_event.is_set()}"
                        k = sum(1 for q in wq2.channel2q.values() for x in q if x is j)
                        if (not j.done) != (k == 1):
                            return f"restored job {jid}: done={j.done}, queued {k} times"
                        if not j.done and not any(x is j for _, x in wq2.timeoutq):
                            return f"restored unfinished job {jid} lost its timeout"
                    # order: draining a channel hands the jobs out by (priority, serial), as before the restore
                    import heapq
                    for ch, q in wq2.channel2q.items():
                        h = list(q)
                        popped = [heapq.heappop(h) for _ in range(len(h))]
                        want = sorted(q, key=lambda x: (x.priority, x.serial))
                        if [x.serial for x in popped] != [x.serial for x in want]:
                            return (f"restored channel {ch!r} hands its jobs out in the order {[(x.jobid, x.serial) for x in popped]}, "
                                    f"(priority, serial) order is {[(x.jobid, x.serial) for x in want]}")
                if qh.apply(w, op) is False:
                    return None
                msg = w.check_c16()
                if msg and i >= pos:
                    return f"after restore at {pos} and op {i} {op}: {msg}"
            return None
        finally:
            for g in list(w.pulling.values()):
                if not g.dead:
                    g.kill(block=False)
            import gevent
            gevent.sleep(0)
    for ln in range(1, depth + 1):
        for hist in itertools.product(ops, repeat=ln):
            if hist[0][0] not in ("add", "pull"):
                continue
            for pos in range(1, ln + 1):
                n += 1
                msg = check(list(hist) + [("run",)], pos)
                if msg:
                    return {"n": n, "failure": {"history": [list(o) for o in hist], "restore_at": pos, "detail": msg}, "samples": samples}
            if n % 4001 < 3 and len(samples) < 3:
                samples.append([list(o) for o in hist])
    # targeted family: jobs whose timeouts are not in insertion order, a restart, then the clock passes the short one
    for touts in ((1000.0, 5.0), (5.0, 1000.0), (1000.0, 5.0, 70.0), (70.0, 1000.0, 5.0)):
        hist = [("add", "a", 0, t) for t in touts]
        for pos in range(1, len(hist) + 1):
            n += 1
            msg = check(hist, pos)
            if msg:
                return {"n": n, "failure": {"history": [list(o) for o in hist], "restore_at": pos, "detail": msg}, "samples": samples}
    # targeted family: an id that was killed and added again keeps its old slot in id2job but gets a new serial
    A = ("add", "a", 0)
    for k in (0, 1):
        for extra in ([], [A], [A, A], [("add", "a", 1)], [("pull", 1, ("a",)), ("run",)]):
            for tail in ([], [A]):
                hist = [A, A] + [("kill", k)] + extra + [("readd", k)] + tail
                for pos in range(len(hist) - 1, len(hist) + 1):
                    n += 1
                    msg = check(hist + [("run",)], pos)
                    if msg:
                        return {"n": n, "failure": {"history": [list(o) for o in hist], "restore_at": pos, "detail": msg}, "samples": samples}
    rnd = random.Random(seed)
    ops = ops + [("readd", 0), ("readd", 1)]
    for _ in range(random_n):
        hist = [rnd.choice(ops) for _ in range(rnd.randint(4, 8))]
        hist[0] = ("add", "a", 0)
        pos = rnd.randint(1, len(hist))
        n += 1
        msg = check(hist + [("run",)], pos)
        if msg:
            return {"n": n, "failure": {"history": [list(o) for o in hist], "restore_at": pos, "detail": msg}, "samples": samples}
    return {"n": n, "failure": None, "samples": samples}


def bounded(chk):
    r = bounded_search(2 if chk.tier == "quick" else 3, chk.seed, 1500 if chk.tier == "quick" else 15000)
    chk.bounded_result("pickle_roundtrip_at_every_history_position", r["n"], r["n"], True,
                       "save/restore (real pickle) at every position of all histories of <= 2 (quick) / 3 (thorough) operations plus seeded random ones of <= 8; job fields, queue membership, timeout membership, finish event, counter, hand-out order per channel, C16 invariant afterwards; plus the kill / re-add-same-id family",
                       [{"detail": r["failure"]["detail"], "witness": r["failure"], "class": "restore"}] if r["failure"] else [], r["samples"])


def p_main_dataflow(chk):
    """qserve.Main: the queue the request handlers serve is the one loaded from the data directory, and the one saved on
    the way out is that same object.  Decided on the AST: loaddb() runs in __init__ (before run() can bind the handler
    class), `self.db` is assigned in loaddb only, the handler class binds workq / db from self.db, savedb dumps self.db."""
    import ast
    from pyvc import source
    m = source.module(QSERVE)
    cls = next(n for n in ast.walk(m.tree) if isinstance(n, ast.ClassDef) and n.name == "Main")
    fns = {f.name: f for f in cls.body if isinstance(f, ast.FunctionDef)}

    def calls(fn, name):
        return [n for n in ast.walk(fn) if isinstance(n, ast.Call) and ast.unparse(n.func) == name]
    init_loads = any(isinstance(st, ast.Expr) and isinstance(st.value, ast.Call) and ast.unparse(st.value.func) == "self.loaddb" for st in fns["__init__"].body)
    chk.static("qserve.Main.__init__.loads_the_saved_state", init_loads, "self.loaddb() is a statement of __init__",
               {"__init__": ast.unparse(fns["__init__"])[:300]}, "main-dataflow", None if init_loads else False)
    writers = sorted({f.name for f in fns.values() for n in ast.walk(f) if isinstance(n, ast.Attribute) and isinstance(n.ctx, ast.Store) and n.attr == "db"
                      and ast.unparse(n.value) == "self"})
    ok2 = writers == ["loaddb"] and not calls(fns["run"], "self.loaddb")
    chk.static("qserve.Main.db_is_bound_by_loaddb_only", ok2, f"functions assigning self.db: {writers}; loaddb() calls inside run(): {len(calls(fns['run'], 'self.loaddb'))}",
               {"writers": writers}, "main-dataflow", None if ok2 else False)
    handler = next((n for n in ast.walk(fns["run"]) if isinstance(n, ast.ClassDef) and n.name == "Handler"), None)
    binds = {} if handler is None else {t.id: ast.unparse(st.value) for st in handler.body if isinstance(st, ast.Assign) for t in st.targets if isinstance(t, ast.Name)}
    ok3 = binds.get("workq") == "self.db.workq" and binds.get("db") == "self.db"
    chk.static("qserve.Main.run.handler_serves_the_loaded_queue", ok3, f"class attributes of the request handler: {binds}", {"binds": binds}, "main-dataflow", None if ok3 else False)


def server_restart_case():
    """the real server, stopped (KeyboardInterrupt -> savedb in run()'s finally) and started again on the same data
    directory, asked over its own socket protocol: what it knew before the restart it knows afterwards"""
    import json
    import logging
    import shutil
    import tempfile
    import gevent
    from gevent import socket
    from qs import qserve
    logging.disable(logging.CRITICAL)

    class Client:
        def __init__(self, port):
            self.sock = socket.create_connection(("127.0.0.1", port))
            self.f = self.sock.makefile("rw")

        def __call__(self, name, **kw):
            self.f.write(json.dumps((name, kw)) + "\n")
            self.f.flush()
            with gevent.Timeout(10):
                d = json.loads(self.f.readline())
            if d.get("error"):
                raise RuntimeError(d["error"])
            return d["result"]

    class Run:
        def __init__(self, data_dir):
            self.main = qserve.Main(0, "127.0.0.1", data_dir, set())
            self.gr = gevent.spawn(self.main.run)
            with gevent.Timeout(10):
                while not getattr(self.main, "server", None) or not self.main.port:
                    gevent.sleep(0.01)
            gevent.sleep(0.05)

        def stop(self):
            self.gr.kill(KeyboardInterrupt, block=True, timeout=15)

    def strip(d):
        return {k: v for k, v in d.items() if k != "deadline"} if isinstance(d, dict) else d
    data_dir = tempfile.mkdtemp(prefix="verif_c18_")
    n = 0
    try:
        r1 = Run(data_dir)
        c, w = Client(r1.main.port), Client(r1.main.port)
        id1 = c("qadd", channel="render", payload="p1")
        id2 = c("qadd", channel="render", payload="p2")
        c("qadd", channel="render", payload="p3", jobid="book")
        w("qpull", channels=["render"])
        w("qfinish", jobid=id1, result={"pages": 12})
        c("qsetinfo", jobid=id2, info={"progress": 40})
        before = {jid: strip(c("qinfo", jobid=jid)) for jid in (id1, id2, "book")}
        r1.stop()
        r2 = Run(data_dir)
        c, w = Client(r2.main.port), Client(r2.main.port)
        for jid in (id1, id2, "book"):
            n += 1
            got = strip(c("qinfo", jobid=jid))
            if got != before[jid]:
                return n, {"detail": f"after a restart of the real server qinfo({jid!r}) = {got!r}, before: {before[jid]!r}",
                           "witness": {"history": "qadd x3, qpull, qfinish, qsetinfo, stop (Ctrl-C), start, qinfo"}, "class": "server-restart"}
        n += 1
        new_id = c("qadd", channel="render", payload="p4")
        if new_id in (id1, id2):
            return n, {"detail": f"after a restart a new job gets the used id {new_id!r}", "witness": {"history": "qadd x3, stop, start, qadd"}, "class": "server-restart"}
        n += 1
        pulled = None
        with gevent.Timeout(2, False):
            pulled = w("qpull", channels=["render"])
        if not pulled or pulled.get("payload") != "p2":
            return n, {"detail": f"after a restart the next pulled job is {pulled and pulled.get('payload')!r}, expected the oldest unfinished one ('p2')",
                       "witness": {"history": "qadd x3, qpull, qfinish, stop, start, qpull"}, "class": "server-restart"}
        r2.stop()
        r3 = Run(data_dir)
        c = Client(r3.main.port)
        n += 1
        got = c("qinfo", jobid=new_id)
        r3.stop()
        if not got or got.get("payload") != "p4":
            return n, {"detail": f"a job added after the first restart is gone after the second: qinfo({new_id!r}) = {got!r}",
                       "witness": {"history": "start, qadd, stop, start, qinfo"}, "class": "server-restart"}
    except Exception as e:  # noqa: BLE001
        return n + 1, {"detail": f"restart scenario raised {type(e).__name__}: {e}", "witness": {"history": "see detail"}, "class": "server-restart"}
    finally:
        shutil.rmtree(data_dir, ignore_errors=True)
    return n, None


def server_signal_case():
    """`python -m qs -d DIR` stopped with SIGINT (Ctrl-C) and with SIGTERM (what a supervisor sends): the saved state holds the job"""
    import os, pickle, shutil, signal, socket, subprocess, sys, tempfile, time
    from qs import rpcclient
    n = 0
    for sig in (signal.SIGINT, signal.SIGTERM):
        n += 1
        d = tempfile.mkdtemp(prefix="verif_c18_")
        s_ = socket.socket()
        s_.bind(("127.0.0.1", 0))
        port = s_.getsockname()[1]
        s_.close()
        p = subprocess.Popen([sys.executable, "-m", "qs", "-p", str(port), "-i", "127.0.0.1", "-d", d], stdout=subprocess.DEVNULL, stderr=subprocess.DEVNULL, env=os.environ)
        try:
            c = rpcclient.ServerProxy(host="127.0.0.1", port=port)
            jid = None
            for _ in range(150):
                try:
                    jid = c.qadd(channel="render", payload="p1")
                    break
                except OSError:
                    time.sleep(0.1)
            if jid is None:
                return n, {"detail": "the server process did not come up", "witness": {"signal": sig.name}, "class": "server-signal"}
            p.send_signal(sig)
            try:
                p.wait(timeout=20)
            except subprocess.TimeoutExpired:
                return n, {"detail": f"the server did not stop within 20 s after {sig.name}", "witness": {"signal": sig.name}, "class": "server-signal"}
            f = os.path.join(d, "workq.pickle")
            jobs_saved = None
            if os.path.exists(f):
                try:
                    with open(f, "rb") as fh:
                        jobs_saved = sorted(pickle.load(fh).workq.id2job)
                except Exception as e:  # noqa: BLE001
                    jobs_saved = f"unreadable: {type(e).__name__}"
            if jobs_saved != [jid]:
                return n, {"detail": f"server stopped with {sig.name} after qadd -> job {jid}: saved state holds {jobs_saved!r}",
                           "witness": {"signal": sig.name, "history": "start, qadd, stop"}, "class": "server-signal"}
        finally:
            if p.poll() is None:
                p.kill()
            shutil.rmtree(d, ignore_errors=True)
    return n, None


def bounded_server(chk):
    n2, f2 = server_signal_case()
    chk.bounded_result("server_process_stopped_by_signal", n2, n2, True,
                       "`python -m qs -d DIR` in a subprocess, one job added, stopped with SIGINT and with SIGTERM: the saved state holds the job", [f2] if f2 else [])
    n, f = server_restart_case()
    chk.bounded_result("real_server_stopped_and_started_again", n, n, True,
                       "qserve.Main run three times in-process on one data directory (stopped by KeyboardInterrupt), driven over its JSON line protocol on a local socket: job snapshots, id counter, hand-out order, jobs added between restarts",
                       [f] if f else [])


def run(chk):
    import os
    only = os.environ.get("VERIF_ONLY")
    for name, fn in [("job", p_job_roundtrip), ("workq", p_workq_roundtrip), ("savedb", p_savedb), ("main", p_main_dataflow), ("bounded", bounded), ("server", bounded_server)]:
        if only and name not in only.split(","):
            continue
        fn(chk)
    chk.assumptions += [
        "pickle rebuilds the object graph through __getstate__/__setstate__, preserving sharing (references are identified across the round trip)",
        "outcome counters (_channel2count) are not part of the saved state: they restart empty (limitation of the code, not claimed by C18)",
        "as C16 for the abstract state and library contracts",
    ]
