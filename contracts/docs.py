"""Shared enumerators and run-time contracts for the bounded stand-ins of the parser /
cleaner properties (C01, C02, C05, C06, C07, C09).  Everything here runs the *real* code;
results are labelled bounded and never counted as proved.
"""
import itertools
import random
import time
from concurrent.futures import ProcessPoolExecutor

# scanner-relevant lexemes + the attribute triggers that switch individual cleaner passes on
LEXEMES = [
    "a", " b", "\n", "\n\n", "==", "=", "\n== h ==\n", "\n* ", "\n# ", "\n; t : d", "\n: ", "''", "'''", "'''''",
    "[[", "]]", "[[A|b]]", "[[Image:x.png|thumb|c]]", "[[Category:X]]", "[[de:x]]", "[http://x.org t]", "http://x.org/a",
    "{|", "\n{| class=\"wikitable\"\n", "\n|-\n", "\n| c1 || c2", "\n! h1 !! h2", "\n|}", "|", "||", "!",
    "<b>", "</b>", "<i>", "<div>", "</div>", "<div style=\"overflow:auto;height:200px\">", "<div id=\"region_list\">",
    "<div class=\"noprint\">", "<div style=\"position:absolute\">", "<span>", "</span>", "<br/>", "<br>", "<center>",
    "<ref>", "</ref>", "<ref name=\"n\"/>", "<references/>", "<nowiki>", "</nowiki>", "<pre>", "</pre>", "<math>x^2</math>",
    "<gallery>\nImage:x.png|c\n</gallery>", "<source lang=\"c\">", "</source>", "<timeline>x</timeline>", "<!--", "-->",
    "&amp;", "&#65;", "&#99999999999;", "&#xffffffffff;", "&bogus;", "\x7fUNIQ-x-1-ab-QINU\x7f", "", "\x00", "\U0001F600",
    "{{", "}}", "{{{", "}}}", "{{t}}", "{{t|a=1}}", "----", "\n ", "~~~~", "<li>", "</li>", "<table>", "<tr>", "<td>", "</table>",
    # numbers written in the wikitext that a tag extension turns into work or into int()
    "<pages from=1 to=99999999 index=x />", "<pages from=5 to=3 index=x />",
    "<imagemap>\nImage:x.png|100px\npoly 10 20 30 40 ... [[K]]\nrect 1.2.3 4 5 6 [[x]]\ncircle . 2 3 [[y]]\ndefault [[z]]\n</imagemap>",
    "<imagemap>\nImage:x.png|100px\nrect " + "1" * 5000 + " 2 3 4 [[x]]\n</imagemap>",
    # a heading line that a table start / a cell separator splits across token lists
    "\n== a <table> b ==\n", "\n== a || b ==\n",
    # templates that include themselves through a tag whose body is parsed by a nested parser
    "{{SelfRef}}", "{{SelfPoem}}", "{{SelfGallery}}",
    "<td style=\"overflow:auto;height:200px\">x</td>", "<h2>", "</h2>", "<p>", "<blockquote>", "<small>", "<sup>", "<u>", "<s>",
]

TEMPLATES = {
    "T": "text {{{1|def}}}", "Rec": "a {{Rec}} b", "M1": "{{M2}}", "M2": "{{M1}} x", "Tab": "{|\n| a\n|}",
    "Ul": "\n* x\n* y", "Open": "<div><b>", "Cell": "| c ||",
    "SelfRef": "a<ref>{{SelfRef}}</ref>", "SelfPoem": "<poem>{{SelfPoem}}</poem>", "SelfGallery": "<gallery>\n{{SelfGallery}}\n</gallery>",
}


class Page:
    def __init__(self, raw):
        self.rawtext = raw
        self.names = []


class DB:
    """a wikidb meeting the interface precondition (normalize_and_get_page, get_siteinfo,
    get_url), with self- and mutually recursive templates behind it"""

    def __init__(self, lang="en", templates=True):
        from mwlib.core import nshandling
        from mwlib.network import siteinfo
        self.siteinfo = siteinfo.get_siteinfo(lang)
        self.nshandler = nshandling.NsHandler(self.siteinfo)
        self.templates = TEMPLATES if templates else {}

    def get_siteinfo(self):
        return self.siteinfo

    def get_url(self, title, _=None):
        return None

    def normalize_and_get_page(self, title, defaultns):
        ns, partial, full = self.nshandler.splitname(title, defaultns)
        if ns == 10 and partial in self.templates:
            return Page(self.templates[partial])
        return None

    def normalize_and_get_image_path(self, name):
        return None


def parse(text, lang="en", db=True):
    from mwlib.parser.refine.uparser import parse_string
    return parse_string(title="Test", raw=text, wikidb=DB(lang) if db else None, lang=lang)


# ----------------------------------------------------------------------------- tree contracts
def wf_violation(root):
    """C05 well-formedness: every node once, parent links match, root has no parent, no
    cycles, text leaves childless"""
    from mwlib.parser import nodes
    if getattr(root, "parent", None) is not None:
        return "root has a parent"
    seen = {}
    stack = [(root, None)]
    n = 0
    while stack:
        node, parent = stack.pop()
        n += 1
        if n > 200000:
            return "tree too large / cycle"
        if id(node) in seen:
            return f"node {node!r} occurs more than once"
        seen[id(node)] = True
        if parent is not None and getattr(node, "parent", None) is not parent:
            return f"parent link of {node!r} points to {getattr(node, 'parent', None)!r}, listed by {parent!r}"
        if isinstance(node, nodes.Text) and node.children:
            return f"text leaf {node!r} has children"
        for c in node.children:
            stack.append((c, node))
    return None


def container_violation(root):
    """the writers' structural contract after the full cleaning sequence"""
    from mwlib.parser import advtree as A
    from mwlib.parser import nodes as N
    caps = (N.Caption, A.TableCaption)
    for node in [root] + list(root.get_all_children()):
        cls = node.__class__
        kids = [c.__class__ for c in node.children]
        if cls is A.Table and any(k is not A.Row and k not in caps for k in kids):
            return f"Table contains {[k.__name__ for k in kids if k is not A.Row and k not in caps]}"
        if cls is A.Row and any(k is not A.Cell for k in kids):
            return f"Row contains {[k.__name__ for k in kids if k is not A.Cell]}"
        if cls is A.ItemList and any(k is not A.Item for k in kids):
            return f"ItemList contains {[k.__name__ for k in kids if k is not A.Item]}"
        p = node.parent.__class__ if node.parent is not None else None
        if cls is A.Cell and p is not A.Row:
            return f"Cell under {p.__name__ if p else None}"
        if cls is A.Row and p is not A.Table:
            return f"Row under {p.__name__ if p else None}"
        if cls is A.Item and p is not A.ItemList:
            return f"Item under {p.__name__ if p else None}"
    return None


class _NotTerminated(BaseException):
    """raised by the watchdog timer inside a pass / the parser (BaseException: not swallowed by `except Exception`)"""


def _watchdog(signum, frame):
    raise _NotTerminated()


def one_input(args):
    """watchdog wrapper: a repeating interval timer (a one-shot alarm can be swallowed once and the process then spins)"""
    import signal
    old = signal.signal(signal.SIGALRM, _watchdog)
    signal.setitimer(signal.ITIMER_REAL, 30.0, 2.0)
    try:
        return _one_input(args)
    finally:
        signal.setitimer(signal.ITIMER_REAL, 0)
        signal.signal(signal.SIGALRM, old)


def _one_input(args):
    """parse one text, build the advanced tree, run every pass directly in order; evaluate
    the run-time contracts of C01 (parse total), C05 (WF after build and after each pass,
    container typing at the end) and C06 (each pass returns, no ERROR report, cpu bound)."""
    import logging
    import io
    import contextlib
    logging.disable(logging.CRITICAL)
    text, lang = args[:2]
    rtl = len(args) > 2 and args[2]
    out = {"text": text}
    if rtl:
        out["rtl"] = True
    from mwlib.parser import advtree
    from mwlib.parser.treecleaner import TreeCleaner
    buf = io.StringIO()
    t0 = time.process_time()
    try:
        with contextlib.redirect_stdout(buf), contextlib.redirect_stderr(buf):
            tree = parse(text, lang)
    except _NotTerminated:
        out["c01"] = "parse_string did not return within 30 s"
        return out
    except BaseException as e:  # noqa: BLE001
        out["c01"] = f"parse_string raised {type(e).__name__}: {e}"[:300]
        return out
    if tree.__class__.__name__ != "Article":
        out["c01"] = f"parse_string returned {tree.__class__.__name__}"
        return out
    out["parse_cpu"] = time.process_time() - t0
    try:
        with contextlib.redirect_stdout(buf), contextlib.redirect_stderr(buf):
            advtree.build_advanced_tree(tree)
    except BaseException as e:  # noqa: BLE001
        out["c05"] = f"build_advanced_tree raised {type(e).__name__}: {e}"[:300]
        return out
    v = wf_violation(tree)
    if v:
        out["c05"] = f"after build_advanced_tree: {v}"
        return out
    tc = TreeCleaner(tree, save_reports=True, rtl=rtl) if rtl else TreeCleaner(tree, save_reports=True)
    for name in tc.cleaner_methods:
        t1 = time.process_time()
        try:
            with contextlib.redirect_stdout(buf), contextlib.redirect_stderr(buf):
                getattr(tc, name)(tree)
        except _NotTerminated:
            out["c06"] = f"pass {name} did not terminate within 30 s"
            out["c06_class"] = f"{name}:not-terminated"
            return out
        except BaseException as e:  # noqa: BLE001
            out["c06"] = f"pass {name} raised {type(e).__name__}: {e}"[:300]
            out["c06_class"] = f"{name}:{type(e).__name__}"
            return out
        if time.process_time() - t1 > 5.0:
            out["c06"] = f"pass {name} took {time.process_time() - t1:.1f}s cpu"
            out["c06_class"] = f"{name}:slow"
            return out
        v = wf_violation(tree)
        if v:
            out["c05"] = f"after pass {name}: {v}"
            out["c05_class"] = f"{name}"
            return out
    v = container_violation(tree)
    if v:
        out["c05"] = f"after the full cleaning sequence: {v}"
        out["c05_class"] = "container:" + v.split(" ")[0]
    out["classes"] = sorted({c.__class__.__name__ for c in list(tree.get_all_children())})
    return out


def tag_documents():
    """every tag name the scanner / the tag-extension registry knows, in each spelling (open, close,
    self-closing, with attribute, balanced, unbalanced) inside three contexts"""
    from mwlib.parser import tagext
    from mwlib.parser.token.utoken import CompatScanner
    sc = CompatScanner()
    sc._init_allowed_tags()
    names = sorted(set(sc.allowed_tags) | set(tagext.default_registry.name2ext) |
                   {"nowiki", "pre", "ref", "references", "gallery", "source", "imagemap", "poem", "includeonly", "noinclude", "onlyinclude"})
    out = []
    for t in names:
        for form in (f"<{t}/>", f"<{t} />", f"<{t}>", f"</{t}>", f"<{t}>x</{t}>", f"<{t} a=\"1\" b=2/>", f"<{t}></{t}>", f"<{t}><!-- c --></{t}>"):
            out.append(form)
            out.append(f"a {form} b\n\n* {form}\n")
            out.append("{|\n|-\n| " + form + "\n|}")
    return out


def texts(tier, seed):
    k = 2 if tier == "quick" else 3
    rnd = random.Random(seed)
    out = []
    for n in range(1, k + 1):
        if n <= 2:
            for t in itertools.product(LEXEMES, repeat=n):
                out.append("".join(t))
        else:
            reduced = LEXEMES[::3]
            for t in itertools.product(reduced, repeat=n):
                out.append("".join(t))
    for _ in range(3000 if tier == "quick" else 30000):
        out.append("".join(rnd.choice(LEXEMES) for _ in range(rnd.randint(3, 9))))
    from contracts import docgrammar, triggerdocs
    out.extend(docgrammar.documents(tier, seed))
    out.extend(triggerdocs.trigger_documents(tier))
    out.extend(tag_documents())
    return out


def _limit_memory():
    """a number written in the wikitext must not be able to take the checking machine down: 4 GiB per worker"""
    import resource
    resource.setrlimit(resource.RLIMIT_AS, (4 << 30, 4 << 30))


def run_passes(tier, seed, want=("c01", "c05", "c06")):
    cases = texts(tier, seed)
    failures = {w: {} for w in ("c01", "c05", "c06")}
    classes = set()
    samples = []
    with ProcessPoolExecutor(max_workers=14, initializer=_limit_memory) as pool:
        from contracts import triggerdocs
        rtl_cases = [(t, "en", True) for t in triggerdocs.rtl_documents() + triggerdocs.trigger_documents(tier)[::7]]
        for r in pool.map(one_input, [(t, "en") for t in cases] + rtl_cases, chunksize=400):
            for w in failures:
                if w in r:
                    cls = r.get(w + "_class", r[w].split(":")[0][:60])
                    failures[w].setdefault(cls, {"detail": r[w] + f" on {r['text']!r}"[:300] + (" (TreeCleaner(rtl=True))" if r.get("rtl") else ""),
                                                 "witness": {"wikitext": r["text"], "rtl": bool(r.get("rtl"))}, "class": cls})
            if "classes" in r:
                classes.add(tuple(r["classes"]))
                if len(samples) < 3 and len(r["classes"]) > 4:
                    samples.append(r["text"])
    return {"evaluations": len(cases) + len(rtl_cases), "distinct": len(classes),
            "bound": f"all sequences of <= 2 lexemes over a {len(LEXEMES)}-lexeme alphabet (every scanner rule, extension tags, "
                     f"out-of-range entities, control / non-BMP characters, attribute triggers of the cleaner) "
                     f"{'+ length 3 over a reduced alphabet ' if tier != 'quick' else ''}+ seeded random sequences of 3..9 lexemes "
                     f"+ documents of the C02 grammar + trigger documents (pass-enabling classes/ids/styles x table shapes x captions x preceding text; nested tables; blank inline siblings; formulas under TreeCleaner(rtl=True)) + every known tag name in 8 spellings x 3 contexts; recursive templates behind the wikidb",
            "failures": {w: list(f.values()) for w, f in failures.items()}, "samples": samples}
