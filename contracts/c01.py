"""C01 - parsing is total: proof obligations on the leaf mechanisms (DESIGN 3/C01)."""
import z3

from pyvc.interp import Explorer

UTIL = "mwlib/parser/refine/util.py"


def p1_resolve_entity(chk):
    ex = Explorer()
    fn = ex.function(UTIL, "resolve_entity")

    def harness(I):
        entity = I.sym_str("entity")
        e = entity.z
        # weakest common precondition of the two callers (scanner rule t_entity and
        # replace_html_entities' regex &[^;]*;): "&" body ";" with no ';' in the body
        I.assume(z3.Length(e) >= 2)
        I.assume(z3.PrefixOf(z3.StringVal("&"), e))
        I.assume(z3.SuffixOf(z3.StringVal(";"), e))
        I.assume(z3.Not(z3.Contains(z3.SubString(e, 1, z3.Length(e) - 2), z3.StringVal(";"))))
        out = ex.run_function(I, fn, [entity])
        I.oblige("no_raise", out.returned, meta={"exc": out.exc.cls.name if out.exc else None})
        from pyvc.values import kind_of, z3_of
        I.oblige("result_is_str", kind_of(out.value) == "str")
        r = z3_of(out.value)
        I.oblige("result_entity_or_one_char", z3.Or(r == e, z3.Length(r) == 1))

    def replay(model, obligation):
        ent = model.get("entity")
        if ent is None:
            return None, model, None
        from mwlib.parser.refine.util import resolve_entity
        cands = [ent]
        # a counter-model over the uninterpreted int() gives the shape ("&#<digits>;"), the
        # numeric value behind it is in the model as py_int10_val; rebuild the literal
        for k, v in model.items():
            if isinstance(v, int) and abs(v) > 0x10FFFF:
                cands += [f"&#{v};", f"&#x{abs(v):x};"]
        cands += ["&#99999999999;", "&#x99999999999;", "&#-99999999999;"]
        for c in cands:
            try:
                r = resolve_entity(c)
                if not isinstance(r, str):
                    return True, {"entity": c, "returned": repr(r)}, "non-str"
            except Exception as e:  # noqa: BLE001
                return True, {"entity": c, "raised": type(e).__name__}, type(e).__name__
        return False, {"entity": ent}, None

    chk.prove("util.resolve_entity", harness, ex, replay=replay, targets=[fn])


def run(chk):
    p1_resolve_entity(chk)
