"""C01 - parsing is total: proof obligations on the leaf mechanisms (DESIGN 3/C01)."""
import z3

from pyvc.interp import Explorer

UTIL = "mwlib/parser/refine/util.py"


def p1_resolve_entity(chk):
    ex = Explorer()
    fn = ex.function(UTIL, "resolve_entity")

    def harness(I):
        entity = I.sym_str("entity")
        e = entity.z
        # weakest common precondition of the two callers (scanner rule t_entity and
        # replace_html_entities' regex &[^;]*;): "&" body ";" with no ';' in the body
        I.assume(z3.Length(e) >= 2)
        I.assume(z3.PrefixOf(z3.StringVal("&"), e))
        I.assume(z3.SuffixOf(z3.StringVal(";"), e))
        I.assume(z3.Not(z3.Contains(z3.SubString(e, 1, z3.Length(e) - 2), z3.StringVal(";"))))
        out = ex.run_function(I, fn, [entity])
        I.oblige("no_raise", out.returned, meta={"exc": out.exc.cls.name if out.exc else None})
        from pyvc.values import kind_of, z3_of
        I.oblige("result_is_str", kind_of(out.value) == "str")
        r = z3_of(out.value)
        I.oblige("result_entity_or_one_char", z3.Or(r == e, z3.Length(r) == 1))

    def replay(model, obligation):
        ent = model.get("entity")
        if ent is None:
            return None, model, None
        from mwlib.parser.refine.util import resolve_entity
        cands = [ent]
        # a counter-model over the uninterpreted int() gives the shape ("&#<digits>;"), the
        # numeric value behind it is in the model as py_int10_val; rebuild the literal
        for k, v in model.items():
            if isinstance(v, int) and abs(v) > 0x10FFFF:
                cands += [f"&#{v};", f"&#x{abs(v):x};"]
        cands += ["&#99999999999;", "&#x99999999999;", "&#-99999999999;"]
        for c in cands:
            try:
                r = resolve_entity(c)
                if not isinstance(r, str):
                    return True, {"entity": c, "returned": repr(r)}, "non-str"
            except Exception as e:  # noqa: BLE001
                return True, {"entity": c, "raised": type(e).__name__}, type(e).__name__
        return False, {"entity": ent}, None

    chk.prove("util.resolve_entity", harness, ex, replay=replay, targets=[fn])


def run(chk):
    p1_resolve_entity(chk)


# ---------------------------------------------------------------------------- P2 bold/italic path search
STYLE = "mwlib/parser/styleanalyzer.py"


def p2_get_next(chk):
    """State.get_next(count): for every count >= 2 it adds at most B(count) successor states
    (B = 1, 2, 2, 6, 6 for count = 2, 3, 4, 5, > 5), each linked to the given predecessor, and
    never raises - the per-step fan-out bound behind 'pruned to 32 states => no blow-up'"""
    import z3
    from pyvc.values import PObj, SInt, SBool, ClassRef
    from pyvc import source
    ex = Explorer()
    fn = ex.function(STYLE, "State.get_next")
    ex.inline |= {STYLE + ":State.__init__", STYLE + ":State.clone", STYLE + ":State.get_next"}
    ex.inline_all = False
    mod = source.module(STYLE)
    cls = ClassRef(mod.defs["State"], mod)

    def harness(I):
        k = I.choose(5, "count_case")
        if k < 4:
            count = k + 2
        else:
            count = I.sym_int("count")
            I.assume(count.z > 5)
        prev0 = PObj(cls, {"apocount": 0, "is_bold": False, "is_italic": False, "previous": None}, name="root")
        st = PObj(cls, {"apocount": I.sym_int("apocount"), "is_bold": I.decide(I.sym_bool("bold").z),
                        "is_italic": I.decide(I.sym_bool("italic").z), "previous": prev0}, name="self")
        I.assume(st.fields["apocount"].z >= 0)
        res = []
        out = ex.run_function(I, fn, [st, count, res])
        I.oblige("no_raise", out.returned, meta={"exc": out.exc.cls.name if out.exc else None})
        bound = {2: 1, 3: 2, 4: 2, 5: 6}.get(count if isinstance(count, int) else 5, 6)
        I.oblige("fan_out_bounded", len(res) <= bound, meta={"count": str(count), "produced": len(res)})
        I.oblige("at_least_one_successor", len(res) >= 1)
        for s in res:
            I.oblige("successors_link_to_the_predecessor", s.fields.get("previous") is st)
            I.oblige("apostrophe_surplus_non_negative", z3.BoolVal(True) if isinstance(s.fields["apocount"], int) and s.fields["apocount"] >= 0
                     else (s.fields["apocount"].z >= 0 if hasattr(s.fields["apocount"], "z") else False))

    chk.prove("styleanalyzer.State.get_next", harness, ex, targets=[fn], replay=None)
    import ast
    src = ast.unparse(source.module(STYLE).find("compute_path"))
    chk.static("styleanalyzer.compute_path.pruned_to_32_states", "states = states[:32]" in src and "states = [best]" in src, "states[:32] after sorting")


def bounded_compute_path(chk):
    import itertools, time
    from mwlib.parser import styleanalyzer
    n = 0
    fail = None
    t0 = time.process_time()
    for ln in range(0, 6):
        for counts in itertools.product([2, 3, 4, 5, 6, 9], repeat=ln):
            n += 1
            try:
                r = styleanalyzer.compute_path(list(counts))
                if len(r) != len(counts):
                    fail = {"detail": f"compute_path({counts}) has length {len(r)}", "witness": {"counts": counts}, "class": "length"}
            except Exception as e:  # noqa: BLE001
                fail = {"detail": f"compute_path({counts}) raised {type(e).__name__}", "witness": {"counts": counts}, "class": "raise"}
            if fail:
                break
        if fail:
            break
    # growth: work per apostrophe run stays bounded (32 states x fan-out 6), also when all successor states cost the same
    import signal

    class Stop(BaseException):
        pass

    def alarm(*_):
        raise Stop()
    old = signal.signal(signal.SIGALRM, alarm)
    try:
        for name, counts in [(f"mixed x{size}", [3, 2, 5, 4, 7] * (size // 5)) for size in (200, 400, 800)] + \
                [(f"[2] + [{c}] x {k}", [2] + [c] * k) for c in (5, 3, 2, 4) for k in (16, 60, 400)] + \
                [(f"[{c}] x {k}", [c] * k) for c in (5, 3) for k in (17, 61, 401)]:
            if fail:
                break
            t = time.process_time()
            signal.setitimer(signal.ITIMER_REAL, 20.0, 1.0)
            try:
                styleanalyzer.compute_path(list(counts))
                dt = time.process_time() - t
            except Stop:
                dt = 99.0
            finally:
                signal.setitimer(signal.ITIMER_REAL, 0)
            if dt > 5.0:
                fail = {"detail": f"compute_path on apostrophe runs {name} took {'more than 20' if dt == 99.0 else f'{dt:.1f}'} s",
                        "witness": {"counts": name, "wikitext": "".join("x" + "'" * c for c in counts[:80])}, "class": "slow"}
    finally:
        signal.signal(signal.SIGALRM, old)
    chk.bounded_result("compute_path_all_short_count_sequences", n, n, True,
                       "all sequences of <= 5 apostrophe-run lengths over {2,3,4,5,6,9}: result length == number of runs, no exception; plus 200/400/800-run mixed inputs and runs of 16/60/400 equal groups (with and without an unbalanced opener) under 5 s cpu",
                       [fail] if fail else [])


def p6_nested_parse_call_sites(chk):
    """the bound on nested tag-body parses (depth counter and budget, ghosts carried in xopts) holds only if every nested
    call of parse_txt hands the enclosing parse's options on: `xopts` itself or a copy of all of its state"""
    import ast
    from pyvc import source
    m = source.module(CORE)
    sites, bad = 0, []
    for fn in ast.walk(m.tree):
        if not isinstance(fn, ast.FunctionDef) or fn.name == "parse_txt":
            continue
        for n in ast.walk(fn):
            if isinstance(n, ast.Call) and isinstance(n.func, ast.Name) and n.func.id == "parse_txt":
                sites += 1
                arg = n.args[1] if len(n.args) > 1 else next((k.value for k in n.keywords if k.arg == "xopts"), None)
                ok = isinstance(arg, ast.Name) and arg.id == "xopts"
                if isinstance(arg, ast.Call) and isinstance(arg.func, ast.Name) and arg.func.id == "XBunch":
                    ok = any(k.arg is None and ast.unparse(k.value) == "xopts.__dict__" for k in arg.keywords)
                if isinstance(arg, ast.Name) and arg.id != "xopts":
                    # a local alias: every assignment to it in this function must be such a copy
                    binds = [b.value for b in ast.walk(fn) if isinstance(b, ast.Assign) and any(isinstance(t, ast.Name) and t.id == arg.id for t in b.targets)]
                    ok = bool(binds) and all(isinstance(b, ast.Call) and isinstance(b.func, ast.Name) and b.func.id == "XBunch"
                                             and any(k.arg is None and ast.unparse(k.value) == "xopts.__dict__" for k in b.keywords) for b in binds)
                if not ok:
                    bad.append(f"{fn.name}:{n.lineno} {ast.unparse(n)[:120]}")
    chk.static("core.nested_parse_txt_calls_carry_the_enclosing_options", sites >= 4 and not bad,
               f"{sites} nested calls of parse_txt in refine/core.py; not handing on xopts / a full copy: {bad}",
               {"call_sites": bad}, "nested-parse-options", None if not bad else False)


def bounded_self_inclusion(chk):
    """a template that includes itself k times through tag bodies that are parsed by a nested parser: the number of
    nested parses must not grow like k**depth"""
    import signal
    import time
    from mwlib.parser.refine import uparser
    from contracts import docs

    class Stop(BaseException):
        pass

    def alarm(*_):
        raise Stop()
    fails, n = [], 0
    old = signal.signal(signal.SIGALRM, alarm)
    try:
        pg = '<pages index="T" from=1 to=1 />'
        for tag, body in (("ref", "<ref>{{T}}</ref>"), ("poem", "<poem>{{T}}</poem>"), ("gallery", "<gallery>\n{{T}}\n</gallery>"),
                          ("mixed", "<ref>{{T}}</ref><poem>{{T}}</poem>"), ("pages", "p " + pg), ("pages+ref", pg + "<ref>{{T}}</ref>")):
            for k in (1, 2, 3, 4, 6):
                n += 1
                t0 = time.process_time()
                signal.setitimer(signal.ITIMER_REAL, 30.0, 1.0)
                try:
                    db = docs.DB("en")
                    db.templates = {"T": body * k, "T/1": body * k}
                    uparser.parse_string("A", raw="{{T}}" if "pages" not in tag else pg, wikidb=db, lang="en")
                    took = time.process_time() - t0
                    why = None if took < 20.0 else f"took {took:.0f} s cpu"
                except Stop:
                    why = "no result after 30 s"
                except Exception as e:  # noqa: BLE001
                    why = f"raised {type(e).__name__}: {e}"[:200]
                finally:
                    signal.setitimer(signal.ITIMER_REAL, 0)
                if why:
                    art = "{{T}}" if "pages" not in tag else pg
                    fails.append({"detail": f"template pages T and T/1 = {body!r} * {k}, article {art!r}: {why}",
                                  "witness": {"template_T": body * k, "article": art}, "class": f"self-inclusion:{tag}"})
                    break
            if fails:
                break
    finally:
        signal.signal(signal.SIGALRM, old)
    chk.bounded_result("self_inclusion_through_tag_bodies", n, n, True,
                       "a template including itself 1, 2, 3, 4, 6 times through <ref> / <poem> / <gallery> / mixed bodies, and a page transcluding itself through <pages>: an article tree within 20 s cpu",
                       fails[:1])


def bounded_parse(chk):
    from contracts import docs
    res = docs.run_passes(chk.tier, chk.seed, want=("c01",))
    chk.bounded_result("parse_string_total", res["evaluations"], res["distinct"], False, res["bound"],
                       res["failures"].get("c01", []), res["samples"])


def run(chk):  # noqa: F811
    p1_resolve_entity(chk)
    p2_get_next(chk)
    p3_tokenize_precondition(chk)
    p4_regex_ambiguity(chk)
    p5_sections_progress(chk)
    p6_nested_parse_call_sites(chk)
    bounded_compute_path(chk)
    bounded_self_inclusion(chk)
    bounded_parse(chk)
    chk.assumptions += [
        "whole-pipeline totality (20 refinement passes, tagext/imgmap handlers, the C++ scanner) is NOT a discharged contract: only the leaf mechanisms above are proved; the rest is observed by the bounded stand-in",
        "library contracts of int()/chr()/str slicing; html.entities.name2codepoint values lie in range(0x110000) (data lemma, checked concretely)",
    ]


# ----------------------------------------------------------------------------- P3: tokenize is never handed an empty text
CORE = "mwlib/parser/refine/core.py"
UTOKEN = "mwlib/parser/token/utoken.py"


class _Stop(Exception):
    """end of the verified prefix of parse_txt (everything up to and including the tokenize call)"""


def p3_tokenize_precondition(chk):
    from pyvc.values import PObj, SStr, Model, ClassRef
    from pyvc import source

    # -- the callee: tokenize raises ValueError exactly on falsy input (its precondition)
    ex = Explorer()
    fn_tok = ex.function(UTOKEN, "tokenize")
    ex.models["mwlib.parser.token.utoken.compat_scan"] = Model("compat_scan", lambda I, t, uniquifier=None: PObj("tokenlist", {}))
    ex.global_overrides[(UTOKEN, "compat_scan")] = Model("compat_scan", lambda I, t, uniquifier=None: PObj("tokenlist", {}))

    def h_tok(I):
        t = I.fresh("text", z3.StringSort())
        I.inputs["text"] = t
        out = ex.run_function(I, fn_tok, [SStr(t)])
        I.oblige("raises_exactly_on_empty_text", z3.If(z3.Length(t) == 0, z3.BoolVal(bool(out.raised("ValueError") is True or (not out.returned))), z3.BoolVal(out.returned)))
    chk.prove("utoken.tokenize", h_tok, ex, targets=[fn_tok])

    # -- the caller: parse_txt (every parse, and every tag extension re-parsing its body, goes through it)
    ex = Explorer()
    fn = ex.function(CORE, "parse_txt")
    mk = lambda name: (lambda I, *a, **k: PObj(name, {}))      # noqa: E731
    ex.constructors["Expander"] = lambda I, c, *a, **k: PObj("Expander", {})
    ex.constructors["DictDB"] = lambda I, c, *a, **k: PObj("DictDB", {})
    ex.constructors["ImageMod"] = lambda I, c, *a, **k: PObj("ImageMod", {})
    ex.constructors["Uniquifier"] = lambda I, c, *a, **k: PObj("Uniquifier", {})
    ex.models["mwlib.core.nshandling.get_nshandler_for_lang"] = Model("get_nshandler_for_lang", mk("nshandler"))
    ex.inline.add(CORE + ":XBunch.__init__")
    ex.inline.add(CORE + ":XBunch.__getattr__")

    def replace_tags(I, u, txt):
        # assumed contract of Uniquifier.replace_tags: any string may come back - comments are
        # removed, so a non-empty text can become empty
        r = I.fresh("text_without_comments_and_tags", z3.StringSort())
        I.inputs["text_after_replace_tags"] = r
        return SStr(r)
    ex.methods[("Uniquifier", "replace_tags")] = Model("Uniquifier.replace_tags", replace_tags)
    ex.methods[("logger", "debug")] = Model("log.debug", lambda I, l, *a, **k: None)
    ex.global_overrides[(CORE, "log")] = PObj("logger", {})

    def tokenize_contract(I, txt, uniquifier=None):
        I.oblige("tokenize_precondition_text_is_not_empty", z3.Length(z3_of_str(txt)) > 0)
        raise _Stop()
    ex.contracts[UTOKEN + ":tokenize"] = tokenize_contract

    def z3_of_str(v):
        from pyvc.values import z3_of
        return z3_of(v)

    def harness(I):
        t = I.fresh("txt", z3.StringSort())
        I.inputs["txt"] = t
        kw = {}
        if I.decide(I.fresh("caller_passes_a_uniquifier", z3.BoolSort())):
            kw["uniquifier"] = PObj("Uniquifier", {})
        if I.decide(I.fresh("caller_passes_lang", z3.BoolSort())):
            kw["lang"] = "de"
        try:
            out = ex.run_function(I, fn, [SStr(t)], kw)
        except _Stop:
            I.cover("reaches_tokenize")
            return
        I.oblige("returns_without_tokenizing_only_for_empty_text", z3.And(out.returned))
    chk.prove("core.parse_txt[up to tokenize]", harness, ex, targets=[fn], replay=replay_parse_txt)


def replay_parse_txt(model, obligation):
    from mwlib.parser.refine import core, uparser
    cands = ["<!-- c -->", "<!---->", "<!-- a --><!-- b -->", "<time><!-- x --></time>", "<ref><!-- x --></ref>", "", " ", "\n",
             "<nowiki></nowiki>", "<!-- c -->\n", "<math></math>", "<gallery><!-- --></gallery>", "<poem><!-- x --></poem>"]
    for s in cands:
        for how in ("parse_txt", "parse_string"):
            try:
                if how == "parse_txt":
                    core.parse_txt(s)
                else:
                    uparser.parse_string("t", s)
            except Exception as e:  # noqa: BLE001
                return True, {"call": f"{how}({s!r})", "raised": f"{type(e).__name__}: {e}"}, "tokenize_empty"
    return False, {"cases": 2 * len(cands)}, None


# ----------------------------------------------------------------------------- P4: no regular expression of the parser has exponential ambiguity
_RECORDER = r'''
import json, re, sys
seen = {}
_orig = re._compile
def _rec(pattern, flags):
    r = _orig(pattern, flags)
    try:
        if isinstance(pattern, (str, bytes)):
            f = sys._getframe(1)
            while f is not None and f.f_code.co_filename.endswith(("/re/__init__.py", "/re.py")):
                f = f.f_back
            where = f"{f.f_code.co_filename}:{f.f_lineno}" if f else "?"
            if "/mwlib/" in where:
                seen.setdefault((r.pattern if isinstance(r.pattern, str) else r.pattern.decode("latin-1"), int(r.flags)), where.split("/mwlib/")[-1])
    except Exception:
        pass
    return r
re._compile = _rec
import importlib, pkgutil
import mwlib.parser, mwlib.parser.refine, mwlib.parser.templ, mwlib.parser.token
for pkg in (mwlib.parser, mwlib.parser.refine, mwlib.parser.templ, mwlib.parser.token):
    for mi in pkgutil.iter_modules(pkg.__path__):
        if not mi.ispkg:
            try:
                importlib.import_module(pkg.__name__ + "." + mi.name)
            except Exception:
                pass
for n in ("mwlib.core.nshandling", "mwlib.extensions.imgmap", "mwlib.utils.uniq", "mwlib.parser.expander", "mwlib.parser.tagext"):
    importlib.import_module(n)
sys.path.insert(0, sys.argv[1])
from contracts import docs
text = "".join(docs.LEXEMES) + "\n" + "\n".join(docs.tag_documents()[:400]) + "\n#REDIRECT [[x]]\n{{#if:a|b}}{{#switch:a|a=1}}{{#time:Y|2001}}{{#expr:1+1}}"
for lang in ("en", "de", "fr"):
    for db in (True, False):
        try:
            docs.parse(text, lang, db)
        except Exception as e:
            pass
json.dump([[p, f, w] for (p, f), w in seen.items()], sys.stdout)
'''


def p4_regex_ambiguity(chk, only=None):
    """only: predicate on the source location 'pkg/module.py:line' selecting the patterns to analyse (C03 takes the
    expander's: parser/templ/)"""
    import json
    import os
    import re
    import subprocess
    import sys
    from pyvc import regexamb, source
    verif = os.path.dirname(os.path.dirname(os.path.abspath(__file__)))
    env = dict(os.environ, PYTHONPATH=os.path.join(source.REPO, "src") if hasattr(source, "REPO") else os.environ.get("PYTHONPATH", ""))
    out = subprocess.run([sys.executable, "-c", _RECORDER, verif], capture_output=True, text=True, env=env, timeout=600)
    if out.returncode != 0:
        chk.crashes.append("regex recorder failed: " + out.stderr[-400:])
        return
    pats = json.loads(out.stdout)
    if only is not None:
        pats = [x for x in pats if only(x[2])]
    n_ok, cands = 0, []
    for pattern, flags, where in sorted(pats, key=lambda x: x[2]):
        name = f"regex.no_exponential_ambiguity[{where}]"
        try:
            c = regexamb.analyse(pattern, flags)
        except Exception as e:  # noqa: BLE001
            chk.undecided.append((f"{chk.prop}.{name}", f"regex analysis failed: {type(e).__name__}: {e}"))
            continue
        if c is None:
            chk.static(name, True, f"{pattern!r:.80}: squared position automaton has no component with a diagonal and an off-diagonal pair")
            n_ok += 1
            continue
        if "skipped" in c:
            chk.undecided.append((f"{chk.prop}.{name}", f"automaton too large: {c['skipped']}"))
            continue
        ok, info = regexamb.confirm(re.compile(pattern, flags), c)
        if ok:
            chk.static(name, False, f"{pattern!r:.120} backtracks exponentially: matching time {info['times']} for pump word {c['pump']!r} after {c['prefix']!r}",
                       witness={"pattern": pattern, "flags": flags, "where": where, "input": info["input"], "method": info["method"], "times": info["times"]},
                       witness_class="exponential_regex", reproduced=True)
        else:
            # over-approximations of the encoding (look-arounds, atomic groups, sre's own pruning): candidate only
            cands.append({"where": where, "pattern": pattern[:120], "candidate": c, "replay": info})
            chk.static(name, True, f"{pattern!r:.80}: ambiguity candidate (pump {c['pump']!r}) did NOT reproduce on the real pattern object: {info}")
    chk.extra["regex_ambiguity"] = {"patterns_analysed": len(pats), "unambiguous": n_ok, "candidates_not_reproduced": cands,
                                    "how_collected": "re._compile recorded in a fresh interpreter while importing mwlib.parser.* / nshandling / imgmap / uniq / tagext and parsing a document of all lexemes and tag names in en/de/fr with and without a wikidb"}
    if not pats:
        chk.crashes.append("regex recorder saw no pattern")


# ----------------------------------------------------------------------------- P5: the section pass makes progress in every step
def p5_sections_progress(chk):
    """ParseSections.run calls _something until index reaches the end of the token list.  Progress contract of one step
    ("every refinement pass is an index-walking loop that either advances or shrinks the token list"):
        M = 2 * (len(tokens) - index) + (1 if a heading is open else 0)   strictly decreases, stays >= 0, index stays
        within [0, len(tokens)].
    `create` (builds the section token) is under an assumed contract read from its code: it returns False without effect
    unless a heading start and end are recorded; otherwise it replaces tokens[start:index] by one section token
    (and, when it nests that token into an enclosing section, removes it from the list and decrements start)."""
    from pyvc import source
    from pyvc.values import PObj, SInt, SStr, ClassRef, Model, z3_of
    TT = {}
    from mwlib.parser.refine import core as real
    for k in dir(real.Token):
        if k.startswith("t_") and isinstance(getattr(real.Token, k), int):
            TT[k] = getattr(real.Token, k)
    Z = z3.IntSort()
    ex = Explorer()
    mod = source.module(CORE)
    fn = ex.function(CORE, "_something")
    bcls = ClassRef(mod.defs["Bunch"], mod)
    ex.inline.add(CORE + ":Bunch.__init__")
    ex.global_overrides[(CORE, "Token")] = PObj("TokenClass", dict(TT))

    def g(I):
        return I.ghost
    ex.len_hooks["toklist"] = lambda I, t: SInt(g(I)["n"])

    def tok_getitem(I, tl, idx):
        G = g(I)
        k = I._int_term(idx)
        if not I.decide(z3.And(k >= 0, k < G["n"])):
            I.throw("IndexError", "list index out of range")
        return PObj("tok", {"type": SInt(z3.Select(G["ty"], k))})
    ex.getitem_hooks["toklist"] = tok_getitem

    def create_contract(I, current, tokens, sections, index):
        G = g(I)
        st, et = current.fields.get("start"), current.fields.get("endtitle")
        if st is None or et is None:
            return False
        s, i = I._int_term(st), I._int_term(index)
        nested = I.fresh("nested_into_an_enclosing_section", z3.BoolSort())
        G["n"] = G["n"] - (i - s) + 1 - z3.If(nested, 1, 0)
        G["ty"] = I.fresh("ty_after_create", z3.ArraySort(Z, Z))
        current.fields["start"] = SInt(z3.If(nested, s - 1, s))
        return True
    ex.contracts[CORE + ":create"] = create_contract

    def harness(I):
        G = g(I)
        G["n"] = I.fresh("n", Z)
        G["ty"] = I.fresh("ty", z3.ArraySort(Z, Z))
        index = I.fresh("index", Z)
        I.inputs.update({"n": G["n"], "index": index})
        I.assume(z3.And(index >= 0, index < G["n"]))
        # state of `current` as run() can reach it: no heading open, heading open, heading open with its end seen
        k = I.choose(3, "current")
        start = None if k == 0 else SInt(I.fresh("start", Z))
        endtitle = None if k < 2 else SInt(I.fresh("endtitle", Z))
        if start is not None:
            I.assume(z3.And(start.z >= 0, start.z < index))
        if endtitle is not None:
            I.assume(z3.And(endtitle.z > start.z, endtitle.z < index))
        cur = PObj(bcls, {"start": start, "end": None, "endtitle": endtitle})
        n0 = G["n"]
        m0 = 2 * (n0 - index) + (1 if start is not None else 0)
        out = ex.run_function(I, fn, [PObj("toklist", {}), [], SInt(index), cur])
        I.oblige("no_raise", out.returned)
        if not out.returned:
            return
        idx2, cur2 = out.value
        i2 = I._int_term(idx2)
        open2 = cur2.fields.get("start") is not None
        m1 = 2 * (G["n"] - i2) + (1 if open2 else 0)
        I.oblige("index_stays_inside_the_token_list", z3.And(i2 >= 0, i2 <= G["n"]))
        I.oblige("progress_measure_decreases", m1 < m0)
        I.oblige("progress_measure_bounded_below", m1 >= 0)
    chk.prove("core._something[progress]", harness, ex, targets=[fn], replay=replay_sections)


def replay_sections(model, obligation):
    """real parse of headings split across token lists, under a watchdog"""
    import signal
    from contracts import docs

    class _T(BaseException):
        pass

    def h(*a):
        raise _T()
    for s in ("== a <table> b ==\n", "{|\n|-\n== a || b ==\n|}", "== a ==\ntext\n=== b ===\nmore\n== c\n", "x ==\n== y ==\n"):
        old = signal.signal(signal.SIGALRM, h)
        signal.setitimer(signal.ITIMER_REAL, 5.0, 1.0)
        try:
            docs.parse(s)
        except _T:
            return True, {"wikitext": s, "problem": "parse_string did not return within 5 s (ParseSections does not advance)"}, "sections-hang"
        except Exception as e:  # noqa: BLE001
            return True, {"wikitext": s, "problem": f"raised {type(e).__name__}"}, "sections-raise"
        finally:
            signal.setitimer(signal.ITIMER_REAL, 0)
            signal.signal(signal.SIGALRM, old)
    return False, {"cases": 4}, None
