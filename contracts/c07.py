"""C07 - cleaning is lossless for ordinary content.  BOUNDED ONLY.

No contract within the generator's reach expresses it: it is a property of the composition
of ~55 heap-mutating passes driven by text-length heuristics, and the only function it is a
postcondition of is clean_all itself.  Stand-in: the run-time contract below on documents of
the C02 grammar (below the cleaner's size heuristics, free of the documented removal
triggers).  Labelled bounded; level 'exploration'.
"""


def reduce(words):
    keep = []
    for w, anc in words:
        a = tuple(x for x in anc if x.startswith("Section") or x.startswith("ItemList") or x in ("Item", "Reference", "caption"))
        keep.append((w, a))
    return keep


def one_doc(seed):
    import io, contextlib, logging
    logging.disable(logging.CRITICAL)
    from contracts import docgrammar as g, docs
    from mwlib.parser import advtree
    from mwlib.parser.treecleaner import TreeCleaner
    text, exp = g.document(seed, 6 + seed % 9)
    buf = io.StringIO()
    try:
        with contextlib.redirect_stdout(buf), contextlib.redirect_stderr(buf):
            tree = docs.parse(text)
            advtree.build_advanced_tree(tree)
            before = reduce(g.tree_words(tree))
            def big_tables(t):
                # tables with >= 2 rows and >= 2 columns (single-cell / single-row tables may be dissolved by design)
                n = 0
                for x in t.get_all_children():
                    if x.__class__.__name__ == "Table":
                        rows = [r for r in x.children if r.__class__.__name__ == "Row"]
                        if len(rows) >= 2 and max((len([c for c in r.children if c.__class__.__name__ == "Cell"]) for r in rows), default=0) >= 2:
                            n += 1
                return n
            tables_before = big_tables(tree)
            tc = TreeCleaner(tree, save_reports=True)
            tc.clean_all(skip_methods=[])
            after = reduce(g.tree_words(tree))
            tables_after = big_tables(tree)
            errors = [r for r in tc.get_reports() if "ERROR" in str(r)]
    except Exception as e:  # noqa: BLE001
        return seed, f"raised {type(e).__name__}: {e}", text, 0
    if errors:
        return seed, f"cleaner swallowed an error: {errors[0]}"[:300], text, len(before)
    if [w for w, _ in after] != [w for w, _ in before]:
        lost = [w for w, _ in before if w not in dict(after)]
        return seed, f"visible words changed: lost {lost[:5]} (or duplicated / re-ordered)", text, len(before)
    for (w, a), (_, b) in zip(before, after):
        if a != b:
            return seed, f"word {w} moved from {a} to {b}", text, len(before)
    if tables_after < tables_before:
        return seed, f"{tables_before - tables_after} table(s) with >= 2 rows and >= 2 columns dissolved", text, len(before)
    return seed, None, text, len(before)


def run(chk):
    from concurrent.futures import ProcessPoolExecutor
    n = 600 if chk.tier == "quick" else 6000
    fail = None
    words = 0
    with ProcessPoolExecutor(max_workers=12) as pool:
        for seed, msg, text, nw in pool.map(one_doc, [chk.seed * 104729 + i for i in range(n)], chunksize=50):
            words += nw
            if msg and fail is None:
                fail = {"detail": f"seed {seed}: {msg}", "witness": {"seed": seed, "wikitext": text}, "class": msg.split(":")[0][:40]}
    chk.level_override = "exploration"
    chk.bounded_result("clean_all_keeps_ordinary_content", n, n, False,
                       f"{n} generated ordinary documents (C02 grammar: every section has body text, tables are 2-3 x 2-3, no removal triggers); {words} words: same words in the same order, same section / list-item nesting / reference, tables stay tables, no swallowed ERROR report",
                       [fail] if fail else [], [one_doc(chk.seed)[2][:200]])
    chk.assumptions += ["bounded stand-in only; nothing is proved"]
