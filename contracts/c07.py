"""C07 - cleaning is lossless for ordinary content.  BOUNDED ONLY.

No contract within the generator's reach expresses it: it is a property of the composition
of ~55 heap-mutating passes driven by text-length heuristics, and the only function it is a
postcondition of is clean_all itself.  Stand-in: the run-time contract below on documents of
the C02 grammar (below the cleaner's size heuristics, free of the documented removal
triggers).  Labelled bounded; level 'exploration'.
"""


def reduce(words):
    keep = []
    for w, anc in words:
        a = tuple(x for x in anc if x.startswith("Section") or x.startswith("ItemList") or x in ("Item", "Reference", "caption"))
        keep.append((w, a))
    return keep


def _sent(first, n):
    return " ".join(f"w{first + i}" for i in range(n))


def special_documents():
    """(class, wikitext): shapes inside the property's space that the random grammar hits rarely or never"""
    out = []
    # sections whose body consists of bare links only ("Related pages"): the links are visible text
    out.append(("bare_link_section", "w1\n\n== w2 ==\n* [[w3 w4]]\n* [[w5]]\n\n== w6 ==\nw7\n"))
    out.append(("bare_link_section", "== w1 ==\n[[w2]]\n\n== w3 ==\nw4 [[w5]] w6\n"))
    # a tall cell (several paragraphs, > 378 pt estimated height) next to a short / an empty / another tall cell;
    # table < 2500 characters, cells < 5000 characters
    tall = "\n\n".join(_sent(1000 + 100 * k, 64) for k in range(3))
    for name, other in (("tall_cell_next_to_short_cell", "w10 w11"), ("tall_cell_next_to_empty_cell", "")):
        out.append((name, '{| class="wikitable"\n|-\n! w1 !! w2\n|-\n|\n' + tall + "\n| " + other + "\n|-\n| w20 || w21\n|}\n"))
    tall2 = "\n\n".join(_sent(2000 + 100 * k, 64) for k in range(3))
    out.append(("two_tall_cells_in_one_row", '{| class="wikitable"\n|-\n! w1 !! w2\n|-\n|\n' + tall + "\n|\n" + tall2 + "\n|-\n| w20 || w21\n|}\n"))
    # references
    out.append(("named_reference_used_before_its_definition", 'w1<ref name="a"/> w2.\n\nw3<ref name="a">w4 w5 w6</ref> w7.\n'))
    out.append(("named_reference_defined_then_used", 'w1<ref name="a">w4 w5 w6</ref> w2.\n\nw3<ref name="a"/> w7.\n'))
    # (a second, different definition under an already defined reference name is an error on the wiki itself
    #  - "defined multiple times with different content" - and outside ordinary content: not generated)
    out.append(("two_links_to_one_url_in_a_reference", "w1<ref>[http://x.com w2 w3] w4 [http://x.com w5 w6]</ref>.\n"))
    out.append(("lists_in_neighbouring_cells", "{|\n|-\n|\n* w1\n* w2\n* w3\n* w4\n* w5\n* w6\n|\n* w7\n* w8\n|}\n"))
    out.append(("one_reference_name_in_two_groups", 'w1<ref group="n" name="a">w2 w3</ref> w4<ref name="a">w5 w6</ref> w7<ref group="n" name="a"/> w8<ref name="a"/>.\n'))
    out.append(("caption_of_a_table_with_empty_rows", "w0\n\n{|\n|+ w1 w2\n|-\n| || \n|-\n| || \n|}\n\nw3\n"))
    out.append(("caption_of_a_table_with_empty_rows", "{|\n|+ w1 w2\n|-\n| w3 || w4\n|-\n| || \n|}\n"))
    out.append(("same_url_in_two_references", "w1<ref>[http://x.com w2 w3]</ref> w4<ref>[http://x.com w5 w6] w7</ref> w8.\n"))
    out.append(("indented_line_inside_a_paragraph", "== w1 ==\nw2 w3\n: w4 w5 ''w6''\nw7 w8\n\nw9\n"))
    out.append(("equal_indented_lines_in_one_paragraph", "== w1 ==\nw2 w3\n: w4 w5\nw6 w7\n: w4 w5\nw8 w9\n\nw10 w11\n"))
    out.append(("caption_of_a_single_cell_table", "w1\n\n{|\n|+ w2 w3\n|-\n| w4 w5\n|}\n\nw6\n"))
    # runs of ':' / ';' lines in which an entry repeats (nodes compare by content: a pass that looks an entry up by
    # equality finds the earlier one)
    out.append(("repeated_entries_in_a_run_of_indented_lines", "w1\n:w2\n:w3\n:w2\n:w4\n\nw5\n"))
    out.append(("repeated_entries_in_a_run_of_indented_lines", "w1\n:w2 w3\n:w2 w3\n:w4\n:w2 w3\n:w5\n"))
    out.append(("repeated_terms_in_a_definition_list", ";w1\n:w2 w3\n;w1\n:w4 w5\n\nw6\n"))
    out.append(("repeated_terms_in_a_definition_list", ";w1\n:w2\n;w3\n:w2\n;w1\n:w4\n"))
    # a box table (one cell) around a table, with and without a caption; around text
    inner = "{|\n|-\n| w3 || w4\n|-\n| w5 || w6\n|}"
    out.append(("captioned_box_around_a_table", "w0\n\n{|\n|+ w1 w2\n|-\n|\n" + inner + "\n|}\n\nw7\n"))
    out.append(("box_around_a_table", "w0\n\n{|\n|-\n|\n" + inner + "\n|}\n\nw7\n"))
    out.append(("captioned_box_around_a_table", "{|\n|+ w1 w2\n|-\n|\nw8 w9\n\n" + inner + "\n|}\n"))
    out.append(("captioned_table_in_a_box", "{|\n|-\n|\n{|\n|+ w1 w2\n|-\n| w3 || w4\n|-\n| w5 || w6\n|}\n|}\n"))
    return out


def one_special(item):
    name, text = item
    seed, msg, text, nw = _check(text, name)
    return name, msg, text, nw


def one_doc(seed):
    from contracts import docgrammar as g
    text, exp = g.document(seed, 6 + seed % 9)
    return _check(text, seed)


def _check(text, seed):
    import io, contextlib, logging
    logging.disable(logging.CRITICAL)
    from contracts import docgrammar as g, docs
    from mwlib.parser import advtree
    from mwlib.parser.treecleaner import TreeCleaner
    buf = io.StringIO()
    try:
        with contextlib.redirect_stdout(buf), contextlib.redirect_stderr(buf):
            tree = docs.parse(text)
            advtree.build_advanced_tree(tree)
            before = reduce(g.tree_words(tree))
            def big_tables(t):
                # tables with >= 2 rows and >= 2 columns (single-cell / single-row tables may be dissolved by design)
                n = 0
                for x in t.get_all_children():
                    if x.__class__.__name__ == "Table":
                        # (rows without any content are removed as documented: they do not count)
                        rows = [r for r in x.children if r.__class__.__name__ == "Row" and any(c.children for c in r.children)]
                        if len(rows) >= 2 and max((len([c for c in r.children if c.__class__.__name__ == "Cell"]) for r in rows), default=0) >= 2:
                            n += 1
                return n
            tables_before = big_tables(tree)
            tc = TreeCleaner(tree, save_reports=True)
            tc.clean_all(skip_methods=[])
            after = reduce(g.tree_words(tree))
            tables_after = big_tables(tree)
            errors = [r for r in tc.get_reports() if "ERROR" in str(r)]
    except Exception as e:  # noqa: BLE001
        return seed, f"raised {type(e).__name__}: {e}", text, 0
    if errors:
        return seed, f"cleaner swallowed an error: {errors[0]}"[:300], text, len(before)
    if [w for w, _ in after] != [w for w, _ in before]:
        lost = [w for w, _ in before if w not in dict(after)]
        if sorted(w for w, _ in after) == sorted(w for w, _ in before):
            return seed, "visible words re-ordered", text, len(before)
        return seed, f"visible words changed: lost {lost[:5]} (or duplicated)", text, len(before)
    for (w, a), (_, b) in zip(before, after):
        if a != b:
            return seed, f"word {w} moved from {a} to {b}", text, len(before)
    if tables_after < tables_before:
        return seed, f"{tables_before - tables_after} table(s) with >= 2 rows and >= 2 columns dissolved", text, len(before)
    return seed, None, text, len(before)


def run(chk):
    from concurrent.futures import ProcessPoolExecutor
    n = 600 if chk.tier == "quick" else 6000
    fail = None
    words = 0
    with ProcessPoolExecutor(max_workers=12) as pool:
        for seed, msg, text, nw in pool.map(one_doc, [chk.seed * 104729 + i for i in range(n)], chunksize=50):
            words += nw
            if msg and fail is None:
                fail = {"detail": f"seed {seed}: {msg}", "witness": {"seed": seed, "wikitext": text}, "class": msg.split(":")[0][:40]}
    fails2 = {}
    specials = special_documents()
    for item in specials:
        name, msg, text, nw = one_special(item)
        words += nw
        if msg:
            kind = "reordered" if "re-ordered" in msg else ("lost" if "words changed" in msg else msg.split(" ")[0])
            fails2.setdefault(name, {"detail": f"{name}: {msg} on {text[:160]!r}", "witness": {"shape": name, "wikitext": text}, "class": f"{name}:{kind}"})
    chk.bounded_result("clean_all_on_special_shapes", len(specials), len({n_ for n_, _ in specials}), True,
                       "hand-picked shapes inside the property's space: bare-link-only sections, a tall cell next to a short / empty / tall cell, named references in both orders, repeated reference names, two links to one URL in a reference, equal indented lines, the caption of a single-cell table",
                       list(fails2.values()))
    chk.level_override = "exploration"
    chk.bounded_result("clean_all_keeps_ordinary_content", n, n, False,
                       f"{n} generated ordinary documents (C02 grammar: every section has body text, tables are 2-3 x 2-3, no removal triggers); {words} words: same words in the same order, same section / list-item nesting / reference, tables stay tables, no swallowed ERROR report",
                       [fail] if fail else [], [one_doc(chk.seed)[2][:200]])
    chk.assumptions += ["bounded stand-in only; nothing is proved"]
