"""C02 - well-formed markup parses to the structure it denotes (DESIGN 3/C02).

P2 link classification (compat._handle_link_node) as a decision-table contract on the real
code; P3 table/row child filtering (compat._lookup_handler_function).
B: round-trip contract structure(parse(serialize(d))) == d on the document grammar.
"""
import z3

from pyvc.interp import Explorer
from pyvc.values import PObj, SInt, SBool, SStr, ClassRef, kind_of

COMPAT = "mwlib/parser/refine/compat.py"


def p2_link_classification(chk):
    ex = Explorer()
    fn = ex.function(COMPAT, "_handle_link_node")

    def harness(I):
        ns = None if I.decide(I.sym_bool("ns_none").z) else I.sym_int("ns")
        colon = I.decide(I.sym_bool("colon").z)
        langlink = None if I.decide(I.sym_bool("no_langlink").z) else I.sym_str("langlink")
        interwiki = None if I.decide(I.sym_bool("no_interwiki").z) else I.sym_str("interwiki")
        if langlink is not None:
            I.assume(z3.Length(langlink.z) > 0)
        if interwiki is not None:
            I.assume(z3.Length(interwiki.z) > 0)
        target = I.sym_str("target")
        node = PObj("LinkToken", {"ns": ns, "colon": colon, "langlink": langlink, "interwiki": interwiki,
                                  "target": target, "namespace": None, "__class__": "Link"})
        out = ex.run_function(I, fn, [node])
        I.oblige("no_raise", out.returned)
        cls = node.fields["__class__"]
        name = cls.name if isinstance(cls, ClassRef) else cls

        def is_ns(k):
            return False if ns is None else I.decide(ns.z == k)
        if not colon and ns is not None and is_ns(6):
            want = "ImageLink"
        elif not colon and ns is not None and is_ns(0):
            want = "ArticleLink"
        elif not colon and ns is not None and is_ns(14):
            want = "CategoryLink"
        elif colon or ns is not None:
            want = "NamespaceLink"
        elif langlink is not None:
            want = "LangLink"
        elif interwiki is not None:
            want = "InterwikiLink"
        else:
            want = "Link"
        I.oblige("link_class_follows_namespace_colon_langlink_interwiki", name == want, meta={"got": name, "want": want})
        if want == "LangLink":
            pass
        elif want == "InterwikiLink":
            I.oblige("interwiki_namespace_is_the_prefix", node.fields["namespace"] is interwiki)
        else:
            I.oblige("namespace_attribute_is_the_namespace_number", node.fields["namespace"] is ns)

    chk.prove("compat._handle_link_node", harness, ex, targets=[fn], replay=replay)


def p3_table_children(chk):
    ex = Explorer()
    fn = ex.function(COMPAT, "_lookup_handler_function")
    ex.global_overrides[(COMPAT, "Token")] = PObj("TokenNS", {k: k for k in (
        "t_http_url", "t_complex_compat", "t_magicword", "t_html_tag_end", "t_complex_table", "t_complex_table_row",
        "t_complex_caption", "t_complex_table_cell", "t_text", "t_complex_tag")})
    KINDS = ["t_complex_table_row", "t_complex_caption", "t_complex_table_cell", "t_text", "t_complex_tag"]

    def harness(I):
        parent_kind = ["t_complex_table", "t_complex_table_row"][I.choose(2, "parent")]
        kids = []
        for i in range(3):
            k = KINDS[I.choose(len(KINDS), f"kid{i}")]
            tagname = "caption" if (k == "t_complex_tag" and I.decide(I.sym_bool(f"cap{i}").z)) else None
            kids.append(PObj("Token", {"type": k, "tagname": tagname}, name=f"kid{i}"))
        node = PObj("Token", {"type": parent_kind, "children": list(kids)})
        out = ex.run_function(I, fn, [node])
        I.oblige("no_raise", out.returned)
        got = node.fields["children"]
        if parent_kind == "t_complex_table":
            want = [k for k in kids if k.fields["type"] in ("t_complex_table_row", "t_complex_caption") or k.fields["tagname"] == "caption"]
        else:
            want = [k for k in kids if k.fields["type"] == "t_complex_table_cell"]
        I.oblige("children_filtered_to_the_allowed_kinds_in_order", len(got) == len(want) and all(a is b for a, b in zip(got, want)))

    chk.prove("compat._lookup_handler_function", harness, ex, targets=[fn], replay=replay)


# ----------------------------------------------------------------------------- bounded round trip
def one_doc(args):
    import logging
    logging.disable(logging.CRITICAL)
    seed, lang = args
    from contracts import docgrammar as g, docs
    from mwlib.parser import advtree
    text, exp = g.document(seed, 6 + seed % 9)
    if seed % 4 == 1:
        text = text.rstrip("\n")       # a page whose last line has no line end
    try:
        tree = docs.parse(text, lang)
        advtree.build_advanced_tree(tree)
        got = g.tree_words(tree)
    except Exception as e:  # noqa: BLE001
        return seed, lang, f"raised {type(e).__name__}: {e}", text, len(exp)
    if [w for w, _ in got] != [w for w, _ in exp]:
        missing = [w for w, _ in exp if w not in dict(got)]
        return seed, lang, f"words differ: missing {missing[:5]}, order/duplicates otherwise", text, len(exp)
    for (w, a), (_, b) in zip(exp, got):
        if g.canon(a) != g.canon(b):
            return seed, lang, f"word {w}: expected ancestors {a}, parsed {b}", text, len(exp)
    res = g.markup_residue(tree)
    if res:
        return seed, lang, f"markup as text: {res[:4]} are visible text in the tree (the document writes words only)", text, len(exp)
    return seed, lang, None, text, len(exp)


def bounded_roundtrip(tier, seed):
    from concurrent.futures import ProcessPoolExecutor
    n = 600 if tier == "quick" else 6000
    cases = [(seed * 7919 + i, ["en", "de", "fr"][i % 3]) for i in range(n)]
    fail = None
    words = 0
    with ProcessPoolExecutor(max_workers=12) as pool:
        for s, lang, msg, text, nw in pool.map(one_doc, cases, chunksize=50):
            words += nw
            if msg and fail is None:
                fail = {"detail": f"[{lang}] seed {s}: {msg}", "witness": {"seed": s, "lang": lang, "wikitext": text}, "class": msg.split(":")[0][:30]}
    return n, words, fail


def namespace_links_search():
    """on every bundled site, a link whose prefix is a namespace name / alias of that site is a link into that namespace,
    never an interwiki or language link (a namespace wins over an interwiki prefix of the same name)"""
    from contracts import c12, docs
    n = 0
    for lang, si in c12.sites():
        names = {}
        for v in si["namespaces"].values():
            for x in (v["*"], v.get("canonical")):
                if x:
                    names[x] = v["id"]
        for a in si.get("namespacealiases", []):
            names[a["*"]] = a["id"]
        for nm, nsid in sorted(names.items()):
            for text in (f"[[:{nm}:Some page|label]]", f"[[{nm}:Some page|label]]"):
                n += 1
                try:
                    tree = docs.parse(text, lang)
                except Exception as e:  # noqa: BLE001
                    return n, {"detail": f"[{lang}] {text!r} raised {type(e).__name__}", "witness": {"site": lang, "wikitext": text}, "class": "raise"}
                links = [c for c in tree.allchildren() if c.__class__.__name__.endswith("Link")]
                kinds = [c.__class__.__name__ for c in links]
                if any(k in ("InterwikiLink", "LangLink") for k in kinds) or not kinds:
                    return n, {"detail": f"[{lang}] {text!r}: link classes {kinds}; {nm!r} is a namespace of this site", "witness": {"site": lang, "wikitext": text}, "class": "namespace-link-as-interwiki"}
                if links[0].ns != nsid:
                    return n, {"detail": f"[{lang}] {text!r}: {kinds[0]} with ns={links[0].ns!r}; {nm!r} is namespace {nsid} of this site",
                               "witness": {"site": lang, "wikitext": text}, "class": "namespace-number"}
    return n, None


def bounded(chk):
    n0, f0 = namespace_links_search()
    chk.bounded_result("links_into_every_namespace_of_every_site", n0, n0, True,
                       "for each of the 12 bundled sites, [[:<name>:Some page|label]] and [[<name>:Some page|label]] for every namespace name, canonical name and alias of the site: a link into that namespace (its number), never an interwiki / language link",
                       [f0] if f0 else [])
    n, words, fail = bounded_roundtrip(chk.tier, chk.seed)
    chk.bounded_result("grammar_roundtrip", n, n, False,
                       f"{n} generated documents (sections 2-4 levels with body text, paragraphs, nested bullet/numbered lists, definition lists in both spellings followed directly by other list kinds, list / text / table / list separated by single newlines only, tables with header/data cells, ''/'''/<b>/<i> styles, internal/external links, refs, preformatted lines) in en/de/fr; {words} words compared: every word once, in order, under the denoted structural ancestors",
                       [fail] if fail else [])


def replay(model, obligation):
    n, words, fail = bounded_roundtrip("quick", 0)
    if fail:
        return True, fail["witness"], fail["class"]
    return False, {"documents": n}, None


def run(chk):
    p2_link_classification(chk)
    p3_table_children(chk)
    p4_parselines_run(chk)
    p5_parselines_analyze(chk)
    bounded(chk)
    chk.assumptions += [
        "section nesting (core.create), table recognition and apostrophe resolution are covered by the bounded round trip only, not by discharged contracts",
        "ParseLines: run() is proved to overwrite exactly the collected tokens (frame) and analyze() to insert each created token once; collect_items / append_line / splitdl are under ASSUMED contracts (bounded round trip only); precondition of run(): item / colon tokens stand at index 0 or right behind a newline / break token (scanner contract); termination of both loops is not proved",
    ]


# ----------------------------------------------------------------------------- P4: ParseLines.run replaces exactly the tokens it collected
# Derived from the property ("nothing visible is dropped, duplicated, re-ordered"): run() gathers the tokens of
# consecutive list lines into `lines` (the marker token through get_line_prefix, the rest as children slices) and
# later overwrites a slice of self.tokens by the analysed lines.  Frame contract of every such overwrite:
#   the overwritten index range == the set of collected token indices, each collected exactly once.
CORE = "mwlib/parser/refine/core.py"


def _token_types():
    from mwlib.parser.refine import core
    T = core.Token
    out, nxt = {}, 1000
    for k in sorted(dir(T)):
        if k.startswith("t_"):
            v = getattr(T, k)
            if isinstance(v, int):
                out[k] = v
            else:
                out[k] = nxt
                nxt += 1
    return out


def p4_parselines_run(chk):
    from pyvc.interp import LoopSpec, Forall
    from pyvc.schema import Typing
    from pyvc import source
    from pyvc.interp import Undecided
    from pyvc.values import SInt, SStr, ClassRef, BoundMethod, Model, z3_of
    TT = _token_types()
    ITEM, COLON, NL, BR = TT["t_item"], TT["t_colon"], TT["t_newline"], TT["t_break"]
    CX = [TT["t_complex_node"], TT["t_complex_tag"], TT["t_complex_style"]]
    Z = z3.IntSort()
    ex = Explorer()
    ex.typing = Typing({"ty": ("index",), "cxsel": ("index",)}, {})
    mod = source.module(CORE)
    pcls = ClassRef(mod.defs["ParseLines"], mod)
    fn = ex.function(CORE, "ParseLines.run")
    for m in ("process_item_and_colon", "process_newline_when_start_line_exists", "process_break"):
        ex.inline.add(f"{CORE}:ParseLines.{m}")

    tokcls = PObj("TokenClass", dict(TT))
    ex.global_overrides[(CORE, "Token")] = tokcls
    ex.methods[("TokenClass", "__call__")] = Model("Token(...)", lambda I, *a, **kw: PObj("newtok", dict(kw)))

    def is_in(t, vals):
        return z3.Or(*[t == v for v in vals])

    def g(I):
        return I.ghost

    # -- self.tokens: abstract token list (length n, type array ty)
    def tok_len(I, tl):
        return SInt(g(I)["n"])
    ex.len_hooks["toklist"] = tok_len

    def term(I, v, default):
        if v is None:
            return default
        return I._int_term(v)

    def tok_getitem(I, tl, idx):
        G = g(I)
        n = G["n"]
        if isinstance(idx, tuple) and idx and idx[0] == "__slice__":
            _, lo, hi, step = idx
            a, b = term(I, lo, z3.IntVal(0)), term(I, hi, n)
            b = z3.If(b > n, n, b)
            I.oblige("slice_bounds_are_indices", z3.And(a >= 0, b >= 0))
            G["C"].append((a, b))             # ghost: these tokens are handed to a line
            return PObj("tokslice", {"lo": a, "hi": b})
        k = I._int_term(idx)
        if not I.decide(z3.And(k >= 0, k < n)):
            I.throw("IndexError", "list index out of range")
        return PObj("tok", {"type": SInt(z3.Select(G["ty"], k)), "start": I.fresh_int("start"), "text": I.fresh_str("text")})
    ex.getitem_hooks["toklist"] = tok_getitem

    def tok_setslice(I, tl, sl, val):
        """the overwrite (flush): frame obligations, then the new abstract list"""
        G = g(I)
        _, lo, hi, step = sl
        n, ty = G["n"], G["ty"]
        a, b = term(I, lo, z3.IntVal(0)), term(I, hi, n)
        L = z3.IntVal(len(val)) if isinstance(val, list) else val.fields["L"]
        k = I.fresh("k@index", Z)
        inside = [z3.And(x <= k, k < y) for x, y in G["C"]]
        I.oblige("slice_is_a_valid_range", z3.And(a >= 0, a <= b, b <= n))
        I.oblige("overwrites_exactly_the_collected_tokens", z3.And(a <= k, k < b) == (z3.Or(*inside) if inside else z3.BoolVal(False)))
        for x in range(len(inside)):
            for y in range(x + 1, len(inside)):
                I.oblige("no_token_collected_twice", z3.Not(z3.And(inside[x], inside[y])))
        d = (b - a) - L
        sel = I.fresh("cxsel", z3.ArraySort(Z, Z))
        j = z3.Int("j!lam")
        cx = z3.If(z3.Select(sel, j) == 0, CX[0], z3.If(z3.Select(sel, j) == 1, CX[1], CX[2]))
        G["ty"] = z3.Lambda([j], z3.If(j < a, z3.Select(ty, j), z3.If(j < a + L, cx, z3.Select(ty, j + d))))
        G["n"] = n - d
        G["C"] = []
        G["flushes"] += 1
    ex.setitem_hooks["toklist"] = tok_setslice

    # -- lines: abstract list of collected line tokens
    ex.truthy_hooks["lineslist"] = lambda I, l: I.decide(l.fields["L"] > 0)
    ex.len_hooks["lineslist"] = lambda I, l: SInt(l.fields["L"])

    def lines_append(I, l, tok):
        l.fields["L"] = l.fields["L"] + 1
    ex.methods[("lineslist", "append")] = Model("list.append on lines", lines_append)

    def analyze_contract(I, self, lines):
        # assumed contract of analyze (verified separately for its own insertions): re-groups the lines in place;
        # a non-empty list stays non-empty and holds complex node / tag / style tokens only
        if isinstance(lines, list):
            raise Undecided("analyze on a concrete list")
        L2 = I.fresh("lines_after_analyze", Z)
        I.assume(z3.And(L2 >= 1))
        I.oblige("analyze_is_called_on_a_non_empty_list", lines.fields["L"] >= 1)
        lines.fields["L"] = L2
    ex.contracts[f"{CORE}:ParseLines.analyze"] = analyze_contract

    def get_line_prefix_contract(I, self, k):
        G = g(I)
        kk = I._int_term(k)
        I.oblige("line_marker_is_an_item_or_colon_token", is_in(z3.Select(G["ty"], kk), [ITEM, COLON]))
        G["C"].append((kk, kk + 1))          # ghost: the marker token is consumed as the line's prefix
        return I.fresh_str("lineprefix")
    ex.contracts[f"{CORE}:ParseLines.get_line_prefix"] = get_line_prefix_contract

    def opt(v):
        return None if v is None else z3_of(v)

    def L_of(lines):
        return z3.IntVal(len(lines)) if isinstance(lines, list) else lines.fields["L"]

    def inv(I, v, it):
        G = g(I)
        n, ty = G["n"], G["ty"]
        i, ft, sl, L = z3_of(v["i"]), opt(v["first_token"]), opt(v["start_line"]), L_of(v["lines"])
        out = [("i_in_range", z3.And(i >= 0, i <= n)), ("lines_len", L >= 0)]
        I.hint("index", i)
        I.hint("index", i - 1)
        # P: line markers stand at line starts (contract of the scanner / earlier passes, precondition of run)
        out.append(("markers_only_at_line_starts", Forall(["index"], lambda k: z3.Implies(
            z3.And(k > 0, k < n, is_in(z3.Select(ty, k), [ITEM, COLON])), is_in(z3.Select(ty, k - 1), [NL, BR])), "P")))
        if ft is None:
            out.append(("nothing_pending_without_first_token", z3.And(L == 0, z3.BoolVal(sl is None))))
            out.append(("nothing_collected_without_first_token", z3.BoolVal(len(G["C"]) == 0)))
        else:
            k = I.fresh("kc@index", Z)
            inside = [z3.And(x <= k, k < y) for x, y in G["C"]]
            coll = z3.Or(*inside) if inside else z3.BoolVal(False)
            hi = i if sl is None else sl
            out.append(("first_token_in_range", z3.And(ft >= 0, ft <= hi, hi <= i)))
            out.append(("collected_is_first_token_up_to_the_pending_line", coll == z3.And(ft <= k, k < hi)))
            for x in range(len(inside)):
                for y in range(x + 1, len(inside)):
                    out.append(("collected_once", z3.Not(z3.And(inside[x], inside[y]))))
            if sl is None:
                out.append(("lines_exist_with_first_token", L >= 1))
            else:
                I.hint("index", sl)
                out.append(("pending_line_starts_at_a_marker", z3.And(sl < i, is_in(z3.Select(ty, sl), [ITEM, COLON]))))
                out.append(("pending_line_holds_no_line_end", Forall(["index"], lambda q: z3.Implies(
                    z3.And(q > sl, q < i), z3.Not(is_in(z3.Select(ty, q), [NL, BR]))), "pending")))
        return out

    def havoc(I, v, it):
        G = g(I)
        G["n"] = I.fresh("n", Z)
        G["ty"] = I.fresh("ty", z3.ArraySort(Z, Z))
        I.assume(G["n"] >= 0)
        v["lines"] = PObj("lineslist", {"L": I.fresh("L", Z)})
        for nme in ("first_token", "start_line"):
            v[nme] = None if I.decide(I.fresh(nme + "_is_None", z3.BoolSort())) else I.fresh_int(nme)
        ft, sl = v["first_token"], v["start_line"]
        # ghost summary of the collected set after any number of iterations
        G["C"] = [] if ft is None else [(ft.z, z3_of(v["i"]) if sl is None else sl.z)]
    ex.loopspecs[(fn.ident, 0)] = LoopSpec(invariant=inv, havoc=havoc, extra_havoc=("lines", "first_token", "start_line"))

    def harness(I):
        G = g(I)
        G["n"] = I.fresh("n0", Z)
        G["ty"] = I.fresh("ty0", z3.ArraySort(Z, Z))
        G["C"] = []
        G["flushes"] = 0
        I.inputs["n"] = G["n"]
        I.assume(G["n"] >= 0)
        n, ty = G["n"], G["ty"]
        I.assume(Forall(["index"], lambda k: z3.Implies(z3.And(k > 0, k < n, is_in(z3.Select(ty, k), [ITEM, COLON])),
                                                         is_in(z3.Select(ty, k - 1), [NL, BR])), "precondition_markers_only_at_line_starts"))
        me = PObj(pcls, {"tokens": PObj("toklist", {})})
        out = ex.run_function(I, fn, [me])
        I.oblige("no_raise", out.returned)
        I.oblige("nothing_collected_is_left_behind", z3.BoolVal(len(G["C"]) == 0) if True else None)
    chk.prove("core.ParseLines.run", harness, ex, targets=[fn], replay=replay)


# ----------------------------------------------------------------------------- P5: ParseLines.analyze inserts every token it creates exactly once
def p5_parselines_analyze(chk):
    from pyvc import source
    from pyvc.interp import LoopSpec, Undecided
    from pyvc.values import SInt, SStr, SBool, ClassRef, Model, z3_of
    TT = _token_types()
    Z = z3.IntSort()
    ex = Explorer()
    mod = source.module(CORE)
    pcls = ClassRef(mod.defs["ParseLines"], mod)
    fn = ex.function(CORE, "ParseLines.analyze")
    for m in ("getchar", "handle_no_prefix", "get_node_and_newitem"):
        ex.inline.add(f"{CORE}:ParseLines.{m}")
    ex.inline.add(f"{CORE}:isinstance")

    def new_token(I, *a, **kw):
        f = dict(kw)
        f.setdefault("type", a[0] if a else None)
        f["_inserted"] = False          # ghost: this token has not been put into any list yet
        for k, dflt in (("tagname", None), ("caption", ""), ("blocknode", False), ("children", None), ("lineprefix", None)):
            f.setdefault(k, dflt)       # class-level defaults of utoken.Token
        return PObj("newtok", f)
    tokcls = PObj("TokenClass", dict(TT))
    ex.global_overrides[(CORE, "Token")] = tokcls
    ex.methods[("TokenClass", "__call__")] = Model("Token(...)", new_token)
    ex.models["builtins.isinstance"] = Model("isinstance", lambda I, o, c: isinstance(o, PObj) and o.clsname() in ("newtok", "linetok") if c is tokcls else NotImplemented)

    def g(I):
        return I.ghost

    ex.len_hooks["alines"] = lambda I, l: SInt(g(I)["len"])

    def al_getitem(I, l, idx):
        G = g(I)
        k = I._int_term(idx)
        k = z3.If(k < 0, k + G["len"], k)
        if not I.decide(z3.And(k >= 0, k < G["len"])):
            I.throw("IndexError", "list index out of range")
        if I.decide(k == G["len"] - 1) and G["guard"]:
            return G["guard"]
        # precondition of analyze: every element is a complex line token; its prefix is any string / None
        pre = None
        if I.decide(I.fresh("has_prefix", z3.BoolSort())):
            # precondition (scanner contract): a line prefix is a non-empty run of list markers; analyze itself
            # reads its first character only, so one representative per first character is complete here
            pre = ":*#;"[I.choose(4, "prefix_char")]
        return PObj("linetok", {"type": TT["t_complex_line"], "lineprefix": pre, "tagname": I.fresh_str("tagname"), "_inserted": True})
    ex.getitem_hooks["alines"] = al_getitem

    def al_append(I, l, tok):
        G = g(I)
        tok.fields["_inserted"] = True
        G["guard"] = tok
        G["len"] = G["len"] + 1
    ex.methods[("alines", "append")] = Model("list.append on lines", al_append)

    def al_insert(I, l, pos, tok):
        G = g(I)
        p = I._int_term(pos)
        ins = tok.fields.get("_inserted", False)
        I.oblige("inserted_token_is_not_in_a_list_yet", z3.Not(ins.z) if isinstance(ins, SBool) else z3.BoolVal(not ins))
        I.oblige("inserted_before_the_guard", z3.And(p >= 0, p <= G["len"] - 1))
        tok.fields["_inserted"] = True
        G["len"] = G["len"] + 1
        G["inserts"] += 1
    ex.methods[("alines", "insert")] = Model("list.insert on lines", al_insert)

    def al_delitem(I, l, idx):
        G = g(I)
        k = I._int_term(idx)
        I.oblige("the_removed_element_is_the_guard", z3.And(z3.Or(k == -1, k == G["len"] - 1), G["len"] >= 1))
        G["len"] = G["len"] - 1
    ex.delitem_hooks["alines"] = al_delitem
    ex.setattr_hooks["linetok"] = lambda I, o, n, v: o.fields.__setitem__(n, v)

    def collect_items_contract(I, self, lines, startpos, prefix, node, newitem, endtag, description_data):
        """contract of collect_items (its body is the subject of the bounded round trip): moves >= 1 lines at
        startpos into node (or splits one at an end tag), never past the guard; the definition it returns is the
        one passed in, or a token it created and did not insert anywhere (then the caller's loop is left)"""
        G = g(I)
        removed = I.fresh("removed", Z)
        I.assume(z3.And(removed >= 0, removed <= G["len"] - 1 - I._int_term(startpos)))
        G["len"] = G["len"] - removed
        if I.decide(I.fresh("inline_definition_split_off", z3.BoolSort())):
            return (new_token(I, TT["t_complex_style"], caption=":"), startpos, True)
        return (description_data, startpos, I.fresh_bool("broke_loop"))
    ex.contracts[f"{CORE}:ParseLines.collect_items"] = collect_items_contract

    def inv(I, v, it):
        G = g(I)
        sp = z3_of(v["startpos"])
        return [("startpos_before_the_guard", z3.And(sp >= 0, sp <= G["len"] - 1)), ("guard_present", G["len"] >= 1)]

    def havoc(I, v, it):
        G = g(I)
        G["len"] = I.fresh("len", Z)
        for nme in ("description_data", "node"):
            if nme in I.ghost.get("loop_old_vars", {}) or nme in v:
                # after an arbitrary number of iterations: None, or a token of an earlier iteration (which was inserted there)
                v[nme] = None if I.decide(I.fresh(nme + "_is_None", z3.BoolSort())) else PObj("newtok", {"type": TT["t_complex_style"], "_inserted": True, "children": []})
    ex.loopspecs[(fn.ident, 0)] = LoopSpec(invariant=inv, havoc=havoc)
    def inv_inner(I, v, it):
        G = g(I)
        if "dd_entry" not in G:
            G["dd_entry"] = v.get("description_data")
        return inv(I, v, it) + [("definition_unchanged_while_the_group_continues", v.get("description_data") is G["dd_entry"])]
    ex.loopspecs[(fn.ident, 1)] = LoopSpec(invariant=inv_inner, havoc=lambda I, v, it: g(I).__setitem__("len", I.fresh("len_in", Z)),
                                           keep=("description_data",))

    def harness(I):
        G = g(I)
        G["len"] = I.fresh("len0", Z)
        G["guard"] = None
        G["inserts"] = 0
        I.inputs["len"] = G["len"]
        I.assume(G["len"] >= 0)
        me = PObj(pcls, {})
        out = ex.run_function(I, fn, [me, PObj("alines", {})])
        I.oblige("no_raise" if out.returned else f"no_raise[{out.exc!r}]", out.returned)
    chk.prove("core.ParseLines.analyze", harness, ex, targets=[fn], replay=replay)
