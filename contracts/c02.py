"""C02 - well-formed markup parses to the structure it denotes (DESIGN 3/C02).

P2 link classification (compat._handle_link_node) as a decision-table contract on the real
code; P3 table/row child filtering (compat._lookup_handler_function).
B: round-trip contract structure(parse(serialize(d))) == d on the document grammar.
"""
import z3

from pyvc.interp import Explorer
from pyvc.values import PObj, SInt, SBool, SStr, ClassRef, kind_of

COMPAT = "mwlib/parser/refine/compat.py"


def p2_link_classification(chk):
    ex = Explorer()
    fn = ex.function(COMPAT, "_handle_link_node")

    def harness(I):
        ns = None if I.decide(I.sym_bool("ns_none").z) else I.sym_int("ns")
        colon = I.decide(I.sym_bool("colon").z)
        langlink = None if I.decide(I.sym_bool("no_langlink").z) else I.sym_str("langlink")
        interwiki = None if I.decide(I.sym_bool("no_interwiki").z) else I.sym_str("interwiki")
        if langlink is not None:
            I.assume(z3.Length(langlink.z) > 0)
        if interwiki is not None:
            I.assume(z3.Length(interwiki.z) > 0)
        target = I.sym_str("target")
        node = PObj("LinkToken", {"ns": ns, "colon": colon, "langlink": langlink, "interwiki": interwiki,
                                  "target": target, "namespace": None, "__class__": "Link"})
        out = ex.run_function(I, fn, [node])
        I.oblige("no_raise", out.returned)
        cls = node.fields["__class__"]
        name = cls.name if isinstance(cls, ClassRef) else cls

        def is_ns(k):
            return False if ns is None else I.decide(ns.z == k)
        if not colon and ns is not None and is_ns(6):
            want = "ImageLink"
        elif not colon and ns is not None and is_ns(0):
            want = "ArticleLink"
        elif not colon and ns is not None and is_ns(14):
            want = "CategoryLink"
        elif colon or ns is not None:
            want = "NamespaceLink"
        elif langlink is not None:
            want = "LangLink"
        elif interwiki is not None:
            want = "InterwikiLink"
        else:
            want = "Link"
        I.oblige("link_class_follows_namespace_colon_langlink_interwiki", name == want, meta={"got": name, "want": want})
        if want == "LangLink":
            pass
        elif want == "InterwikiLink":
            I.oblige("interwiki_namespace_is_the_prefix", node.fields["namespace"] is interwiki)
        else:
            I.oblige("namespace_attribute_is_the_namespace_number", node.fields["namespace"] is ns)

    chk.prove("compat._handle_link_node", harness, ex, targets=[fn], replay=replay)


def p3_table_children(chk):
    ex = Explorer()
    fn = ex.function(COMPAT, "_lookup_handler_function")
    ex.global_overrides[(COMPAT, "Token")] = PObj("TokenNS", {k: k for k in (
        "t_http_url", "t_complex_compat", "t_magicword", "t_html_tag_end", "t_complex_table", "t_complex_table_row",
        "t_complex_caption", "t_complex_table_cell", "t_text", "t_complex_tag")})
    KINDS = ["t_complex_table_row", "t_complex_caption", "t_complex_table_cell", "t_text", "t_complex_tag"]

    def harness(I):
        parent_kind = ["t_complex_table", "t_complex_table_row"][I.choose(2, "parent")]
        kids = []
        for i in range(3):
            k = KINDS[I.choose(len(KINDS), f"kid{i}")]
            tagname = "caption" if (k == "t_complex_tag" and I.decide(I.sym_bool(f"cap{i}").z)) else None
            kids.append(PObj("Token", {"type": k, "tagname": tagname}, name=f"kid{i}"))
        node = PObj("Token", {"type": parent_kind, "children": list(kids)})
        out = ex.run_function(I, fn, [node])
        I.oblige("no_raise", out.returned)
        got = node.fields["children"]
        if parent_kind == "t_complex_table":
            want = [k for k in kids if k.fields["type"] in ("t_complex_table_row", "t_complex_caption") or k.fields["tagname"] == "caption"]
        else:
            want = [k for k in kids if k.fields["type"] == "t_complex_table_cell"]
        I.oblige("children_filtered_to_the_allowed_kinds_in_order", len(got) == len(want) and all(a is b for a, b in zip(got, want)))

    chk.prove("compat._lookup_handler_function", harness, ex, targets=[fn], replay=replay)


# ----------------------------------------------------------------------------- bounded round trip
def one_doc(args):
    import logging
    logging.disable(logging.CRITICAL)
    seed, lang = args
    from contracts import docgrammar as g, docs
    from mwlib.parser import advtree
    text, exp = g.document(seed, 6 + seed % 9)
    try:
        tree = docs.parse(text, lang)
        advtree.build_advanced_tree(tree)
        got = g.tree_words(tree)
    except Exception as e:  # noqa: BLE001
        return seed, lang, f"raised {type(e).__name__}: {e}", text, len(exp)
    if [w for w, _ in got] != [w for w, _ in exp]:
        missing = [w for w, _ in exp if w not in dict(got)]
        return seed, lang, f"words differ: missing {missing[:5]}, order/duplicates otherwise", text, len(exp)
    for (w, a), (_, b) in zip(exp, got):
        if a != b:
            return seed, lang, f"word {w}: expected ancestors {a}, parsed {b}", text, len(exp)
    return seed, lang, None, text, len(exp)


def bounded_roundtrip(tier, seed):
    from concurrent.futures import ProcessPoolExecutor
    n = 600 if tier == "quick" else 6000
    cases = [(seed * 7919 + i, ["en", "de", "fr"][i % 3]) for i in range(n)]
    fail = None
    words = 0
    with ProcessPoolExecutor(max_workers=12) as pool:
        for s, lang, msg, text, nw in pool.map(one_doc, cases, chunksize=50):
            words += nw
            if msg and fail is None:
                fail = {"detail": f"[{lang}] seed {s}: {msg}", "witness": {"seed": s, "lang": lang, "wikitext": text}, "class": msg.split(":")[0][:30]}
    return n, words, fail


def bounded(chk):
    n, words, fail = bounded_roundtrip(chk.tier, chk.seed)
    chk.bounded_result("grammar_roundtrip", n, n, False,
                       f"{n} generated documents (sections 2-4 levels with body text, paragraphs, nested bullet/numbered lists, definition lists in both spellings followed directly by other list kinds, list / text / table / list separated by single newlines only, tables with header/data cells, ''/'''/<b>/<i> styles, internal/external links, refs, preformatted lines) in en/de/fr; {words} words compared: every word once, in order, under the denoted structural ancestors",
                       [fail] if fail else [])


def replay(model, obligation):
    n, words, fail = bounded_roundtrip("quick", 0)
    if fail:
        return True, fail["witness"], fail["class"]
    return False, {"documents": n}, None


def run(chk):
    p2_link_classification(chk)
    p3_table_children(chk)
    bounded(chk)
    chk.assumptions += [
        "section nesting (core.create), list grouping (ParseLines), table recognition and apostrophe resolution are covered by the bounded round trip only, not by discharged contracts",
    ]
