"""C15 - extraction never writes outside its directory (DESIGN 3/C15).

Ghost file system: every effectful call of the real code appends (op, path) to the
path's trace; the postcondition quantifies over the trace.
"""
import z3

from pyvc import fsmodel
from pyvc.interp import Explorer, LoopSpec
from pyvc.values import PObj, SStr, SBytes, SList, Model, z3_of

NUWIKI = "mwlib/core/nuwiki.py"
SL = z3.StringVal("/")


def inside(dst, p):
    """p lies in the directory tree rooted at dst (dst absolute, normalised, ends with '/'):
    p is dst without its trailing separator, or dst is a prefix of p; and no component of
    p is '..'."""
    q = z3.Concat(p, SL)
    return z3.And(z3.PrefixOf(dst, q), z3.Not(z3.Contains(q, z3.StringVal("/../"))))


def abs_norm_dir(I, d):
    """what extractall establishes for its destination: normpath(abspath(x)) + '/'"""
    n = I.fresh("dstnorm", z3.StringSort())
    from pyvc.models import normpath_of
    return [d == z3.Concat(n, SL), z3.PrefixOf(SL, n), normpath_of(n) == n,
            z3.Not(z3.Contains(z3.Concat(n, SL), z3.StringVal("/../"))),
            z3.Or(n == SL, n == z3.StringVal("//"), z3.Not(z3.SuffixOf(SL, n)))]


def effects(I):
    return [(op, p) for (op, p, _) in fsmodel.trace(I) if op in ("open_w", "makedirs", "rename", "unlink", "mkstemp")]


def make_zip_obj(I):
    z = PObj("zipfile")
    return z


def install_zip(ex):
    ex.methods[("zipfile", "read")] = Model("zipfile.ZipFile.read",
                                            lambda I, z, name: SBytes(I.fresh("data", z3.StringSort())))


def p1_extract_member(chk):
    ex = Explorer()
    fsmodel.install(ex)
    install_zip(ex)
    fn = ex.function(NUWIKI, "extract_member")

    def harness(I):
        dstdir = I.sym_str("dstdir")
        filename = I.sym_str("member_filename")      # attacker chosen: no precondition
        member = PObj("ZipInfo", {"filename": filename})
        good = I.decide(z3.SuffixOf(SL, dstdir.z))
        if good:
            for a in abs_norm_dir(I, dstdir.z):
                I.assume(a)
        out = ex.run_function(I, fn, [make_zip_obj(I), member, dstdir])
        eff = effects(I)
        if not good:
            I.oblige("bad_dstdir_raises_ValueError", out.raised("ValueError"))
            I.oblige("bad_dstdir_no_effect", len(eff) == 0)
            return
        for k, (op, p) in enumerate(eff):
            I.oblige(f"effect_inside_dst.{op}", inside(dstdir.z, z3_of(p)))
        if out.kind == "raise":
            I.oblige("only_RuntimeError_or_OSError", out.raised("RuntimeError") or out.raised("OSError"))
            if out.raised("RuntimeError"):
                I.oblige("rejected_member_leaves_nothing", len(eff) == 0)
                # no false rejection (an archive the writer produced must stay readable: C14): a member is rejected only
                # if its normalised target is not below the destination
                tp = I.call(ex.models["os.path.normpath"], [I.call(ex.models["os.path.join"], [dstdir, filename], {})], {})
                I.oblige("rejected_only_if_the_target_is_outside", z3.Not(z3.PrefixOf(dstdir.z, z3_of(tp))))
        # escaping members are rejected: if the normalised target is outside, nothing was written
        I.cover("end")

    def replay(model, obligation):
        import os, tempfile, shutil, zipfile as zf
        from mwlib.core import nuwiki
        name = model.get("member_filename")
        if not isinstance(name, str):
            return None, model, None
        base = tempfile.mkdtemp(prefix="c15replay")
        try:
            dst = os.path.join(base, "dst") + "/"
            os.makedirs(dst)
            zpath = os.path.join(base, "a.zip")
            with zf.ZipFile(zpath, "w") as z:
                z.writestr(zf.ZipInfo(name), b"x")
            before = set(_walk(base))
            try:
                with zf.ZipFile(zpath) as z:
                    for m in z.infolist():
                        m.filename = name
                        nuwiki.extract_member(z, m, dst)
            except Exception as e:  # noqa: BLE001
                pass
            new = set(_walk(base)) - before
            bad = [p for p in new if not p.startswith(dst)]
            if bad:
                return True, {"member_filename": name, "outside": bad}, "escape"
        finally:
            shutil.rmtree(base, ignore_errors=True)
        # the counter-model lives in the abstract os.path model: search the small-scope
        # member-name domain for a concrete input failing on the real code
        n, _, _, failures, _, _ = bounded_run(3, validate_models=False)
        if failures:
            return True, failures[0]["witness"], "escape"
        return False, {"member_filename": name, "searched": n}, None

    chk.prove("nuwiki.extract_member", harness, ex, replay=replay, targets=[fn])
    return ex


def _walk(base):
    import os
    for d, ds, fs in os.walk(base):
        for f in fs + ds:
            yield os.path.join(d, f)


def extract_member_contract(I, zipfile, member, dstdir):
    """Contract of extract_member as used at its call site in extractall (verified
    against the body by p1): requires dstdir = absolute normal path + '/'; every effect
    is inside dstdir."""
    I.oblige("call.extract_member.pre.dstdir_abs_norm", I.ghost["dst_is_abs_norm"](dstdir))
    # effects: any number of writes, all inside -> ghost flag stays true; may raise
    if I.decide(I.fresh("member_rejected", z3.BoolSort())):
        I.throw("RuntimeError", "bad filename in zipfile")
    if I.decide(I.fresh("io_error", z3.BoolSort())):
        I.throw("OSError", "io")
    return None


def p2_extractall(chk):
    ex = Explorer()
    fsmodel.install(ex)
    install_zip(ex)
    fn = ex.function(NUWIKI, "extractall")
    ex.contracts[NUWIKI + ":extract_member"] = extract_member_contract
    # helpers that remove files are file-system effects like any other (their path must lie inside the destination too)
    ex.contracts["mwlib/utils/unorganized.py:safe_unlink"] = lambda I, path: fsmodel.trace(I).append(("unlink", path, None))
    # the loop over infolist(): concrete unrolling is impossible (unbounded) -> invariant:
    # dst unchanged (it is not assigned in the body) and all effects so far inside (ghost)
    ex.loopspecs[(NUWIKI + ":extractall", 0)] = LoopSpec(
        invariant=lambda I, v, it: [("dst_abs_norm", I.ghost["dst_is_abs_norm"](v["dst"]))],
        variant=None)

    def harness(I):
        from pyvc.models import normpath_of, abspath_of
        dst = I.sym_str("dst")   # relative or absolute, with or without trailing separator

        def is_abs_norm(d):
            n = z3.SubString(z3_of(d), 0, z3.Length(z3_of(d)) - 1)
            return z3.And(z3.SuffixOf(SL, z3_of(d)), z3.PrefixOf(SL, n), normpath_of(n) == n,
                          z3.Not(z3.Contains(z3.Concat(n, SL), z3.StringVal("/../"))),
                          z3.Or(n == SL, n == z3.StringVal("//"), z3.Not(z3.SuffixOf(SL, n))))
        I.ghost["dst_is_abs_norm"] = is_abs_norm
        ids = I.fresh("members", z3.ArraySort(z3.IntSort(), z3.IntSort()))
        n = I.fresh("nmembers", z3.IntSort())
        I.assume(n >= 0)
        fname = z3.Function("member_filename", z3.IntSort(), z3.StringSort())
        members = SList(n, ids, lambda I2, t: PObj("ZipInfo", {"filename": SStr(fname(t))}), None, name="infolist")
        zobj = PObj("zipfile")
        ex.methods[("zipfile", "infolist")] = Model("zipfile.ZipFile.infolist", lambda I2, z: members)
        out = ex.run_function(I, fn, [zobj, dst])
        if out.kind == "raise":
            I.oblige("only_rejection_or_io_error", out.raised("RuntimeError") or out.raised("OSError"))
        I.oblige("no_direct_fs_effect", len(effects(I)) == 0)

    chk.prove("nuwiki.extractall", harness, ex, targets=[fn], replay=replay_extractall)


def replay_extractall(model, obligation):
    n, distinct, rejected, failures, samples, mc = bounded_run(2, validate_models=False)
    if failures:
        return True, dict(failures[0]["witness"], detail=failures[0]["detail"]), failures[0]["class"]
    return False, {"archives_tried": n}, None


def run(chk):
    p1_extract_member(chk)
    p2_extractall(chk)
    p3_validate_wiki_id(chk)
    bounded(chk)
    chk.assumptions += [
        "POSIX os.path: join/normpath/abspath/dirname contracts as stated in pyvc/models.py (validated against posixpath by the bounded stand-in)",
        "extraction creates no symlink (frame: extract_member has no symlink call; mkdtemp destination is fresh)",
    ]


# ---------------------------------------------------------------------------- bounded stand-in
def member_names(depth):
    import itertools
    # "ds": a proper prefix of the destination's name; "jobs.db": a file that exists next to the destination
    comps = ["..", ".", "", "a", "dst", "dst-evil", "b.txt", "ds", "jobs.db"]
    seps = ["/", "\\"]
    for d in range(1, depth + 1):
        for parts in itertools.product(comps, repeat=d):
            for sep in seps:
                if sep == "\\" and d == 1:
                    continue
                body = sep.join(parts)
                for pre in ("", "/", "{ABS}/", "{PARENT}/dst-evil/", "{PARENT}/"):
                    yield pre + body


def bounded_run(depth, first_only=True, validate_models=True):
    """Real extractall on real zip files in a sandbox; oracle = file-system diff.
    Labelled bounded, never counted as proved."""
    import os, shutil, tempfile, zipfile as zf, posixpath
    from mwlib.core import nuwiki
    base = tempfile.mkdtemp(prefix="c15bounded")
    failures = []
    n = 0
    rejected = 0
    distinct = set()
    samples = []
    model_checked = 0
    try:
        parent = os.path.join(base, "p")
        dst_plain = os.path.join(parent, "dst")
        for name_t in member_names(depth):
            name = name_t.replace("{ABS}", dst_plain).replace("{PARENT}", parent)
            for variant in (0, 1, 2):
                if variant and n % 7:   # destination spellings on a sample
                    continue
                shutil.rmtree(parent, ignore_errors=True)
                os.makedirs(dst_plain)
                os.makedirs(os.path.join(parent, "dst-evil"))
                sentinels = [os.path.join(parent, "jobs.db"), os.path.join(parent, "dst-evil", "jobs.db"), os.path.join(base, "jobs.db")]
                for sp in sentinels:
                    with open(sp, "w") as fh:
                        fh.write("kept")
                dst = {0: dst_plain, 1: dst_plain + "/", 2: os.path.relpath(dst_plain)}[variant]
                class FakeZip:
                    def infolist(self):
                        m = zf.ZipInfo("x")
                        m.filename = name
                        return [m]
                    def read(self, nm):
                        return b"data"
                n += 1
                try:
                    nuwiki.extractall(FakeZip(), dst)
                    outcome = "ok"
                except (RuntimeError, ValueError):
                    outcome = "rejected"
                    rejected += 1
                except (OSError,):
                    outcome = "oserror"
                bad = []
                for d, ds, fs in os.walk(base):
                    for f in fs + ds:
                        p = os.path.join(d, f)
                        if not (p + "/").startswith(dst_plain + "/") and p not in (parent, os.path.join(parent, "dst-evil")) and p not in sentinels:
                            bad.append(p)
                gone = [sp for sp in sentinels if not os.path.isfile(sp) or open(sp).read() != "kept"]
                if gone:
                    failures.append({"detail": f"member {name!r} ({outcome}): file(s) outside {dst_plain} removed or overwritten: {gone[:2]}",
                                     "witness": {"member_filename": name_t, "dst_variant": variant}, "class": "outside-file-touched"})
                    if first_only:
                        return n, len(distinct), rejected, failures, samples, model_checked
                distinct.add((outcome, posixpath.normpath(name)))
                if len(samples) < 4 and n % 997 == 1:
                    samples.append({"member": name_t, "dst_variant": variant, "outcome": outcome})
                if bad:
                    failures.append({"detail": f"member {name!r} written outside {dst_plain}: {bad[:2]}",
                                     "witness": {"member_filename": name_t, "dst_variant": variant}, "class": "escape"})
                    if first_only:
                        return n, len(distinct), rejected, failures, samples, model_checked
            if validate_models:
                # the assumed os.path contracts, checked against the real posixpath on this domain
                p = posixpath.join(dst_plain + "/", name)
                r = posixpath.normpath(p)
                assert len(r) >= 1 and (not p.startswith("/") or r.startswith("/")), (p, r)
                assert "/../" not in r + "/" and "/./" not in r + "/", (p, r)
                assert r in ("/", "//") or not r.endswith("/"), (p, r)
                assert len(r) <= 2 or "//" not in r[1:], (p, r)
                assert posixpath.normpath(r) == r
                d = posixpath.dirname(r)
                head = r[:r.rfind("/") + 1]
                assert r.startswith(head) and "/" not in r[len(head):]
                assert d == (head if head.strip("/") == "" else head.rstrip("/"))
                model_checked += 1
        return n, len(distinct), rejected, failures, samples, model_checked
    finally:
        shutil.rmtree(base, ignore_errors=True)


def bounded(chk):
    depth = 3 if chk.tier == "quick" else 5
    n, distinct, rejected, failures, samples, mc = bounded_run(depth)
    chk.bounded_result("extractall_sandbox", n, distinct, True,
                       f"member names of <= {depth} components over 9 components (among them a proper prefix of the destination's name and the name of a file that exists outside) x 2 separators x 5 prefixes; destination plain/trailing-slash/relative; oracle: nothing new outside the destination, files outside untouched",
                       failures, samples)
    chk.extra["os_path_model_validated_on"] = mc
    chk.extra["bounded_rejected_members"] = rejected


# ----------------------------------------------------------------------------- wiki.MultiEnvironment._validate_wiki_id: ids joined to the extraction directory
def p3_validate_wiki_id(chk):
    """make_wiki opens <extraction dir>/<wikiident> for every article of a multi-wiki archive; the identifier comes from
    the archive's metabook.json.  Contract of the validator: it returns normally only for a non-empty identifier without
    '/' and without '..' (so the joined path names a direct sub-directory); everything else raises WikiIdValidationError."""
    WIKI = "mwlib/core/wiki.py"
    ex = Explorer()
    fn = ex.function(WIKI, "MultiEnvironment._validate_wiki_id")

    def harness(I):
        wid = I.sym_str("wikiident")
        out = ex.run_function(I, fn, [PObj("MultiEnvironment", {}), wid, PObj("article", {})])
        safe = z3.And(z3.Length(wid.z) > 0, z3.Not(z3.Contains(wid.z, z3.StringVal("/"))), z3.Not(z3.Contains(wid.z, z3.StringVal(".."))))
        if out.returned:
            I.oblige("accepted_identifier_names_a_direct_subdirectory", safe)
        else:
            I.oblige("raises_WikiIdValidationError_only", out.raised("WikiIdValidationError"))
            I.oblige("rejected_only_if_unsafe", z3.Not(safe))
    chk.prove("wiki.MultiEnvironment._validate_wiki_id", harness, ex, targets=[fn], replay=replay_wiki_id)


def replay_wiki_id(model, obligation):
    from mwlib.core import wiki
    me = wiki.MultiEnvironment.__new__(wiki.MultiEnvironment)
    for wid in ("..", "../x", "a/b", "/abs", "", "ok", "de", "a..b", ".", "...", "x/..", "..\\x", "enwiki-2"):
        want_ok = bool(wid) and "/" not in wid and ".." not in wid
        try:
            me._validate_wiki_id(wid, object())
            ok = True
        except wiki.WikiIdValidationError:
            ok = False
        except Exception as e:  # noqa: BLE001
            return True, {"wikiident": wid, "raised": f"{type(e).__name__}: {e}"}, "wiki-id"
        if ok != want_ok:
            return True, {"wikiident": wid, "accepted": ok, "must_be_accepted": want_ok,
                          "consequence": "make_wiki opens a directory outside the extraction directory as a wiki" if ok else "a harmless identifier is refused"}, "wiki-id"
    return False, {"cases": 13}, None
