"""C16 - the job queue neither loses nor duplicates a job, under any interleaving.

Inductive invariant over the atomic (between-yield) segments of the real code of
qs/jobs.py and qs/qserve.py (DESIGN 3/C16).  Every segment starts in an arbitrary state
satisfying Inv (contracts/qmodel.py: inv_clauses) and must end in a state satisfying Inv.
qserve is single-threaded gevent: control changes hands only at calls tagged as yielding
(here: AsyncResult.get), so Inv then holds at every scheduling point of every schedule.
"""
import z3

from pyvc.interp import Explorer, LoopSpec, Undecided, Forall
from pyvc.values import PObj, SRef, SInt, SBool, SReal, Model, ExcClass, ExcVal, ClassRef, z3_of
from pyvc import source
from contracts import qmodel as qm
from contracts.qmodel import st, Z, Bo, A, JOBS, QSERVE

GREENLET_EXIT = ExcClass("GreenletExit", ["GreenletExit", "BaseException", "object"])


def new_explorer():
    ex = Explorer()
    job_cls, workq_cls = qm.install(ex)
    ex.job_cls, ex.workq_cls = job_cls, workq_cls
    qmod = source.module(QSERVE)
    ex.plugin_cls = ClassRef(qmod.defs["QPlugin"], qmod)
    ex.models["gevent.GreenletExit"] = GREENLET_EXIT
    for f in ("workq.pushjob", "workq.push", "workq.pop", "workq._preenall", "workq._preenjobq",
              "workq._mark_finished", "workq.killjobs", "workq.finishjob", "workq.handletimeouts",
              "job._json", "job.__getstate__", "workq.dropdead"):
        ex.inline.add(f"{JOBS}:{f}")

    # --- pushjob loop 0: `for watching, ev in self._waiters` collects the eligible waiters
    def inv_pushjob(I, v, it):
        S = st(I)
        alt = qm.as_set_term(v["alternatives"])
        ch = I._int_term(v["channel"])
        V = it["V"]

        def f(x):
            elig = z3.And(z3.Not(z3.Select(S["a_ready"], x)),
                          z3.Or(z3.Select(z3.Select(S["a_watch"], x), ch), z3.Select(S["a_any"], x)))
            return z3.Select(alt, x) == z3.And(z3.Select(V, x), elig)
        return [("alternatives_are_the_eligible_visited_waiters", Forall(["waiter"], f))]

    def havoc_alt(I, v, it):
        v["alternatives"] = qm.RefSet(I.fresh("alternatives@waiter", A(Z, Bo)), "asyncresult")
    ex.loopspecs[(JOBS + ":workq.pushjob", 0)] = qm.unchanged_loop_spec(inv_pushjob, ("alternatives",), havoc_alt)

    # --- pop loop 0: `for c in try_channels` collects the queue heads
    def inv_pop(I, v, it):
        S = st(I)
        jobs = qm.as_set_term(v["jobs"])
        V = it["V"]

        def a(x):
            cx = z3.Select(S["j_chan"], x)
            qx = z3.Select(S["Q"], cx)
            head = qm.heap_min(qx, S["j_prio"], S["j_serial"])
            return z3.Implies(z3.Select(jobs, x), z3.And(z3.Select(qx, x) > 0, x == head, z3.Select(V, cx)))

        def b(c):
            qc = z3.Select(S["Q"], c)
            hc = qm.heap_min(qc, S["j_prio"], S["j_serial"])
            return z3.Implies(z3.And(z3.Select(V, c), z3.Select(S["q_has"], c), z3.Select(qc, hc) > 0), z3.Select(jobs, hc))
        return [("jobs_are_heads_of_visited_queues", Forall(["job"], a)),
                ("every_visited_nonempty_queue_contributes_its_head", Forall(["chan"], b))]

    def havoc_jobs(I, v, it):
        v["jobs"] = qm.RefSet(I.fresh("jobs@job", A(Z, Bo)), "job")
    ex.loopspecs[(JOBS + ":workq.pop", 0)] = qm.unchanged_loop_spec(inv_pop, ("jobs",), havoc_jobs)

    # --- loops that modify the queue state: the global invariant is the loop invariant
    for key in ((JOBS + ":workq._preenjobq", 0), (JOBS + ":workq._preenall", 0), (JOBS + ":workq.handletimeouts", 0)):
        ex.loopspecs[key] = qm.state_loop_spec()

    # dropdead iterates a snapshot of id2job.items(): entries not yet visited are still in the table
    def inv_dropdead(I, v, it):
        S = st(I)
        has, val = I.ghost["last_items_snapshot"]
        V = it["V"]
        return [("unvisited_snapshot_entries_still_registered", Forall(["id"], lambda i: z3.Implies(
            z3.And(z3.Select(has, i), z3.Not(z3.Select(V, i))),
            z3.And(z3.Select(S["id_has"], i), z3.Select(S["id_val"], i) == z3.Select(val, i)))))]
    ex.loopspecs[(JOBS + ":workq.dropdead", 0)] = qm.state_loop_spec(inv_dropdead)

    # shutdown: entries already visited have left the dead connection (ghost release on take)
    def inv_shutdown(I, v, it):
        S = st(I)
        k = v["self"].fields["running_jobs"].conn
        V, Rk = it["V"], z3.Select(S["R_has"], k)
        return [("visited_entries_released", Forall(["id"], lambda i: z3.Implies(z3.Select(V, i), z3.Not(z3.Select(Rk, i)))))]
    ex.loopspecs[(QSERVE + ":QPlugin.shutdown", 0)] = qm.state_loop_spec(inv_shutdown)

    # killjobs / rpc_qkill: the ids already visited (first loop), resp. all listed ids
    # (second loop, which runs after killjobs returned) denote finished jobs
    def inv_killjobs(I, v, it):
        S = st(I)
        V = it["V"]
        return [("visited_ids_are_finished", Forall(["id"], lambda i: z3.Implies(
            z3.And(z3.Select(V, i), z3.Select(S["id_has"], i)), z3.Select(S["j_done"], z3.Select(S["id_val"], i)))))]
    ex.loopspecs[(JOBS + ":workq.killjobs", 0)] = qm.state_loop_spec(inv_killjobs)

    def inv_qkill(I, v, it):
        S = st(I)
        ids = v["jobids"].member
        return [("listed_ids_are_finished", Forall(["id"], lambda i: z3.Implies(
            z3.And(z3.Select(ids, i), z3.Select(S["id_has"], i)), z3.Select(S["j_done"], z3.Select(S["id_val"], i)))))]
    ex.loopspecs[(QSERVE + ":QPlugin.rpc_qkill", 0)] = qm.state_loop_spec(inv_qkill)
    return ex


def start(I, ex, prefix="s0_"):
    S = qm.State(I, prefix)
    I.ghost["S"] = S
    I.ghost["S_pre"] = S.copy()          # for the guarantee obligations of the segment (see finish)
    qm.assume_inv(I, S)
    w = qm.make_workq(I, ex.workq_cls)
    w.fields["count"] = SInt(S["count"])
    I.ghost["sync_objs"] = [w]
    return S, w


def make_plugin(I, ex, w, name="k"):
    k = I.fresh(name + "@conn", Z)
    I.inputs[str(k)] = k
    I.assume(k != 0)
    p = PObj(ex.plugin_cls, {"running_jobs": qm.IdDict(conn=k), "workq": w})
    I.ghost["own_conn"] = k              # the connection whose request this segment serves
    return p, k


def finish(I, w, prefix="inv", skip=()):
    S = st(I)
    S["count"] = z3_of(w.fields["count"])
    qm.oblige_inv(I, S, prefix, skip)
    guarantees(I, S, prefix)


def guarantees(I, S, prefix):
    """see qmodel.guarantee_clauses"""
    for label, f in qm.guarantee_clauses(I, S):
        I.oblige(f"{prefix}.{label}", f)


def nowhere(I, S, j):
    """job j is in no queue, held by no waiter and by no connection"""
    I.assume(z3.Select(S["holder"], j) == 0)
    I.assume(z3.Select(S["conn"], j) == 0)
    Q = S["Q"]
    I.assume(Forall(["chan"], lambda c: qm.sel2(Q, c, j) == 0, "in_no_queue"))


def note_exc(out):
    return {"exc": (out.exc.cls.name + repr(out.exc.args)) if out.exc else None}


# ----------------------------------------------------------------------------- segments
def seg_pushjob_new(chk):
    """pushjob as called from push(): a freshly constructed job"""
    ex = new_explorer()
    fn = ex.function(JOBS, "workq.pushjob")

    def harness(I):
        S, w = start(I, ex)
        j = I.fresh("job@job", Z)
        I.inputs[str(j)] = j
        I.assume(qm.valid_job(S, j))
        I.assume(z3.Select(S["j_serial"], j) == 0)
        I.assume(z3.Not(z3.Select(S["j_done"], j)))
        nowhere(I, S, j)
        I.assume(z3.Select(S["TQ"], j) == 0)
        # job.__init__ gave it a fresh, unset finish event
        ev = z3.Select(S["j_event"], j)
        I.assume(z3.And(ev >= 1, ev < S["alloc"], z3.Not(z3.Select(S["is_job"], ev)), z3.Not(z3.Select(S["e_set"], ev)),
                        z3.Select(S["ev_owner"], ev) == j))
        # push() passes an id that is None, free, or whose current holder was killed (done)
        jid = z3.Select(S["j_jobid"], j)
        old = z3.Select(S["id_val"], jid)
        I.assume(z3.Or(jid == 0, z3.Not(z3.Select(S["id_has"], jid)), z3.Select(S["j_done"], old)))
        # automatically assigned ids are serials (count + 1): assumed not to collide with an
        # explicit id in use (explicit ids of mwlib are strings '<collection>:...')
        I.assume(z3.Not(z3.Select(S["id_has"], S["count"] + 1)))
        out = ex.run_function(I, fn, [w, SRef("job", j)])
        I.oblige("no_raise", out.returned, meta=note_exc(out))
        I.ghost["S_pre"] = None        # half of push()'s segment: the guarantees are obligations of jobs.workq.push
        finish(I, w)

    chk.prove("jobs.workq.pushjob[new job]", harness, ex, targets=[fn], replay=replay_history)


def seg_pushjob_contract(chk):
    """workq.pushjob against its transition contract (qmodel.pushjob_post), for a fresh job
    (push) and for a job being re-queued (pop's handler, shutdown)"""
    ex = new_explorer()
    fn = ex.function(JOBS, "workq.pushjob")

    def harness(I):
        S, w = start(I, ex)
        j = I.fresh("job@job", Z)
        I.inputs[str(j)] = j
        I.assume(qm.valid_job(S, j))
        S0 = S.copy()
        count0 = S["count"]
        out = ex.run_function(I, fn, [w, SRef("job", j)])
        I.oblige("no_raise", out.returned, meta=note_exc(out))
        S1 = st(I)
        count1 = z3_of(w.fields["count"])
        handed = not S1["a_ready"].eq(S0["a_ready"])
        wv = S1["a_ready"].arg(1) if handed and z3.is_store(S1["a_ready"]) else None
        if handed and wv is None:
            raise Undecided("cannot identify the waiter the body handed the job to")
        if not handed:
            # the queued branch of the contract also says that no waiter was eligible
            ch = z3.Select(S0["j_chan"], j)
            I.oblige("contract.queued_only_if_no_eligible_unready_waiter",
                     Forall(["waiter"], lambda x: z3.Not(qm.eligible_unready(S0, x, ch))))
        rel, jid1 = qm.pushjob_post(S0, S1, j, count0, count1, wv)
        for label, f in rel:
            I.oblige("contract." + label, f)
        I.oblige("contract.returns_the_job_id", I.eq_term(out.value, SInt(jid1)))

    chk.prove("jobs.workq.pushjob[contract]", harness, ex, targets=[fn], replay=replay_history)


def requeue_pre(I, S, j):
    """precondition of pushjob when an already known job is pushed again (pop's handler,
    shutdown): it is unfinished and, at this moment, in no queue / waiter / connection"""
    I.oblige("pushjob_pre.valid_unfinished_job", z3.And(qm.valid_job(S, j), z3.Not(z3.Select(S["j_done"], j)),
                                                       z3.Select(S["j_serial"], j) != 0, qm.known(S, j)))
    I.oblige("pushjob_pre.job_is_nowhere", z3.And(z3.Select(S["holder"], j) == 0, z3.Select(S["conn"], j) == 0))
    Q = S["Q"]
    I.oblige("pushjob_pre.job_in_no_queue", Forall(["chan"], lambda c: qm.sel2(Q, c, j) == 0))


def seg_push(chk):
    """workq.push: idempotent add + construction of the job + pushjob"""
    ex = new_explorer()
    fn = ex.function(JOBS, "workq.push")
    ex.models["time.time"] = Model("time.time", lambda I: SReal(I.fresh("now", z3.RealSort())))

    def harness(I):
        S, w = start(I, ex)
        I.assume(z3.Not(z3.Select(S["id_has"], S["count"] + 1)))
        channel = I.sym_int("channel@chan")
        prio = I.sym_int("priority")
        jobid = None if I.decide(I.sym_bool("jobid_none").z) else I.sym_int("jobid@id")
        if jobid is not None:
            I.assume(jobid.z != 0)
        out = ex.run_function(I, fn, [w, channel], {"priority": prio, "jobid": jobid, "payload": None})
        I.oblige("no_raise", out.returned, meta=note_exc(out))
        finish(I, w)

    chk.prove("jobs.workq.push", harness, ex, targets=[fn, ex.function(JOBS, "job.__init__")], replay=replay_history)


def seg_qpull(chk):
    """QPlugin.rpc_qpull -> workq.pop, three groups of obligations:
    segment A (entry -> return, or -> the yield in AsyncResult.get), segment B (resume with
    a value -> return), segment B' (resume with GreenletExit because the client vanished ->
    pop's handler -> handle_client's finally: shutdown()).  Segments B/B' start from an
    arbitrary state satisfying Inv plus the rely of a suspended puller; the code before the
    yield is executed only to bind the locals (with empty queues, to keep it short)."""
    for which in ("A", "B", "B'"):
        _seg_qpull(chk, which)


def _seg_qpull(chk, which):
    ex = new_explorer()
    fn = ex.function(QSERVE, "QPlugin.rpc_qpull")
    sh = ex.function(QSERVE, "QPlugin.shutdown")
    ex.inline.add(sh.ident)
    # _preenall by contract (its body: C17 jobs.workq._preenjobq + assumed iteration)
    ex.contracts[JOBS + ":workq._preenall"] = qm.preenall_contract
    # pushjob by contract (verified against its body by jobs.workq.pushjob[contract])
    ex.contracts[JOBS + ":workq.pushjob"] = qm.pushjob_contract

    def harness(I):
        S, w = start(I, ex)
        plugin, k = make_plugin(I, ex, w)
        if which != "A":
            # only the locals matter for the later segments: take the short way to the yield
            I.assume(Forall(["chan"], lambda c: z3.Not(z3.Select(S["q_has"], c)), "no_queues"))
        if I.decide(I.sym_bool("channels_none").z):
            channels = None
        else:
            channels = qm.Channels(I.fresh("asked@chan", A(Z, Bo)), I.sym_bool("asked_empty").z)
            mem, emp = channels.member, channels.empty
            I.assume(Forall(["chan"], lambda x: z3.Implies(emp, z3.Not(z3.Select(mem, x))), "empty_list_has_no_member"))
        I.ghost["segment"] = "A"
        I.ghost["pushjob_pre"] = requeue_pre

        def on_yield(I2, a):
            if which == "A":
                # ---- end of segment A: the invariant must hold at the scheduling point
                finish(I2, w, "segA.inv")
                I2.oblige("segA.registered_as_unready_waiter",
                          z3.And(z3.Select(st(I2)["W"], a.z), z3.Not(z3.Select(st(I2)["a_ready"], a.z))))
                raise qm.PathCut()
            old = st(I2)
            # ---- arbitrary other segments ran: any state satisfying Inv, plus the rely of a
            # suspended puller: its waiter entry is still registered and was not re-targeted
            S1 = qm.State(I2, "s1_")
            I2.ghost["S"] = S1
            sc = I2.ghost.get("schemas")
            if sc is not None:
                sc.items = []          # facts about the pre-yield state are of no use any more
            I2.assumed_foralls = {}
            I2.vcs.clear()             # obligations of segment A belong to the other group
            qm.assume_inv(I2, S1)
            w.fields["count"] = SInt(S1["count"])
            I2.assume(z3.Select(S1["W"], a.z))
            I2.assume(S1["alloc"] >= old["alloc"])
            I2.assume(z3.Select(S1["a_watch"], a.z) == z3.Select(old["a_watch"], a.z))
            I2.assume(z3.Select(S1["a_any"], a.z) == z3.Select(old["a_any"], a.z))
            # running_jobs of this connection is touched only by this connection's own requests
            I2.assume(z3.Select(S1["R_has"], k) == z3.Select(old["R_has"], k))
            I2.assume(z3.Select(S1["R_val"], k) == z3.Select(old["R_val"], k))
            # RELY of the suspended puller = closure of the guarantees G1, G2, G3, G5 of all other segments over
            # the states between `old` (Inv held there) and S1; this connection serves one request at a time,
            # so no other segment ran for connection k
            vj = qm.valid_job
            I2.assume(Forall(["job"], lambda x: z3.Implies(z3.And(vj(S1, x), z3.Select(S1["conn"], x) == k),
                                                           z3.And(vj(old, x), z3.Select(old["conn"], x) == k)), "rely_G1"))
            I2.assume(Forall(["job"], lambda x: z3.Implies(vj(old, x), z3.And(
                vj(S1, x), z3.Implies(z3.Select(old["j_done"], x), z3.Select(S1["j_done"], x)),
                z3.Select(S1["j_jobid"], x) == z3.Select(old["j_jobid"], x),
                z3.Implies(z3.Select(old["j_serial"], x) != 0, z3.Select(S1["j_serial"], x) == z3.Select(old["j_serial"], x)))), "rely_G2"))
            # Inv(old), clause I9 (it held at the yield: segment A)
            I2.assume(Forall(["job"], lambda x: z3.Implies(z3.And(vj(old, x), z3.Select(old["j_serial"], x) != 0, z3.Not(z3.Select(old["j_done"], x))),
                                                           qm.known(old, x)), "I9_at_the_yield"))
            I2.assume(Forall(["job"], lambda x: z3.Implies(z3.And(vj(old, x), z3.Select(old["j_serial"], x) == 0),
                                                           z3.Select(old["conn"], x) == 0), "I11_at_the_yield"))
            I2.ghost["S_pre"] = S1.copy()
            I2.ghost["rely_old"] = old
            I2.ghost["segment"] = which
            if which == "B'":
                raise qm.SymRaise(ExcVal(GREENLET_EXIT, []))
            # contract of AsyncResult.get: returns once the result is ready, with its value
            I2.assume(z3.Select(S1["a_ready"], a.z))
            jv = z3.Select(S1["a_value"], a.z)
            # G3 + G2: the job was unfinished when it was handed over, hence unfinished at the yield if it existed
            pushed_before = z3.And(vj(old, jv), z3.Select(old["j_serial"], jv) != 0)
            I2.assume(z3.Implies(pushed_before, z3.Not(z3.Select(old["j_done"], jv))))
            # G5 + G2: pushed for the first time during the yield => every earlier job of that id is finished by now
            I2.assume(Forall(["job"], lambda y: z3.Implies(
                z3.And(z3.Not(pushed_before), vj(old, y), z3.Select(old["j_serial"], y) != 0,
                       z3.Select(old["j_jobid"], y) == z3.Select(S1["j_jobid"], jv)), z3.Select(S1["j_done"], y)), "rely_G5"))
            I2.hint("job", jv)
            return SRef("job", jv)
        I.ghost["on_yield"] = on_yield
        out = ex.run_function(I, fn, [plugin], {"channels": channels})
        seg = I.ghost["segment"]
        if seg != which:
            raise qm.PathCut()          # (non-blocking path of a B harness)
        if seg == "B'":
            I.oblige("segB'.only_GreenletExit", out.raised("GreenletExit"), meta=note_exc(out))
            # handle_client's finally then runs shutdown() in the same atomic segment; shutdown
            # preserves Inv from *any* state satisfying Inv (group qserve.QPlugin.shutdown), so it
            # suffices that Inv holds when the exception leaves rpc_qpull
            finish(I, w, "segB'.inv_at_exception_exit")
            return
        I.oblige(f"seg{seg}.no_raise", out.returned, meta=note_exc(out))
        # clause I4a after segment B (`running_jobs[j.jobid] = j` must not overwrite the entry of another unfinished
        # job of this connection) follows from the rely assumed at the yield (see on_yield)
        finish(I, w, f"seg{seg}.inv")

    chk.prove(f"qserve.QPlugin.rpc_qpull[{which}]", harness, ex, targets=[fn, ex.function(JOBS, "workq.pop")],
              replay=replay_history)


def release_running(I, k, i):
    """ghost: a job taken from the dead connection's running_jobs for re-queueing leaves
    that connection (the plugin object is dropped right after shutdown())"""
    S = st(I)
    j = qm.sel2(S["R_val"], k, i)
    S["R_has"] = qm.store2(S["R_has"], k, i, False)
    S["conn"] = z3.Store(S["conn"], j, z3.If(z3.Select(S["conn"], j) == k, z3.IntVal(0), z3.Select(S["conn"], j)))


def close_connection(I, k):
    S = st(I)
    # every entry was visited by shutdown's loop (at_exit of the iteration), so R[k] is empty
    S["R_has"] = z3.Store(S["R_has"], k, z3.K(Z, False))


def seg_shutdown(chk):
    """worker disconnect while idle: handle_client's finally -> shutdown()"""
    ex = new_explorer()
    fn = ex.function(QSERVE, "QPlugin.shutdown")
    ex.contracts[JOBS + ":workq.pushjob"] = qm.pushjob_contract

    def harness(I):
        S, w = start(I, ex)
        plugin, k = make_plugin(I, ex, w)
        I.ghost["on_take_running"] = release_running
        I.ghost["pushjob_pre"] = requeue_pre
        out = ex.run_function(I, fn, [plugin])
        I.oblige("no_raise", out.returned, meta=note_exc(out))
        # all entries visited => after the loop no unfinished job is attributed to k any more
        close_connection(I, k)
        finish(I, w)

    chk.prove("qserve.QPlugin.shutdown", harness, ex, targets=[fn], replay=replay_history)


def seg_simple(chk, name, rel, qual, args_fn, plugin=False):
    ex = new_explorer()
    fn = ex.function(rel, qual)
    ex.models["time.time"] = Model("time.time", lambda I: SReal(I.fresh("now", z3.RealSort())))

    def harness(I):
        S, w = start(I, ex)
        recv = w
        if plugin:
            recv, k = make_plugin(I, ex, w)
        args, kwargs = args_fn(I, S)
        out = ex.run_function(I, fn, [recv] + args, kwargs)
        allowed = ("KeyError",) if qual.endswith(("finishjob", "rpc_qfinish")) else ()
        if out.kind == "raise" and any(out.raised(a) for a in allowed):
            pass
        else:
            I.oblige("no_raise", out.returned, meta=note_exc(out))
        finish(I, w)

    chk.prove(name, harness, ex, targets=[fn], replay=replay_history)


def idlist(I):
    """the `jobids` argument: an arbitrary list of ids, abstracted to the set of its elements"""
    member = I.fresh("jobids@id", A(Z, Bo))
    lst = qm.AbsIter("jobids", qm.set_iter(lambda I2: member, lambda I2, x: SInt(x), "id"))
    lst.member = member
    return lst


def replay_history(model, obligation):
    """turn a refuted / undischarged invariant obligation into a concrete failing history on
    the real workq/QPlugin with real greenlets"""
    from contracts import qhistory
    # (the segments are also run by C17 under the extended invariant: its oracles then take part, minus its known finding)
    checks = ("c16", "c17") if qm.EXTENDED else ("c16",)
    skip = None
    if qm.EXTENDED:
        from contracts import c17
        skip = lambda f: f["check"] == "c17" and c17.classify17(f) == "finished-between-handoff-and-resume"  # noqa: E731
    n, appl, fail, samples = qhistory.search(3, checks=checks, budget=60000, skip=skip)
    if fail is None:
        n2, appl2, fail, _ = qhistory.search(0, checks=checks, random_len=8, random_n=3000, skip=skip)
        n += n2
    if fail:
        return True, fail, classify(fail)
    return False, {"histories_searched": n}, None


def classify(fail):
    ops = [o[0] for o in fail["history"]]
    if "disconnect" in ops:
        return "disconnect"
    return "+".join(sorted(set(ops)))


def bounded(chk):
    from contracts import qhistory
    depth = 3 if chk.tier == "quick" else 4
    n, appl, fail, samples = qhistory.search(depth, checks=("c16",), budget=10**7, seed=chk.seed,
                                             random_len=8, random_n=2000 if chk.tier == "quick" else 20000)
    chk.bounded_result("histories_on_real_gevent_objects", n, appl, True,
                       f"all histories of <= {depth} operations over the property's alphabet (17 ops, 2 channels, 2 workers) "
                       f"plus seeded random histories of <= 8 operations; Inv observed after every operation",
                       [{"detail": fail["detail"], "witness": fail, "class": classify(fail)}] if fail else [], samples)


def _with(c, fn):
    fn(c)


def run(chk):
    import os
    only = os.environ.get("VERIF_ONLY")
    segs = [
        ("pushjob", lambda chk: seg_pushjob_new(chk)),
        ("pushjob_contract", lambda chk: seg_pushjob_contract(chk)),
        ("push", lambda chk: seg_push(chk)),
        ("qpull", lambda chk: seg_qpull(chk)),
        ("shutdown", lambda chk: seg_shutdown(chk)),
        ("qfinish", lambda chk: seg_simple(chk, "qserve.QPlugin.rpc_qfinish", QSERVE, "QPlugin.rpc_qfinish",
                                       lambda I, S: ([I.sym_int("jobid@id")], {"result": qm.json_of(I, I.fresh("res", Z)),
                                                     "error": None if I.decide(I.sym_bool("error_none").z) else I.sym_str("error")}),
                                       plugin=True)),
        ("qkill", lambda chk: seg_simple(chk, "qserve.QPlugin.rpc_qkill", QSERVE, "QPlugin.rpc_qkill",
                                     lambda I, S: ([idlist(I)], {}), plugin=True)),
        ("timeouts", lambda chk: seg_simple(chk, "jobs.workq.handletimeouts", JOBS, "workq.handletimeouts", lambda I, S: ([], {}))),
        ("dropdead", lambda chk: seg_simple(chk, "jobs.workq.dropdead", JOBS, "workq.dropdead", lambda I, S: ([], {}))),
        ("handle_client", lambda chk: seg_handle_client(chk)),
    ]
    segs = [(n, f) for n, f in segs if not only or n in only.split(",")]
    for name, fn in segs:
        fn(chk)
    chk.vc_replay["C16."] = replay_history
    if only and "bounded" not in only.split(","):
        return
    bounded(chk)
    if only:
        return
    chk.assumptions += [
        "gevent is cooperative: greenlets switch only inside calls tagged as yielding (AsyncResult.get, Event.wait, socket I/O); logging does not yield",
        "AsyncResult.set stores the value and marks the result ready without switching; AsyncResult.get returns the stored value once ready",
        "heapq on a list is a multiset whose [0]/heappop is a minimum w.r.t. job.__lt__ (strict total order on pushed jobs by (priority, serial): C17)",
        "the plugin object of a connection is not used after shutdown() (handle_client ends)",
        "automatically assigned integer ids (serials) do not collide with explicit ids in use: assumed in the proofs (ids are abstract); mwlib's own ids are strings, and for integer ids supplied by clients push() now keeps the counter above them (fix in DESIGN 4) - that case is covered by the bounded history family with an explicit integer id only",
        "job ids are abstracted to integers (0 = None); channels to integers",
        "rely of a puller suspended in AsyncResult.get = closure of the guarantees G1, G2, G5 (obligations of every segment and invariants of every state-modifying loop) + 'a connection serves one request at a time' + 'the handed job was unfinished at hand-over' (pushjob contract, call-site preconditions verified in C17)",
    ]


# ----------------------------------------------------------------------------- rpcserver.Server.handle_client: a vanished connection always reaches shutdown()


def seg_handle_client(chk):
    """"handed out again only if its worker's connection drops": the only code that re-queues the jobs of a dropped
    connection is the request handler's shutdown().  Exit-frame contract of handle_client: once a request handler
    exists, shutdown() is called exactly once on EVERY exit - normal end of input, protocol error, exception in the
    handler, GreenletExit while waiting, and I/O errors (BrokenPipe / ECONNRESET) in write / flush / close."""
    from pyvc.interp import LoopSpec, SymRaise
    from pyvc.values import ExcVal
    rel = "qs/rpcserver.py"
    ex = Explorer()
    ex.models["gevent.GreenletExit"] = GREENLET_EXIT
    mod = source.module(rel)
    scls = ClassRef(mod.defs["Server"], mod)
    fn = ex.function(rel, "Server.handle_client")

    def io_fault(I, what):
        if I.decide(I.fresh("io_error_in_" + what, z3.BoolSort())):
            I.ghost["faults"].append(what)
            I.throw("BrokenPipeError", what)

    def killed(I, what):
        if I.decide(I.fresh("killed_in_" + what, z3.BoolSort())):
            raise SymRaise(ExcVal(GREENLET_EXIT, []))

    def m(name, fn_):
        return Model(name, fn_)
    ex.methods[("sock", "close")] = m("socket.close", lambda I, s: io_fault(I, "sock.close"))
    # precondition: makefile on the accepted socket succeeds (no handler exists before it; a failure there is outside C16)
    ex.methods[("sock", "makefile")] = m("socket.makefile", lambda I, s, *a: PObj("sockfile", {}))
    ex.methods[("sockfile", "write")] = m("file.write", lambda I, f, d: io_fault(I, "write"))
    ex.methods[("sockfile", "flush")] = m("file.flush", lambda I, f: io_fault(I, "flush"))

    def sf_close(I, f):
        # close() flushes what a failed write / flush left in the buffer: it fails again after such a failure
        if "write" in I.ghost["faults"] or "flush" in I.ghost["faults"]:
            I.ghost["faults"].append("close")
            I.throw("BrokenPipeError", "close")
        io_fault(I, "close")
    ex.methods[("sockfile", "close")] = m("file.close", sf_close)
    ex.models["gevent.getcurrent"] = m("getcurrent", lambda I: I.ghost["current"])
    ex.methods[("greenlet", "link")] = m("Greenlet.link", lambda I, g, f: None)
    ex.methods[("greenlet", "kill")] = m("Greenlet.kill", lambda I, g, *a, **k: None)
    ex.setattr_hooks["greenlet"] = lambda I, o, n, v: o.fields.__setitem__(n, v)
    ex.models["gevent.spawn"] = m("gevent.spawn", lambda I, f, *a: PObj("greenlet", {}))
    ex.models["gevent.queue.Queue"] = m("queue.Queue", lambda I: PObj("queue", {}))

    def q_get(I, q):
        killed(I, "lineq.get")           # yield point: the reader greenlet kills this one when the peer vanishes
        if I.decide(I.fresh("end_of_input", z3.BoolSort())):
            return ""
        s = I.fresh_str("line")
        I.assume(z3.Length(s.z) > 0)
        return s
    ex.methods[("queue", "get")] = m("Queue.get [yield point]", q_get)

    def j_loads(I, line):
        if I.decide(I.fresh("malformed_request", z3.BoolSort())):
            I.throw("ValueError", "no json")
        return PObj("request", {})
    for jm in ("json", "simplejson"):
        ex.models[jm + ".loads"] = m("json.loads", j_loads)
        ex.models[jm + ".dumps"] = m("json.dumps", lambda I, o, **k: I.fresh_str("json"))

    def handler_call(I, req):
        k = I.choose(3, "handler_outcome")
        if k == 1:
            I.throw("RuntimeError", "handler failed")
        if k == 2:
            raise SymRaise(ExcVal(GREENLET_EXIT, []))      # killed inside a blocking rpc (qpull waiting for a job)
        return PObj("result", {})
    ex.methods[("handler", "__call__")] = m("request handler", handler_call)

    def handler_shutdown(I, h):
        I.ghost["shutdowns"] += 1
    ex.methods[("handler", "shutdown")] = m("request handler.shutdown", handler_shutdown)

    def get_handler(I, srv, **kw):
        I.ghost["handler_created"] = True
        return PObj("handler", {})
    ex.methods[("Server", "get_request_handler")] = m("Server.get_request_handler", get_handler)
    ex.methods[("Server", "is_allowed")] = m("Server.is_allowed", lambda I, srv, ip: I.fresh_bool("allowed"))
    ex.methods[("Server", "log")] = m("Server.log", lambda I, srv, msg: None)

    def srv_getattr(I, o, name):
        mm = ex.methods.get(("Server", name))
        if mm is not None and name in ("get_request_handler", "is_allowed", "log"):
            from pyvc.values import BoundMethod
            return BoundMethod(o, mm)
        return NotImplemented
    ex.getattr_hooks["Server"] = srv_getattr
    ex.loopspecs[(fn.ident, 0)] = LoopSpec(lambda I, v, it: [("no_shutdown_while_serving", I.ghost["shutdowns"] == 0),
                                                             ("no_failed_write_is_survived", not I.ghost["faults"])])

    def harness(I):
        I.ghost.update({"shutdowns": 0, "faults": [], "handler_created": False, "current": PObj("greenlet", {})})
        me = PObj(scls, {"client_count": 0})
        out = ex.run_function(I, fn, [me, PObj("sock", {}), ("10.0.0.1", 4711)])
        if I.ghost["handler_created"]:
            I.oblige("shutdown_runs_exactly_once_on_every_exit" + ("" if I.ghost["shutdowns"] == 1 else f"[after {'+'.join(I.ghost['faults']) or 'no fault'}: {I.ghost['shutdowns']} calls]"),
                     I.ghost["shutdowns"] == 1)
        else:
            I.oblige("no_shutdown_without_a_handler", I.ghost["shutdowns"] == 0)
    chk.prove("rpcserver.Server.handle_client", harness, ex, targets=[fn], replay=replay_handle_client)


def replay_handle_client(model, obligation):
    """the real handle_client on stand-in socket objects whose flush fails (and whose close then fails again, as a
    buffered file does): is the request handler's shutdown() reached?"""
    import gevent
    from qs import rpcserver
    calls = []

    class Handler:
        def __call__(self, req):
            return {"ok": 1}

        def shutdown(self):
            calls.append("shutdown")

    class F:
        def __init__(self):
            self.lines = ['{"method": "qpull"}\n', ""]
            self.failed = False

        def readline(self):
            return self.lines.pop(0) if self.lines else ""

        def write(self, d):
            pass

        def flush(self):
            self.failed = True
            raise BrokenPipeError("flush")

        def close(self):
            if self.failed:
                raise BrokenPipeError("close flushes again")

    class S:
        def makefile(self, *a):
            return F()

        def close(self):
            pass
    srv = rpcserver.Server.__new__(rpcserver.Server)
    srv.client_count = 0
    srv.is_allowed = lambda ip: True
    srv.get_request_handler = lambda **kw: Handler()
    g = gevent.spawn(srv.handle_client, S(), ("10.0.0.1", 1))
    g.join(timeout=5)
    if calls != ["shutdown"]:
        return True, {"schedule": "worker sends a request, the response cannot be written (BrokenPipe in flush; close fails again)",
                      "shutdown_calls": len(calls), "consequence": "running_jobs of the connection are never re-queued: the job is lost until its timeout"}, "no_shutdown_after_io_error"
    return False, {"cases": 1}, None
