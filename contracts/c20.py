"""C20 - output files appear atomically (DESIGN 3/C20).

Ghost file system = event trace of the FS calls made by the real producer code on each
path, with I/O-error injection at every call (the exceptional postcondition of each FS
contract).  A crash is "stop after any event, drop buffers", so the protocol is an
invariant over *every prefix* of the trace:
  P1  the published path `final` is never opened for writing (it would be truncated);
  P2  `final` only ever changes by rename/replace from a source that (a) was written by
      this producer, (b) is closed at that moment, (c) lies in dirname(final);
  P3  on normal exit of a producer that publishes, the rename happened;
  P4  on exceptional exits of the zip producers the temp file is unlinked.
P1+P2 and the atomicity of rename(2) give: at any crash point `final` is absent, the
complete previous version or the complete new version.
"""
import ast

import z3

from pyvc import fsmodel, source
from pyvc.interp import Explorer, LoopSpec, Undecided
from pyvc.values import PObj, SStr, SInt, Model, CtxMgr, ExcClass, ExcVal, z3_of, kind_of

STATUS = "mwlib/utils/status.py"
BUILDZIP = "mwlib/apps/buildzip.py"
TRANSPORT = "mwlib/network/transport.py"
RENDER = "mwlib/apps/render.py"
UNORG = "mwlib/utils/unorganized.py"


def same_dir(final, src, I):
    """src lies in the directory of final (rename stays inside one file system)"""
    f, s = z3_of(final), z3_of(src)
    base = I.fresh("srcbase", z3.StringSort())
    fbase = I.fresh("finalbase", z3.StringSort())
    d = I.fresh("dir", z3.StringSort())
    # exists d, base, fbase: final = d + fbase, src = d + base, neither base contains '/'
    return [f, s]


def check_protocol(I, final, publishes=True, normal_exit=True, temp_must_be_unlinked=False, label=""):
    """evaluate P1..P4 on this path's trace (every prefix: each event is checked in the
    context of the events before it)"""
    tr = fsmodel.trace(I)
    fz = z3_of(final)
    open_now = []      # (path term, handle) opened for writing and not yet closed
    written = []       # path terms that were opened for writing by this producer
    renamed_to_final = False
    last_temp = None
    unlinked = []
    for k, (op, a, b) in enumerate(tr):
        if op in ("open_w", "contract_write"):
            I.oblige(f"{label}P1.final_never_opened_for_writing", z3_of(a) != fz)
            if op == "open_w":
                open_now.append((a, b))
            written.append(a)
        elif op == "close":
            open_now = [(p, h) for (p, h) in open_now if h is not b]
        elif op == "mkstemp":
            last_temp = a
            written.append(a)
        elif op == "rename":
            src, dst = a, b
            to_final = I.eq_term(dst, final)
            if to_final is False:
                continue
            # the only renames a producer makes target `final`
            I.oblige(f"{label}P2.rename_targets_the_published_path", to_final)
            I.oblige(f"{label}P2a.rename_source_was_written_by_this_producer",
                     z3.Or([z3_of(w) == z3_of(src) for w in written]) if written else False)
            for (p, h) in open_now:
                I.oblige(f"{label}P2b.rename_source_is_closed", z3_of(p) != z3_of(src))
            # same directory: src = dirname(final) + '/' + base, or src = final + suffix without '/'
            I.oblige(f"{label}P2c.rename_source_in_the_directory_of_final", in_same_dir(I, src, final))
            renamed_to_final = True
        elif op == "unlink":
            I.oblige(f"{label}P1.final_never_unlinked", z3_of(a) != fz)
            unlinked.append(a)
    if publishes and normal_exit:
        I.oblige(f"{label}P3.published_on_normal_exit", renamed_to_final)
    if temp_must_be_unlinked and not normal_exit and last_temp is not None:
        I.oblige(f"{label}P4.temp_unlink_attempted_on_error",
                 z3.Or([z3_of(u) == z3_of(last_temp) for u in unlinked]) if unlinked else False)


def in_same_dir(I, src, final):
    s, f = z3_of(src), z3_of(final)
    g = I.ghost.get("tmp_dir_of")
    alts = []
    # (i) mkstemp(dir=dirname(final)) : recorded by the mkstemp contract
    for (name, d) in I.ghost.get("mkstemp_dirs", []):
        if d is not None:
            alts.append(z3.And(z3_of(name) == s, z3_of(d) == dirname_term(I, final)))
    # (ii) final + suffix with no '/' in the suffix
    suf = z3.SubString(s, z3.Length(f), z3.Length(s) - z3.Length(f))
    alts.append(z3.And(z3.PrefixOf(f, s), z3.Not(z3.Contains(suf, z3.StringVal("/")))))
    return z3.Or(alts)


def dirname_term(I, final):
    cache = I.ghost.setdefault("dirname_cache", {})
    k = z3_of(final).get_id()
    if k not in cache:
        m = I.ex.models["os.path.dirname"]
        # use the recorded result of the code's own dirname(final) call when there is one
        cache[k] = I.ghost.get("dirname_results", {}).get(k)
    return cache[k] if cache[k] is not None else z3.StringVal("\x00<no dirname call>")


def base_explorer():
    ex = Explorer()
    fsmodel.install(ex)
    orig_dirname = ex.models["os.path.dirname"]

    def dirname(I, p):
        r = I.fresh_str("dirname")          # uninterpreted here: only its identity matters
        if kind_of(p) == "str" and not isinstance(p, str):
            I.ghost.setdefault("dirname_results", {})[z3_of(p).get_id()] = r.z
        return r
    ex.models["os.path.dirname"] = Model("os.path.dirname", dirname)
    orig_mkstemp = ex.models["tempfile.mkstemp"]

    def mkstemp(I, suffix=None, prefix=None, dir=None, text=False):
        fsmodel.maybe_fault(I, "mkstemp")
        name = I.fresh_str("tmpname")
        fd = I.fresh_int("fd")
        # contract: a fresh file inside `dir` (or the default temp directory), closed after os.close(fd)
        I.ghost.setdefault("mkstemp_dirs", []).append((name, dir))
        # a fresh temporary name is not the published path (assumption listed in the evidence)
        for f in I.ghost.get("published", []):
            I.assume(name.z != z3_of(f))
        fsmodel.trace(I).append(("mkstemp", name, dir))
        return (fd, name)
    ex.models["tempfile.mkstemp"] = Model("tempfile.mkstemp", mkstemp)
    ex.models["json.dumps"] = Model("json.dumps", lambda I, *a, **k: I.fresh_str("json"))
    ex.models["simplejson.dumps"] = ex.models["json.dumps"]
    return ex


# ----------------------------------------------------------------------------- Status.dump
def p_status_dump(chk):
    ex = base_explorer()
    fn = ex.function(STATUS, "Status.dump")

    def harness(I):
        I.ghost["fs_faults"] = True
        filename = I.sym_str("filename")
        I.assume(z3.Length(filename.z) > 0)
        I.assume(z3.Not(z3.PrefixOf(z3.StringVal("qserve://"), filename.z)))
        st = PObj(fn.cls, {"filename": filename, "qproxy": None, "status": {"progress": I.sym_int("p")}, "jobid": None})
        out = ex.run_function(I, fn, [st])
        ok_exit = out.returned
        faults = [e for e in fsmodel.trace(I) if e[0] == "fault"]
        if not ok_exit:
            I.oblige("raises_only_after_an_io_error", len(faults) > 0 and out.raised("OSError"))
        check_protocol(I, filename, publishes=True, normal_exit=ok_exit and not faults)

    chk.prove("status.Status.dump", harness, ex, targets=[fn], replay=replay_crash)


# ----------------------------------------------------------------------------- ZipCreator.create_zip / make_zip
def write_zip_contract(name):
    def contract(I, source_dir, zip_path, skip_ext=None, **kw):
        """writers write only to the path they are given: it is opened, written, closed;
        an I/O error may strike at any point (file left partial but closed)"""
        tr = fsmodel.trace(I)
        tr.append(("contract_write", zip_path, name))
        if I.ghost.get("fs_faults") and I.decide(I.fresh("fault_writer", z3.BoolSort())):
            tr.append(("fault", name, None))
            I.throw("OSError", "injected I/O error in " + name)
        return None
    return contract


def p_create_zip(chk):
    ex = base_explorer()
    fn = ex.function(BUILDZIP, "ZipCreator.create_zip")
    ex.contracts[BUILDZIP + ":ZipCreator._write_zip"] = write_zip_contract("_write_zip")
    ex.inline.add(UNORG + ":safe_unlink")

    def harness(I):
        I.ghost["fs_faults"] = True
        source_dir = I.sym_str("source_dir")
        with_output = I.decide(I.sym_bool("output_given").z)
        output = I.sym_str("output_path") if with_output else None
        if with_output:
            I.assume(z3.Length(output.z) > 0)
            I.ghost["published"] = [output]
        out = ex.run_function(I, fn, [source_dir], {"output_path": output})
        faults = [e for e in fsmodel.trace(I) if e[0] == "fault"]
        if not out.returned:
            I.oblige("raises_only_after_an_io_error", len(faults) > 0 and out.raised("OSError"))
        if with_output:
            check_protocol(I, output, publishes=True, normal_exit=out.returned, temp_must_be_unlinked=True)
            if out.returned:
                I.oblige("returns_the_published_path", I.eq_term(out.value, output))
        else:
            I.oblige("without_output_nothing_is_renamed", not any(e[0] == "rename" for e in fsmodel.trace(I)))

    chk.prove("buildzip.ZipCreator.create_zip", harness, ex, targets=[fn], replay=replay_crash)


def p_make_zip(chk):
    ex = base_explorer()
    fn = ex.function(BUILDZIP, "make_zip")
    ex.contracts[BUILDZIP + ":zip_dir"] = lambda I, dirname, output=None, skip_ext=None: \
        (write_zip_contract("zip_dir")(I, dirname, output), output)[1]
    ex.inline.add(UNORG + ":safe_unlink")
    ex.inline |= {BUILDZIP + ":TempDirManager.__init__", BUILDZIP + ":TempDirManager.__enter__", BUILDZIP + ":TempDirManager.__exit__"}

    def tdm_ctx(I, obj):
        cls = obj.cls

        def enter(I2):
            return I2.call(I2.getattr(obj, "__enter__"), [], {})

        def exit_(I2, exc):
            I2.call(I2.getattr(obj, "__exit__"), [None, None, None], {})
            return False
        return CtxMgr(enter, exit_)
    ex.ctxmgr_hooks["TempDirManager"] = tdm_ctx
    ex.models["tempfile.mkdtemp"] = Model("tempfile.mkdtemp", lambda I, **k: I.fresh_str("tmpdir"))
    ex.models["shutil.rmtree"] = Model("shutil.rmtree", lambda I, p, **k: None)
    ex.models["sys.platform"] = "linux"

    def make_nuwiki(I, **kw):
        # contract: builds the nuwiki below fsdir (inside the fresh temp dir); may fail
        if I.decide(I.fresh("nuwiki_fails", z3.BoolSort())):
            I.throw("RuntimeError", "fetch failed")
        return None
    ex.contracts["mwlib/apps/make_nuwiki.py:make_nuwiki"] = make_nuwiki
    ex.global_overrides[(BUILDZIP, "make_nuwiki")] = Model("make_nuwiki (contract: effects below fsdir only)", make_nuwiki)

    def harness(I):
        I.ghost["fs_faults"] = True
        with_output = I.decide(I.sym_bool("output_given").z)
        output = I.sym_str("output") if with_output else None
        if with_output:
            I.assume(z3.Length(output.z) > 0)
            I.ghost["published"] = [output]
        out = ex.run_function(I, fn, [], {"output": output, "wiki_options": {}, "metabook": PObj("metabook"),
                                          "pod_client": None, "status": None})
        faults = [e for e in fsmodel.trace(I) if e[0] == "fault"]
        if with_output:
            check_protocol(I, output, publishes=True, normal_exit=out.returned, temp_must_be_unlinked=True)
        if out.returned and with_output:
            I.oblige("returns_the_published_path", I.eq_term(out.value, output))

    chk.prove("buildzip.make_zip", harness, ex, targets=[fn], replay=replay_crash)


# ----------------------------------------------------------------------------- render.py block (static protocol obligations)
def p_render_block(chk):
    mod = source.module(RENDER)
    fn = None
    for n in ast.walk(mod.tree):
        if isinstance(n, ast.FunctionDef):
            src = ast.unparse(n)
            if "os.rename(tmpout, output)" in src or ("mkstemp" in src and "writer(" in src):
                fn = n
    if fn is None:
        chk.static("render.block_found", False, "the mkstemp -> writer -> rename block of render.py was not found")
        return
    calls = [c for c in ast.walk(fn) if isinstance(c, ast.Call)]
    txt = [ast.unparse(c) for c in calls]
    mk = [t for t in txt if "mkstemp(" in t]
    chk.static("render.temp_created_next_to_the_output", any("dir=os.path.dirname(output)" in t for t in mk), f"mkstemp calls: {mk}")
    wr = [c for c in calls if isinstance(c.func, ast.Name) and c.func.id == "writer"]
    outs = [ast.unparse(k.value) for c in wr for k in c.keywords if k.arg == "output"]
    chk.static("render.writer_writes_the_temp_file", bool(outs) and all(o == "tmpout" for o in outs), f"writer(..., output=...) arguments: {outs}")
    # data flow: the name handed to the writer is bound by mkstemp only (no fall-back to the published path)
    binds = []
    for n in ast.walk(fn):
        if isinstance(n, ast.Assign):
            for t in n.targets:
                names = [e.id for e in (t.elts if isinstance(t, (ast.Tuple, ast.List)) else [t]) if isinstance(e, ast.Name)]
                if "tmpout" in names:
                    binds.append((n.lineno, ast.unparse(n.value)))
    chk.static("render.temp_name_comes_from_mkstemp_only", bool(binds) and all("mkstemp(" in v for _, v in binds), f"assignments to tmpout: {binds}",
               {"assignments": binds}, "render-temp-fallback", None)
    ren = [c for c in calls if ast.unparse(c.func) in ("os.rename", "os.replace")]
    ok = [ast.unparse(c) for c in ren]
    chk.static("render.publish_by_rename_of_the_temp_file", any(ast.unparse(c.args[0]) == "tmpout" and ast.unparse(c.args[1]) == "output" for c in ren if len(c.args) == 2), f"{ok}")
    opens = [t for t in txt if t.startswith("open(") and "output" in t.split(",")[0]]
    chk.static("render.output_never_opened_directly", not opens, f"{opens}")
    # order: writer call precedes the rename in the statement list
    lines = {"writer": [c.lineno for c in wr], "rename": [c.lineno for c in ren]}
    chk.static("render.rename_after_writer_returned", bool(lines["writer"]) and bool(lines["rename"]) and max(lines["writer"]) < min(lines["rename"]), str(lines))


# ----------------------------------------------------------------------------- replay / bounded: kill-at-step-k of the real producers
def crash_points_status(tmp):
    """run the real Status.dump in a subprocess, killing it at FS-call position k; after each
    kill the final path must parse as JSON (previous or new version) or be missing"""
    import json, os, subprocess, sys
    final = os.path.join(tmp, "status.json")
    code = r'''
import os, sys, builtins, json
k = int(sys.argv[2]); final = sys.argv[1]; mode = sys.argv[3]
count = [0]
def hit(name):
    count[0] += 1
    if count[0] == k:
        if mode == "kill":
            os._exit(9)
        raise OSError(28, "injected ENOSPC in " + name)
real_open, real_rename, real_replace = builtins.open, os.rename, os.replace
class F:
    def __init__(self, f): self.f = f
    def write(self, d):
        hit("write"); self.f.write(d[:len(d)//2]); self.f.flush(); hit("write2"); self.f.write(d[len(d)//2:])
    def __enter__(self): return self
    def __exit__(self, *a): hit("close"); self.f.close()
    def __getattr__(self, n): return getattr(self.f, n)
def my_open(p, mode="r", *a, **kw):
    if "w" in mode and str(p).startswith(os.path.dirname(final)):
        hit("open"); return F(real_open(p, mode, *a, **kw))
    return real_open(p, mode, *a, **kw)
builtins.open = my_open
def my_rename(a, b): hit("rename"); real_rename(a, b); hit("after_rename")
os.rename = my_rename; os.replace = my_rename
from mwlib.utils.status import Status
s = Status(final)
s.status = {"progress": 50, "status": "new" * 200} if len(sys.argv) < 5 else {"progress": 1.0, "status": "short"}
try:
    s.dump()
except OSError:
    pass
print(count[0])
'''
    results = []
    for mode in ("kill", "error"):
        for k in range(1, 9):
            with open(final, "w") as f:
                json.dump({"progress": 1, "status": "old"}, f)
            p = subprocess.run([sys.executable, "-c", code, final, str(k), mode], capture_output=True, text=True,
                               env=dict(os.environ))
            try:
                with open(final) as f:
                    d = json.load(f)
                ok = d.get("status") in ("old", "new" * 200)
                state = "old" if d.get("status") == "old" else "new"
            except FileNotFoundError:
                ok, state = True, "missing"
            except ValueError as e:
                ok, state = False, f"unparsable: {e}"
            results.append({"producer": "Status.dump", "mode": mode, "position": k, "final": state, "ok": ok})
            # fault sequence: whatever the failed producer left behind (a stale, longer '<file>.tmp'), the next, undisturbed
            # dump of a shorter status publishes exactly that status
            subprocess.run([sys.executable, "-c", code, final, "99", mode, "short"], capture_output=True, text=True, env=dict(os.environ))
            try:
                with open(final) as f:
                    d = json.load(f)
                ok, state = d.get("status") == "short", str(d.get("status"))[:20]
            except FileNotFoundError:
                ok, state = False, "missing"
            except ValueError as e:
                ok, state = False, f"unparsable: {e}"
            results.append({"producer": "Status.dump", "mode": mode + ", then an undisturbed shorter dump", "position": k, "final": state, "ok": ok})
    return results


_DOWNLOAD_CHILD = r'''
import contextlib, logging, os, resource, signal, sys
import httpx
from mwlib.network import transport
logging.disable(logging.CRITICAL)
path, limit, nchunks, tail = sys.argv[1], int(sys.argv[2]), int(sys.argv[3]), int(sys.argv[4])
CHUNK = 16384
BODY = (bytes(range(256)) * 64) * nchunks + b"t" * tail
class R:
    status_code = 200
    headers = {"content-length": str(len(BODY))}
    def raise_for_status(self): return None
    def iter_bytes(self, chunk_size=CHUNK):
        for pos in range(0, len(BODY), chunk_size):
            yield BODY[pos:pos + chunk_size]
class C:
    @contextlib.contextmanager
    def stream(self, method, url, **kw):
        yield R()
if limit >= 0:
    signal.signal(signal.SIGXFSZ, signal.SIG_IGN)
    _, hard = resource.getrlimit(resource.RLIMIT_FSIZE)
    resource.setrlimit(resource.RLIMIT_FSIZE, (limit, hard))
code = 4
try:
    transport.download_with_retries(client=C(), url="https://upload.example.org/img.png", path=path, temp_path=(path + "\\xb7").encode("utf-8"),
                                    retry_policy=transport.build_download_retry_policy(0, 1, 2), http_status_error_cls=httpx.HTTPStatusError,
                                    sleep_fn=lambda s: None, logger=logging.getLogger("x"))
    code = 0
except OSError:
    code = 3
sys.stdout.write(str(len(BODY)))
sys.stdout.flush()
os._exit(code)
'''


def download_size_limit_search():
    """the real download_with_retries against a stand-in HTTP client, under a file size limit (write(2) fails with EFBIG as
    it fails with ENOSPC on a full disk) placed at every interesting position: inside a chunk write, at a chunk boundary,
    inside the short last chunk - which sits in the file object's buffer until the close"""
    import os, shutil, subprocess, sys, tempfile
    base = tempfile.mkdtemp(prefix="verif_c20_")
    n = 0
    try:
        for nchunks, tail in ((1, 5002), (0, 700), (2, 0), (1, 1)):
            size = 16384 * nchunks + tail
            for limit in sorted({-1, 0, 1, 5000, 16383, 16384, 16385, 20000, size - 1, size}):
                if limit > size:
                    continue
                n += 1
                path = os.path.join(base, f"img{n}.png")
                p = subprocess.run([sys.executable, "-c", _DOWNLOAD_CHILD, path, str(limit), str(nchunks), str(tail)], capture_output=True, text=True, env=dict(os.environ), timeout=120)
                if p.returncode not in (0, 3):
                    return n, {"detail": f"download child failed: exit {p.returncode}: {p.stderr[-300:]}", "witness": {"limit": limit, "body": size}, "class": "download-child"}
                if os.path.exists(path):
                    got = os.path.getsize(path)
                    if got != size:
                        return n, {"detail": f"body of {size} bytes ({nchunks} full chunks + {tail}), file size limit {limit}: download_with_retries "
                                             f"{'returned normally' if p.returncode == 0 else 'raised OSError'} and the image path holds {got} bytes",
                                   "witness": {"body_bytes": size, "file_size_limit": limit, "published_bytes": got}, "class": "truncated-download-published"}
                elif p.returncode == 0:
                    return n, {"detail": f"download returned normally but the image path is absent (limit {limit}, body {size})", "witness": {"limit": limit, "body": size}, "class": "download-lost"}
    finally:
        shutil.rmtree(base, ignore_errors=True)
    return n, None


def bounded(chk):
    n9, f9 = download_size_limit_search()
    chk.bounded_result("download_under_a_file_size_limit", n9, n9, True,
                       "real transport.download_with_retries, stand-in HTTP client, 4 body shapes x up to 10 RLIMIT_FSIZE positions (inside a chunk, at a chunk boundary, inside the buffered last chunk = error at close): the image path is absent or complete",
                       [f9] if f9 else [])
    n0, f0 = downloads_share_no_file()
    chk.bounded_result("concurrent_downloads_share_no_file", n0, n0, True,
                       "real Fetcher.schedule_download_image on (url, title) pairs that map to one file name (same title with different urls, titles collapsed by fs_escape): one download per destination",
                       [f0] if f0 else [])
    _bounded_rest(chk)


def _bounded_rest(chk):
    import tempfile, shutil
    tmp = tempfile.mkdtemp(prefix="c20_")
    try:
        res = crash_points_status(tmp)
    finally:
        shutil.rmtree(tmp, ignore_errors=True)
    bad = [r for r in res if not r["ok"]]
    chk.bounded_result("kill_or_ENOSPC_at_every_fs_call_position[Status.dump]", len(res), len({(r['mode'], r['final']) for r in res}) + 1, True,
                       "real Status.dump in a subprocess, os._exit / OSError(ENOSPC) injected at FS-call positions 1..8 (open, two half writes, close, rename), each followed by an undisturbed dump of a shorter status; reader = json.load",
                       [{"detail": str(b), "witness": b, "class": "partial-file"} for b in bad[:1]], res[:3])


def replay_crash(model, obligation):
    import tempfile, shutil
    tmp = tempfile.mkdtemp(prefix="c20_")
    try:
        res = crash_points_status(tmp)
    finally:
        shutil.rmtree(tmp, ignore_errors=True)
    bad = [r for r in res if not r["ok"]]
    if bad and "status" in obligation:
        return True, bad[0], "partial-file"
    return False, {"positions_tried": len(res)}, None


def run(chk):
    p_status_dump(chk)
    p_create_zip(chk)
    p_make_zip(chk)
    p_write_zip(chk)
    p_download(chk)
    p_render_block(chk)
    bare_zip_writer_call_sites(chk)
    bounded(chk)
    chk.assumptions += [
        "tempfile.mkstemp returns a fresh name different from the published path",
        "POSIX rename/replace is atomic within one file system; a process kill loses user-space buffers only (no power loss: fsync is not required by the statement)",
        "writers (zip_dir, the render writer) write only to the path they are given (callee contract); ZipCreator._write_zip: its body is verified for 'an I/O error while adding a member propagates' on small directory shapes, 'writes only to its path' stays assumed",
        "make_nuwiki writes only below the fresh temp directory it is given",
        "the render() function body is covered by static protocol obligations, not by symbolic execution",
        "download: the caller passes temp_path = path + a non-empty suffix without '/' (fetch.py: path + one character); httpx client/response contracts as modelled",
    ]


# ----------------------------------------------------------------------------- download: stream to temp path, then rename
def p_download(chk):
    ex = base_explorer()
    dl = ex.function(TRANSPORT, "download_with_retries")
    st = ex.function(TRANSPORT, "stream_download_to_temp")
    ex.inline |= {st.ident, TRANSPORT + ":should_retry_download", TRANSPORT + ":retry_download"}
    HTTP_ERR = ExcClass("HTTPStatusError", ["HTTPStatusError", "Exception", "BaseException", "object"])
    ex.models["httpx.RequestError"] = ExcClass("RequestError", ["RequestError", "Exception", "BaseException", "object"])

    class Chunks(PObj):
        def __init__(self):
            super().__init__("chunks", {})

            def mk(I):
                state = {"V": None}
                state.update(havoc=lambda I2: None, has_next=lambda I2: I2.fresh("more_chunks", z3.BoolSort()),
                             take=lambda I2: SStr(I2.fresh("chunk", z3.StringSort())), at_exit=lambda I2: None)
                return state
            self.iter_state = mk

    def client_stream(I, client, method, url):
        resp = PObj("response", {})

        def enter(I2):
            if I2.decide(I2.fresh("connect_fails", z3.BoolSort())):
                raise_exc(I2, ex.models["httpx.RequestError"])
            return resp
        return CtxMgr(enter, lambda I2, exc: False)

    def raise_exc(I, cls, **fields):
        from pyvc.interp import SymRaise
        e = ExcVal(cls, [])
        e.fields = fields
        raise SymRaise(e)

    def raise_for_status(I, resp):
        if I.decide(I.fresh("http_error", z3.BoolSort())):
            raise_exc(I, HTTP_ERR, response=PObj("response", {"status_code": I.fresh_int("status")}))
    ex.methods[("client", "stream")] = Model("httpx client.stream (context manager)", client_stream)
    ex.methods[("response", "raise_for_status")] = Model("response.raise_for_status", raise_for_status)
    ex.methods[("response", "iter_bytes")] = Model("response.iter_bytes", lambda I, r, **k: Chunks())
    # loops: the chunk loop and the retry loop
    ex.loopspecs[(TRANSPORT + ":stream_download_to_temp", 0)] = LoopSpec(
        lambda I, v, it: [("size_read_is_an_int", True)], None, lambda I, v, it: None)

    def retry_inv(I, v, it):
        rs = v["retry_state"]
        tr = fsmodel.trace(I)
        I.ghost.setdefault("trace_len_at_loop_entry", len(tr))      # what happened before the loop stays on the trace
        open_now = [e for e in tr if e[0] == "open_w"]
        closed = [e for e in tr if e[0] == "close"]
        return [("retry_state_is_a_record", isinstance(rs, PObj) and "retry_count" in rs.fields),
                ("retry_count_non_negative", I._int_term(rs.fields["retry_count"]) >= 0),
                ("no_file_open_between_attempts", len(open_now) == len(closed)),
                ("not_yet_published", not any(e[0] == "rename" for e in tr))]

    def retry_havoc(I, v, it):
        rs = v.get("retry_state") or I.ghost["loop_old_vars"]["retry_state"]
        v["retry_state"] = PObj(rs.cls, {"retry_count": I.fresh_int("retry_count"), "delay": I.fresh_int("delay")})
        # earlier attempts: the temp file may have been written (and closed); nothing else happened
        tr = fsmodel.trace(I)
        before = tr[:I.ghost.get("trace_len_at_loop_entry", 0)]
        del tr[:]
        tr.extend(before)
        tr.append(("contract_write", v["temp_path"], "earlier attempts"))
    ex.loopspecs[(TRANSPORT + ":download_with_retries", 0)] = LoopSpec(
        retry_inv, lambda I, v, it: z3.If(I._int_term(v["retry_policy"].fields["max_retries"]) - I._int_term(v["retry_state"].fields["retry_count"]) >= 0,
                                          I._int_term(v["retry_policy"].fields["max_retries"]) - I._int_term(v["retry_state"].fields["retry_count"]) + 1, z3.IntVal(0)),
        retry_havoc, extra_havoc=("retry_state",))

    def harness(I):
        I.ghost["fs_faults"] = True
        path = I.sym_str("path")
        I.assume(z3.Length(path.z) > 0)
        suffix = I.sym_str("temp_suffix")
        # the caller's choice of temp_path (fetch.py: path + a one-character suffix)
        I.assume(z3.Length(suffix.z) > 0)
        I.assume(z3.Not(z3.Contains(suffix.z, z3.StringVal("/"))))
        temp_path = SStr(z3.Concat(path.z, suffix.z))
        policy = PObj("policy", {"max_retries": I.sym_int("max_retries"), "initial_delay": I.sym_int("initial_delay"),
                                 "backoff_factor": I.sym_int("backoff")})
        I.assume(policy.fields["max_retries"].z >= 0)
        out = ex.run_function(I, dl, [], {"client": PObj("client", {}), "url": I.sym_str("url"), "path": path, "temp_path": temp_path,
                                          "retry_policy": policy, "http_status_error_cls": HTTP_ERR,
                                          "sleep_fn": Model("sleep", lambda I2, d: None), "logger": PObj("logger", {})})
        if out.kind == "raise":
            I.oblige("raises_only_download_errors", out.raised("HTTPStatusError") or out.raised("RequestError") or out.raised("OSError"),
                     meta={"exc": out.exc.cls.name})
        check_protocol(I, path, publishes=True, normal_exit=out.returned)

    ex.methods[("logger", "debug")] = Model("logger.debug", lambda I, l, *a: None)
    ex.methods[("logger", "error")] = Model("logger.error", lambda I, l, *a: None)
    ex.methods[("logger", "warning")] = Model("logger.warning", lambda I, l, *a: None)
    chk.prove("transport.download_with_retries", harness, ex, targets=[dl, st], replay=replay_crash)


# ----------------------------------------------------------------------------- ZipCreator._write_zip: an I/O error while adding a member is not survived
def p_write_zip(chk):
    """The zip producers rename the temp zip over the published name when _write_zip returns.  Its contract (the one
    create_zip / make_zip assume) therefore includes: it returns normally only if every member it set out to add was
    added without an I/O error - an error in zf.write (ENOSPC, EIO, a vanished source) propagates as OSError.
    Directory shapes: 1-2 directories with 0-2 files each (the loops are over concrete lists; file names symbolic)."""
    ex = base_explorer()
    fn = ex.function(BUILDZIP, "ZipCreator._write_zip")

    def zf_write(I, zf, filepath, arcname=None, *a, **k):
        I.ghost["members"].append(filepath)
        if I.decide(I.fresh("io_error_adding_member", z3.BoolSort())):
            I.ghost["failed"].append(filepath)
            I.throw("OSError", "injected I/O error in ZipFile.write")
    ex.methods[("zipf", "write")] = Model("ZipFile.write", zf_write)
    ex.models["zipfile.ZipFile"] = Model("zipfile.ZipFile", lambda I, path, mode="r", **kw: CtxMgr(lambda I2: PObj("zipf", {"path": path}), lambda I2, exc: False))
    ex.models["zipfile.ZIP_DEFLATED"] = 8
    ex.models["os.path.relpath"] = Model("os.path.relpath", lambda I, p, start=None: I.fresh_str("relpath"))
    ex.models["os.path.splitext"] = Model("os.path.splitext", lambda I, p: (I.fresh_str("root"), I.fresh_str("ext")))

    def harness(I):
        I.ghost["members"], I.ghost["failed"] = [], []
        shape = [(0,), (1,), (2,), (1, 1), (2, 0), (0, 2), (2, 2)][I.choose(7, "directory_shape")]
        n = [0]

        def fname():
            n[0] += 1
            return I.fresh_str(f"file{n[0]}")
        walk = [(I.fresh_str(f"dir{k}"), [], [fname() for _ in range(c)]) for k, c in enumerate(shape)]
        ex.models["os.walk"] = Model("os.walk", lambda I2, top: walk)
        skip = None if I.decide(I.fresh("no_skip_ext", z3.BoolSort())) else I.fresh_str("skip_ext")
        out = ex.run_function(I, fn, [I.fresh_str("source_dir"), I.fresh_str("zip_path")], {"skip_ext": skip})
        failed = I.ghost["failed"]
        I.oblige("a_failed_member_write_is_not_survived" + ("" if not (failed and out.returned) else "[returned normally after an I/O error]"),
                 (not failed) or out.raised("OSError") is True or (not out.returned and out.exc.cls.name == "OSError"))
        if out.returned:
            total = sum(shape)
            I.oblige("every_file_is_added_unless_skipped_by_extension", len(I.ghost["members"]) == total if skip is None else len(I.ghost["members"]) <= total)
        else:
            I.oblige("raises_only_after_an_io_error", len(failed) > 0)
    chk.prove("buildzip.ZipCreator._write_zip", harness, ex, targets=[fn], replay=replay_write_zip)


def replay_write_zip(model, obligation):
    """real _write_zip on a real directory with ZipFile.write failing once: does the error come out?"""
    import os, shutil, tempfile, zipfile
    from mwlib.apps import buildzip
    d = tempfile.mkdtemp(prefix="verif_c20_")
    real = zipfile.ZipFile.write
    try:
        src = os.path.join(d, "src")
        os.makedirs(src)
        for nme in ("a.txt", "b.txt", "c.txt"):
            open(os.path.join(src, nme), "w").write(nme * 100)
        calls = []

        def failing(self, filename, *a, **k):
            calls.append(filename)
            if len(calls) == 2:
                raise OSError(28, "No space left on device")
            return real(self, filename, *a, **k)
        zipfile.ZipFile.write = failing
        try:
            buildzip.ZipCreator._write_zip(src, os.path.join(d, "out.zip"))
        except OSError:
            return False, {"cases": 1}, None
        finally:
            zipfile.ZipFile.write = real
        names = zipfile.ZipFile(os.path.join(d, "out.zip")).namelist()
        return True, {"schedule": "ENOSPC while adding the second of three files", "result": f"_write_zip returned normally; archive holds {names}",
                      "consequence": "create_zip / make_zip rename the incomplete zip over the published name"}, "io_error_survived"
    finally:
        zipfile.ZipFile.write = real
        shutil.rmtree(d, ignore_errors=True)


# ----------------------------------------------------------------------------- concurrent downloads never share a destination / temp file
def downloads_share_no_file():
    """download_with_retries' precondition: no other download writes the same temp file at the same time.  The fetcher
    derives destination and temp name from the TITLE (fs_escape), but de-duplicates scheduled downloads on (url, title):
    real Fetcher.schedule_download_image on pairs that map to one file name must start one download only."""
    import tempfile, shutil
    from mwlib.network import fetch

    class Pool:
        def __init__(self):
            self.spawned = []

        def spawn(self, fn, *a):
            self.spawned.append(a)
            return object()

        def add(self, g):
            pass
    cases = [("same title, urls differing in the query string", [("http://m/x.png?lang=en", "File:Map.png"), ("http://m/x.png?lang=de", "File:Map.png")]),
             ("titles that fs_escape maps to one name", [("http://m/1.png", "File:Ab.png"), ("http://m/2.png", "File:A(b).png")]),
             ("the same pair twice", [("http://m/1.png", "File:Q.png"), ("http://m/1.png", "File:Q.png")]),
             ("different files (control)", [("http://m/1.png", "File:R.png"), ("http://m/2.png", "File:S.png")])]
    n = 0
    for name, pairs in cases:
        d = tempfile.mkdtemp(prefix="verif_c20_")
        try:
            f = fetch.Fetcher.__new__(fetch.Fetcher)
            f.fsout = fetch.FsOutput(d + "/nuwiki")
            f.scheduled = set()
            f.image_download_pool = Pool()
            f.pool = Pool()
            f._refcall = lambda fn, *a: fn(*a)
            for url, title in pairs:
                n += 1
                f.schedule_download_image(url, title)
            dests = [a[1] for a in f.image_download_pool.spawned]
            temps = [a[2] for a in f.image_download_pool.spawned]
            if len(set(dests)) != len(dests) or len(set(temps)) != len(temps):
                return n, {"detail": f"{name}: {len(dests)} concurrent downloads write {len(set(dests))} destination(s) {sorted(set(dests))}",
                           "witness": {"scheduled": pairs, "destinations": dests}, "class": "shared-download-file"}
            if name.endswith("(control)") and len(dests) != 2:
                return n, {"detail": "control: two different files, but not two downloads", "witness": {"scheduled": pairs}, "class": "download-dropped"}
        finally:
            shutil.rmtree(d, ignore_errors=True)
    return n, None


def bare_zip_writer_call_sites(chk):
    """zip_dir() and ZipCreator._write_zip() open their target with ZipFile(path, 'w'): truncating, not atomic.  Every
    call site in src/mwlib hands them a name that is bound from tempfile.mkstemp only (the published path goes through
    ZipCreator.create_zip, which is under contract) - or no target at all (zip_dir's default: next to the source dir)."""
    import os
    sites, bad = 0, []
    for dp, _dn, fns_ in os.walk(os.path.join(source.SRC, "mwlib")):
        for f in fns_:
            if not f.endswith(".py"):
                continue
            path = os.path.join(dp, f)
            try:
                tree = ast.parse(open(path, encoding="utf-8").read())
            except (OSError, SyntaxError):
                continue
            for fn in ast.walk(tree):
                if not isinstance(fn, ast.FunctionDef):
                    continue
                for c in ast.walk(fn):
                    if not (isinstance(c, ast.Call) and ast.unparse(c.func).split(".")[-1] in ("zip_dir", "_write_zip")):
                        continue
                    if fn.name == "zip_dir" and ast.unparse(c.func).endswith("_write_zip"):
                        continue      # zip_dir's own body: its target is its parameter, checked at zip_dir's call sites
                    sites += 1
                    target = c.args[1] if len(c.args) > 1 else next((k.value for k in c.keywords if k.arg in ("output", "zip_path")), None)
                    if target is None:
                        continue
                    ok = False
                    if isinstance(target, ast.Name):
                        binds = [ast.unparse(a.value) for a in ast.walk(fn) if isinstance(a, ast.Assign)
                                 for t in a.targets for e in (t.elts if isinstance(t, (ast.Tuple, ast.List)) else [t]) if isinstance(e, ast.Name) and e.id == target.id]
                        ok = bool(binds) and all("mkstemp(" in b for b in binds)
                    if not ok:
                        bad.append(f"{os.path.relpath(path, source.SRC)}:{c.lineno} {fn.name}: {ast.unparse(c)[:100]}")
    chk.static("buildzip.bare_zip_writers_get_temp_names_only", sites >= 2 and not bad, f"{sites} call sites of zip_dir / _write_zip; target not bound from mkstemp: {bad}",
               {"call_sites": bad}, "bare-zip-writer", None if not bad else False)
