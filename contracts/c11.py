"""C11 - fetching a collection yields a complete and faithful archive (DESIGN 3/C11).

Proof obligations on the batching / de-duplication / contributor-storage mechanisms.
Closure and termination of the greenlet fan-out for all schedules are NOT covered.
"""
import ast

import z3

from pyvc import source
from pyvc.interp import Explorer, LoopSpec, Undecided
from pyvc.values import PObj, SInt, SBool, Model, Sym, z3_of, kind_of

FETCH = "mwlib/network/fetch.py"
WORKFLOW = "mwlib/network/workflow.py"
ISeq = z3.SeqSort(z3.IntSort())


class QList(PObj):
    """a python list of opaque items (Int ids) as an SMT sequence"""

    def __init__(self, seq):
        super().__init__("qlist", {})
        self.seq = seq


def install_qlist(ex):
    ex.len_hooks["qlist"] = lambda I, l: SInt(z3.Length(l.seq))

    def bounds(I, l, sl):
        _, lo, hi, step = sl
        if step is not None:
            raise Undecided("slice step")
        n = z3.Length(l.seq)

        def clamp(v, default):
            if v is None:
                return default
            t = I._int_term(v)
            t = z3.If(t < 0, t + n, t)
            return z3.If(t < 0, z3.IntVal(0), z3.If(t > n, n, t))
        a, b = clamp(lo, z3.IntVal(0)), clamp(hi, n)
        return a, z3.If(b > a, b - a, z3.IntVal(0))

    def getitem(I, l, idx):
        if isinstance(idx, tuple) and idx and idx[0] == "__slice__":
            a, ln = bounds(I, l, idx)
            r = QList(z3.SubSeq(l.seq, a, ln))
            r.origin = (l, a, ln)
            return r
        raise Undecided("qlist index")
    ex.getitem_hooks["qlist"] = getitem

    def delitem(I, l, idx):
        if isinstance(idx, tuple) and idx and idx[0] == "__slice__":
            a, ln = bounds(I, l, idx)
            n = z3.Length(l.seq)
            l.seq = z3.Concat(z3.SubSeq(l.seq, 0, a), z3.SubSeq(l.seq, a + ln, n - a - ln))
            return
        raise Undecided("qlist del")
    ex.delitem_hooks["qlist"] = delitem


def p_split_blocks(chk):
    ex = Explorer()
    install_qlist(ex)
    fn = ex.function(FETCH, "split_blocks")

    class Blocks(PObj):
        def __init__(self, joined):
            super().__init__("blocks", {})
            self.joined = joined

    def blocks_append(I, res, blk):
        lim = I.ghost["limit"]
        I.oblige("block_is_non_empty", z3.Length(blk.seq) >= 1)
        I.oblige("block_has_at_most_limit_entries", z3.Length(blk.seq) <= lim)
        res.joined = z3.Concat(res.joined, blk.seq)
    ex.methods[("blocks", "append")] = Model("list.append (concatenation view of a list of blocks)", blocks_append)

    def joined_of(v):
        r = v["res"]
        return r.joined if isinstance(r, Blocks) else z3.Empty(ISeq)

    def inv(I, v, it):
        lst = v["lst"].seq
        n = z3.Length(lst)
        start = I._int_term(v["start"])
        lim = I.ghost["limit"]
        return [("start_non_negative", start >= 0),
                ("start_overshoots_by_less_than_limit", z3.Implies(start > n, start - n < lim)),
                ("blocks_so_far_concatenate_to_the_prefix", joined_of(v) == z3.SubSeq(lst, 0, z3.If(start < n, start, n)))]

    def havoc(I, v, it):
        v["res"] = Blocks(I.fresh("joined", ISeq))
    ex.loopspecs[(FETCH + ":split_blocks", 0)] = LoopSpec(
        inv, lambda I, v, it: z3.If(z3.Length(v["lst"].seq) - I._int_term(v["start"]) > 0,
                                    z3.Length(v["lst"].seq) - I._int_term(v["start"]), z3.IntVal(0)) + 0,
        havoc, extra_havoc=("res",))

    def harness(I):
        lst = QList(z3.Const("lst", ISeq))
        I.inputs["lst"] = lst.seq
        limit = I.sym_int("limit")
        I.assume(limit.z >= 1)          # configuration precondition api_request_limit >= 1
        I.ghost["limit"] = limit.z
        orig_list_lit = ex.models.get("builtins.list")
        out = ex.run_function(I, fn, [lst, limit])
        I.oblige("no_raise", out.returned)
        res = out.value
        I.oblige("nothing_lost_nothing_duplicated", (res.joined if isinstance(res, Blocks) else z3.Empty(ISeq)) == lst.seq)

    chk.prove("fetch.split_blocks", harness, ex, targets=[fn], replay=replay_batching)


def p_get_block(chk):
    ex = Explorer()
    install_qlist(ex)
    fn = ex.function(FETCH, "get_block")

    def harness(I):
        s0 = z3.Const("lst", ISeq)
        lst = QList(s0)
        I.inputs["lst"] = s0
        limit = I.sym_int("limit")
        I.assume(limit.z >= 1)
        out = ex.run_function(I, fn, [lst, limit])
        I.oblige("no_raise", out.returned)
        blk = out.value
        n = z3.Length(s0)
        I.oblige("block_size_is_min_of_limit_and_length", z3.Length(blk.seq) == z3.If(limit.z < n, limit.z, n))
        I.oblige("remaining_plus_block_is_the_old_list", z3.Concat(lst.seq, blk.seq) == s0)

    chk.prove("fetch.get_block", harness, ex, targets=[fn], replay=replay_batching)


def p_enqueue_missing(chk):
    """workflow.enqueue_missing: scheduled' = scheduled U items; every item not scheduled
    before is appended to the todo list exactly once"""
    ex = Explorer()
    fn = ex.function(WORKFLOW, "enqueue_missing")
    Zs, Bs = z3.IntSort(), z3.BoolSort()
    ASet = z3.ArraySort(Zs, Bs)
    ACnt = z3.ArraySort(Zs, Zs)

    class Items(PObj):
        pass

    def harness(I):
        n = I.sym_int("n_items").z
        I.assume(n >= 0)
        elem = I.fresh("items", z3.ArraySort(Zs, Zs))
        sched0 = I.fresh("scheduled", ASet)
        todo0 = I.fresh("todo_count", ACnt)
        from pyvc.values import SList
        items = SList(n, elem, lambda I2, t: SInt(t), lambda I2, v: I2._int_term(v), name="items")
        scheduled = PObj("idset", {"arr": sched0})
        todo = PObj("todolist", {"cnt": todo0, "appended": z3.IntVal(0)})
        I.ghost["objs"] = (scheduled, todo, sched0, todo0, elem)
        out = ex.run_function(I, fn, [items, todo, scheduled])
        I.oblige("no_raise", out.returned)
        x = I.fresh("x", Zs)
        k = I.fresh("k", Zs)
        in_items = z3.Exists([k], z3.And(k >= 0, k < n, z3.Select(elem, k) == x))
        I.oblige("scheduled_is_old_union_items.superset", z3.Implies(z3.Or(z3.Select(sched0, x), in_items), z3.Select(scheduled.fields["arr"], x)))
        I.oblige("each_new_item_enqueued_exactly_once",
                 z3.Select(todo.fields["cnt"], x) == z3.Select(todo0, x) + z3.If(z3.And(in_items, z3.Not(z3.Select(sched0, x))), 1, 0))

    ex.contains_hooks["idset"] = lambda I, s, v: z3.Select(s.fields["arr"], I._int_term(v))

    def set_add(I, s, v):
        s.fields["arr"] = z3.Store(s.fields["arr"], I._int_term(v), True)
    ex.methods[("idset", "add")] = Model("set.add", set_add)

    def todo_append(I, t, v):
        vt = I._int_term(v)
        t.fields["cnt"] = z3.Store(t.fields["cnt"], vt, z3.Select(t.fields["cnt"], vt) + 1)
    ex.methods[("todolist", "append")] = Model("list.append (multiset view)", todo_append)

    def inv(I, v, it):
        scheduled, todo, sched0, todo0, elem = I.ghost["objs"]
        i = it["i"]
        x, k = z3.Ints("x!i k!i")
        seen = z3.Exists([k], z3.And(k >= 0, k < i, z3.Select(elem, k) == x))
        return [("scheduled_is_old_plus_visited",
                 z3.ForAll([x], z3.Select(scheduled.fields["arr"], x) == z3.Or(z3.Select(sched0, x), seen))),
                ("todo_counts",
                 z3.ForAll([x], z3.Select(todo.fields["cnt"], x) == z3.Select(todo0, x) +
                           z3.If(z3.And(seen, z3.Not(z3.Select(sched0, x))), 1, 0)))]

    def havoc(I, v, it):
        scheduled, todo, sched0, todo0, elem = I.ghost["objs"]
        scheduled.fields["arr"] = I.fresh("sched_loop", ASet)
        todo.fields["cnt"] = I.fresh("todo_loop", ACnt)
    ex.loopspecs[(WORKFLOW + ":enqueue_missing", 0)] = LoopSpec(inv, None, havoc)
    chk.prove("workflow.enqueue_missing", harness, ex, targets=[fn])


def p_contributors(chk):
    """_lookup_contributors stores, for every title it requested, the authors the API
    returned for it (static data-flow obligation + run-time contract with a stub API)"""
    mod = source.module(FETCH)
    fn = mod.find("Fetcher._lookup_contributors")
    src = ast.unparse(fn)
    req = [ast.unparse(c.args[0]) for c in ast.walk(fn) if isinstance(c, ast.Call) and ast.unparse(c.func) == "api.get_contributors"]
    loops = [ast.unparse(n.iter) for n in ast.walk(fn) if isinstance(n, ast.For)]
    ok = len(req) == 1 and loops and loops[0] == req[0] and "self.fsout.set_db_key('authors', db_title, authors)" in src
    chk.static("fetch.Fetcher._lookup_contributors.iterates_the_titles_it_requested", ok,
               f"requested: {req}; iterated: {loops}")
    w, cls, rep = run_contributors()
    chk.static("fetch.Fetcher._lookup_contributors.stores_reported_authors", w is None,
               "run-time contract with a stub API and a recording fsout" if w is None else str(w), w, cls, rep)


def run_contributors():
    from mwlib.network import fetch

    class IA:
        def __init__(self, a):
            self.a = a

        def get_authors(self):
            return self.a

    class Api:
        def get_contributors(self, titles):
            return {t: IA(["U1", "ANONIPEDITS:2"]) for t in titles if t != "Missing"}

    class Out:
        def __init__(self):
            self.stored = {}

        def set_db_key(self, name, key, value):
            self.stored[(name, key)] = value
    f = fetch.Fetcher.__new__(fetch.Fetcher)
    f.fsout = Out()
    f.title_mapping = {"File:X.png": "Image:X.png"}
    api = Api()
    try:
        for t in ("Page A", "File:X.png", "Missing"):
            f._lookup_contributors(api, t)
    except Exception as e:  # noqa: BLE001
        return {"raised": f"{type(e).__name__}: {e}"}, "raise", True
    want = {("authors", "Page A"): ["U1", "ANONIPEDITS:2"], ("authors", "Image:X.png"): ["U1", "ANONIPEDITS:2"]}
    if f.fsout.stored != want:
        return {"stored": {str(k): v for k, v in f.fsout.stored.items()}, "expected": {str(k): v for k, v in want.items()}}, "not-stored", True
    return None, None, None


def replay_batching(model, obligation):
    from mwlib.network import fetch
    for n in range(0, 12):
        for limit in range(1, 7):
            lst = list(range(n))
            try:
                blocks = fetch.split_blocks(list(lst), limit)
                flat = [x for b in blocks for x in b]
                if flat != lst or any(not (1 <= len(b) <= limit) for b in blocks):
                    return True, {"function": "split_blocks", "lst": lst, "limit": limit, "blocks": blocks}, "split_blocks"
                l2 = list(lst)
                b = fetch.get_block(l2, limit)
                if l2 + b != lst or len(b) != min(limit, n):
                    return True, {"function": "get_block", "lst": lst, "limit": limit, "block": b, "rest": l2}, "get_block"
            except Exception as e:  # noqa: BLE001
                return True, {"lst": lst, "limit": limit, "raised": type(e).__name__}, "raise"
    return False, {"searched": "n<12, limit<7"}, None


def run(chk):
    p_split_blocks(chk)
    p_get_block(chk)
    p_enqueue_missing(chk)
    p_contributors(chk)
    p_get_contributors(chk)
    p_handle_new_basepath(chk)
    p_do_request(chk)
    p_write_expanded_page(chk)
    bounded(chk)
    chk.assumptions += [
        "api.api_request_limit >= 1 (configuration precondition; the property quantifies over 1..50)",
        "list items are abstracted to integer ids; set/list operations on them follow the library contracts",
        "NOT covered: convergence of the greenlet fan-out under all schedules, sapi continuation merging, the HTTP layer; image description pages: only handle_new_basepath's registration hand-over across its one switch (get_siteinfo_for; _refcall assumed not to switch), for 1..3 registered tuples and one interfering registration",
    ]


# ----------------------------------------------------------------------------- contributors as the wiki reports them
SAPI = "mwlib/network/sapi.py"
AUTHORS = "mwlib/core/authors.py"


def p_get_contributors(chk):
    """sapi.MwApi.get_contributors + its merge_data closure + authors.InspectAuthors.get_authors:
    for a page the result lists exactly the non-bot contributor names the API reported and
    counts the anonymous edits, over any split of the answer into continuation chunks
    (modelled: two merge_data calls)."""
    ex = Explorer()
    fn = ex.function(SAPI, "MwApi.get_contributors")
    ga = ex.function(AUTHORS, "InspectAuthors.get_authors")
    ex.inline |= {AUTHORS + ":InspectAuthors.__init__", ga.ident}
    is_bot = z3.Function("name_ends_with_bot", z3.StringSort(), z3.BoolSort())

    class NameSet(PObj):
        def __init__(self):
            super().__init__("nameset", {"names": []})
    ex.methods[("nameset", "add")] = Model("set.add (names)", lambda I, s, v: s.fields["names"].append(v))
    ex.global_overrides[(AUTHORS, "set")] = None
    ex.models["builtins.set"] = Model("set() for author names", lambda I, *a: NameSet() if not a else (_ for _ in ()).throw(Undecided("set(x)")))
    ex.methods[("botrex", "search")] = Model("bot_rex.search", lambda I, r, name: SBool(is_bot(z3_of(name))) if kind_of(name) == "str" and not isinstance(name, str) else bool(__import__("re").search("bot$", name, 2)))
    ex.global_overrides[(AUTHORS, "re")] = None

    def class_attr_hook(I, obj, name):
        if name == "bot_rex":
            return PObj("botrex", {})
        if name == "ANON":
            return "ANONIPEDITS"
        return NotImplemented
    ex.getattr_hooks["InspectAuthors"] = class_attr_hook

    def harness(I):
        title = "Page A"
        chunks = []
        reported = []      # (name value, chunk index)
        anon_total = 0
        nchunks = 2 if I.decide(I.sym_bool("continued").z) else 1
        for c in range(nchunks):
            page = {"title": title, "pageid": 1}
            if I.decide(I.sym_bool(f"chunk{c}_has_anon").z):
                a = I.sym_int(f"anon{c}")
                I.assume(a.z >= 1)
                page["anoncontributors"] = a
                anon_total = anon_total + a.z
            if I.decide(I.sym_bool(f"chunk{c}_has_contributors").z):
                nm = I.sym_str(f"name{c}")
                page["contributors"] = [{"name": nm, "userid": 1}]
                reported.append(nm)
            chunks.append({"pages": {"1": page}})

        def do_request(I2, api, action=None, merge_data=None, **kw):
            for ch in chunks:
                I2.call(merge_data, [None, ch], {})
            return None
        ex.methods[("mwapi", "do_request")] = Model("MwApi.do_request (calls merge_data per continuation chunk)", do_request)
        api = PObj("mwapi", {"rvlimit": 500})
        # bind the real method to the stub receiver
        out = ex.run_function(I, fn, [api, [title]])
        I.oblige("no_raise", out.returned, meta={"exc": out.exc.cls.name if out.exc else None})
        res = out.value
        I.oblige("result_has_the_requested_title", isinstance(res, dict) and title in res)
        ia = res[title]
        I.oblige("anonymous_edits_counted", I.eq_term(ia.fields["num_anon"], SInt(anon_total) if not isinstance(anon_total, int) else anon_total))
        stored = ia.fields["authors"].fields["names"]
        for nm in reported:
            keep = z3.And(z3.Length(nm.z) > 0, z3.Not(is_bot(nm.z)))
            if I.decide(keep):
                I.oblige("reported_non_bot_contributor_is_listed", any(x is nm for x in stored))
            else:
                I.oblige("bots_and_empty_names_are_not_listed", not any(x is nm for x in stored))
        I.oblige("nothing_else_is_listed", all(any(x is nm for nm in reported) for x in stored))

    chk.prove("sapi.MwApi.get_contributors", harness, ex, targets=[fn, ga])


# ----------------------------------------------------------------------------- image description pages: no registration is lost across a switch
def _interfere(todo_dict, path, tup, spawned):
    """what a concurrently running _extract_info_from_image does for a later image-info batch
    (fetch.py, the `if path in self.imagedescription_todo` block)"""
    if path in todo_dict:
        todo_dict[path].append(tup)
    else:
        spawned.append(path)
        todo_dict[path] = [tup]


def p_handle_new_basepath(chk):
    """Fetcher.handle_new_basepath with the greenlet switch inside get_siteinfo_for made explicit: while
    it is suspended another greenlet registers one more (title, descriptionurl) under the same base
    path.  Contract derived from C11 (every image's description page reaches the archive): after the
    call every tuple ever registered under `path` was scheduled by this call, or is still registered
    with a new handler spawned for it."""
    from pyvc.values import ClassRef
    ex = Explorer()
    mod = source.module(FETCH)
    fcls = ClassRef(mod.defs["Fetcher"], mod)
    fn = ex.function(FETCH, "Fetcher.handle_new_basepath")
    ex.inline.add(FETCH + ":split_blocks")
    P = "http://x.org/wiki"

    def get_siteinfo_for(I, self, api):
        G = I.ghost
        G["yields"] += 1
        if I.decide(I.fresh("another_batch_answers_during_the_switch", z3.BoolSort())):
            _interfere(self.fields["imagedescription_todo"], P, ("File:Late.png", P + "/File:Late.png"), G["spawned"])
            G["late"] = True
        return PObj("siteinfo", {})
    ex.methods[("Fetcher", "get_siteinfo_for")] = Model("Fetcher.get_siteinfo_for [yield point]", get_siteinfo_for)
    ex.methods[("Fetcher", "_get_mwapi_for_path")] = Model("Fetcher._get_mwapi_for_path", lambda I, s, p: PObj("api", {"api_request_limit": 2}))
    ex.methods[("Fetcher", "_refcall")] = Model("Fetcher._refcall (spawns, does not switch)", lambda I, s, f, *a: I.ghost["calls"].append((getattr(getattr(f, "func", None), "qualname", None), a)))
    ex.methods[("Fetcher", "fetch_image_page")] = Model("fetch_image_page", lambda I, s, *a: None)
    ex.methods[("Fetcher", "get_image_edits")] = Model("get_image_edits", lambda I, s, *a: None)
    ex.constructors["NsHandler"] = lambda I, c, *a, **k: PObj("NsHandler", {})
    ex.methods[("NsHandler", "get_nsname_by_number")] = Model("NsHandler.get_nsname_by_number", lambda I, s, n: "File")

    def getattr_hook(I, o, name):
        m = ex.methods.get(("Fetcher", name))
        return NotImplemented if m is None else __import__("pyvc.values", fromlist=["BoundMethod"]).BoundMethod(o, m)
    ex.getattr_hooks["Fetcher"] = getattr_hook

    def harness(I):
        G = I.ghost
        G.update({"yields": 0, "spawned": [], "late": False, "calls": []})
        k = I.choose(3, "registered_before_the_call")
        todo = [(f"File:I{j}.png", f"{P}/File:I{j}.png") for j in range(k + 1)]
        sched = set()
        if I.decide(I.fresh("first_title_already_scheduled", z3.BoolSort())):
            sched.add("-d-File:I0.png")
        me = PObj(fcls, {"imagedescription_todo": {P: list(todo)}, "scheduled": sched})
        me.cls_name = "Fetcher"
        out = ex.run_function(I, fn, [me, P])
        I.oblige("no_raise", out.returned)
        registered = list(todo) + ([("File:Late.png", P + "/File:Late.png")] if G["late"] else [])
        still = me.fields["imagedescription_todo"].get(P, [])
        for t in registered:
            handled = ("-d-" + t[0]) in me.fields["scheduled"]
            pending = t in still and (P in G["spawned"])
            I.oblige("every_registered_description_page_is_scheduled_or_still_registered_with_a_handler", bool(handled or pending),
                     meta={"title": t[0]})
        if G["late"]:
            I.cover("a_batch_answered_during_the_switch")
    chk.prove("fetch.Fetcher.handle_new_basepath", harness, ex, targets=[fn], replay=replay_basepath)


def replay_basepath(model, obligation):
    """the real method on a stand-in fetcher whose get_siteinfo_for performs the other greenlet's registration"""
    import types
    from mwlib.network import fetch
    P = "http://x.org/wiki"
    for k in (1, 2, 3):
        spawned, calls = [], []
        fake = types.SimpleNamespace()
        fake.imagedescription_todo = {P: [(f"File:I{j}.png", f"{P}/File:I{j}.png") for j in range(k)]}
        fake.scheduled = set()
        fake._get_mwapi_for_path = lambda p: types.SimpleNamespace(api_request_limit=2)

        def siteinfo(api, fake=fake, spawned=spawned):
            _interfere(fake.imagedescription_todo, P, ("File:Late.png", P + "/File:Late.png"), spawned)
            from mwlib.network import siteinfo as si
            return si.get_siteinfo("en")
        fake.get_siteinfo_for = siteinfo
        fake._refcall = lambda f, *a: calls.append(a)
        fake.fetch_image_page = fake.get_image_edits = lambda *a: None
        fetch.Fetcher.handle_new_basepath(fake, P)
        ok = "-d-File:Late.png" in fake.scheduled or (("File:Late.png", P + "/File:Late.png") in fake.imagedescription_todo.get(P, []) and P in spawned)
        if not ok:
            return True, {"registered_before": k, "interleaving": "a later image-info batch registers File:Late.png while get_siteinfo_for is suspended",
                          "result": "File:Late.png is neither scheduled nor registered any more: its description page and contributors never reach the archive"}, "lost_registration"
    return False, {"cases": 3}, None


# ----------------------------------------------------------------------------- sapi.MwApi.do_request: the request slot is released on every exit
SAPI = "mwlib/network/sapi.py"


def p_do_request(chk):
    """Every API call of a fetch goes through MwApi.do_request, which holds one of the api_request_limit slots of the
    site while the request is under way.  Contract (C11: fetching terminates; a page that does not exist is skipped
    without failing the rest - its request fails with the API's error answer): whatever the request does - return,
    or raise anything - the slot taken is given back exactly once; with no semaphore configured nothing is touched."""
    from pyvc.values import ClassRef
    ex = Explorer()
    mod = source.module(SAPI)
    fn = ex.function(SAPI, "MwApi.do_request")

    def sem_acquire(I, s_, *a, **k):
        I.ghost["held"] += 1
        I.ghost["acquired"] += 1
        return True

    def sem_release(I, s_):
        I.ghost["held"] -= 1
    ex.methods[("sem", "acquire")] = Model("Semaphore.acquire", sem_acquire)
    ex.methods[("sem", "release")] = Model("Semaphore.release", sem_release)

    def may_fail(name):
        def f(I, self, *a, **k):
            I.ghost["calls"].append(name)
            kind = I.choose(3, f"{name}_outcome")
            if kind == 1:
                I.throw("RuntimeError", "api error answer")
            if kind == 2:
                from pyvc.interp import SymRaise
                from pyvc.values import ExcClass, ExcVal
                raise SymRaise(ExcVal(ExcClass("GreenletExit", ["GreenletExit", "BaseException", "object"]), []))
            return PObj("answer", {})
        return Model(f"MwApi.{name} (may raise)", f)
    for nm in ("_ensure_oauth2_token", "_post", "_do_request"):
        ex.methods[("MwApi", nm)] = may_fail(nm)

    def harness(I):
        I.ghost.update({"held": 0, "acquired": 0, "calls": []})
        with_sem = I.decide(I.fresh("semaphore_configured", z3.BoolSort()))
        me = PObj("MwApi", {"limit_fetch_semaphore": PObj("sem", {}) if with_sem else None})
        use_post = I.decide(I.fresh("use_post", z3.BoolSort()))
        out = ex.run_function(I, fn, [me], {"use_post": use_post, "action": "query"})
        I.oblige("slot_given_back_on_every_exit", I.ghost["held"] == 0, meta={"exit": "return" if out.returned else repr(out.exc), "calls": list(I.ghost["calls"])})
        I.oblige("one_slot_per_request", I.ghost["acquired"] == (1 if with_sem else 0))
        if out.returned:
            I.oblige("exactly_one_request_sent", [c for c in I.ghost["calls"] if c != "_ensure_oauth2_token"] == (["_post"] if use_post else ["_do_request"]))
    chk.prove("sapi.MwApi.do_request", harness, ex, targets=[fn], replay=replay_do_request)


def replay_do_request(model, obligation):
    """the real method with a counting semaphore and a request that fails"""
    import types
    from mwlib.network import sapi

    class Sem:
        held = 0

        def acquire(self, *a, **k):
            self.held += 1
            return True

        def release(self):
            self.held -= 1

    class Boom(Exception):
        pass
    for where in ("_ensure_oauth2_token", "_do_request", "_post", None):
        for use_post in (False, True):
            sem = Sem()
            fake = types.SimpleNamespace(limit_fetch_semaphore=sem)
            for nm in ("_ensure_oauth2_token", "_do_request", "_post"):
                def f(*a, _nm=nm, **k):
                    if _nm == where:
                        raise Boom(_nm)
                    return {}
                setattr(fake, nm, f)
            for nm in dir(sapi.MwApi):      # helpers a refactoring may add
                if nm.startswith("_") and not nm.startswith("__") and not hasattr(fake, nm) and callable(getattr(sapi.MwApi, nm)):
                    setattr(fake, nm, types.MethodType(getattr(sapi.MwApi, nm), fake))
            try:
                sapi.MwApi.do_request(fake, use_post=use_post, action="query")
            except Boom:
                pass
            if sem.held != 0:
                return True, {"request": "POST" if use_post else "GET", "fails_in": where, "slots_still_held_afterwards": sem.held,
                              "consequence": "every failed request (e.g. the API's error answer for a page that does not exist) leaks one of the api_request_limit slots; when all are gone every further request blocks forever"}, "slot-leak"
    return False, {"cases": 8}, None


# ----------------------------------------------------------------------------- FsOutput.write_expanded_page: every expanded text handed over is stored
def p_write_expanded_page(chk):
    """The fetcher hands every expanded article text it received to FsOutput.write_expanded_page(title, ns, txt, revid).
    Contract (C11: the archive holds, for every listed article, the text the wiki serves for it - the requested revision,
    else the current one; the same title can be listed with and without a revision id): every call appends exactly one
    record - header naming title, namespace and revision, then the text - whatever was stored before."""
    import json
    ex = Explorer()
    fn = ex.function(FETCH, "FsOutput.write_expanded_page")
    ex.methods[("revfile", "write")] = Model("file.write", lambda I, f, d: I.ghost["written"].append(d))
    # myjson.dumps = json.dumps on plain data (library contract; evaluated on the concrete record)
    ex.contracts["mwlib/utils/myjson.py:dumps"] = lambda I, o, **k: json.dumps(o, **k)

    def harness(I):
        I.ghost["written"] = []
        revid = [None, 7][I.choose(2, "revid")]
        seen = [{}, {"Alpha": {"title": "Alpha", "ns": 0, "revid": 3}}, {"Alpha": {"title": "Alpha", "ns": 0, "expanded": 1}}, {7: {"title": "Alpha"}}][I.choose(4, "stored_before")]
        me = PObj("FsOutput", {"revfile": PObj("revfile", {}), "seen": dict(seen)})
        out = ex.run_function(I, fn, [me, "Alpha", 0, "current text"], {"revid": revid})
        I.oblige("no_raise", out.returned)
        w = [x if isinstance(x, str) else str(x) for x in I.ghost["written"]]
        want = {"title": "Alpha", "ns": 0, "expanded": 1}
        if revid is not None:
            want["revid"] = revid
        I.oblige("one_record_appended", len(w) == 2 and w[1] == "current text" and w[0].startswith("\n\x0c --page-- ") and w[0].endswith("\n")
                 and json.loads(w[0][len("\n\x0c --page-- "):]) == want, meta={"written": w, "stored_before": seen, "revid": revid})
    chk.prove("fetch.FsOutput.write_expanded_page", harness, ex, targets=[fn], replay=replay_write_expanded)


def replay_write_expanded(model, obligation):
    import io
    import types
    from mwlib.network import fetch
    for first, second in (((3, "old text"), (None, "current text")), ((None, "current text"), (3, "old text")), ((None, "a"), (None, "b"))):
        fake = types.SimpleNamespace(revfile=io.StringIO(), seen={})
        for revid, txt in (first, second):
            fetch.FsOutput.write_expanded_page(fake, "Alpha", 0, txt, revid=revid)
        got = fake.revfile.getvalue()
        if got.count(" --page-- ") != 2 or first[1] not in got or second[1] not in got:
            return True, {"calls": [f"write_expanded_page('Alpha', 0, {t!r}, revid={r})" for r, t in (first, second)], "records_stored": got.count(" --page-- "),
                          "consequence": "a title listed with a pinned revision and without one: the current text is never stored"}, "record-dropped"
    return False, {"cases": 3}, None


# ----------------------------------------------------------------------------- bounded: contributor lookups under every answer order; page shapes
def contributors_schedule_search(n_titles=5, limit=2, max_orders=400):
    """Every title handed to _add_to_titles_pending_contributor_lookup gets its contributors stored, whatever the
    order in which the API answers concurrent requests: real Fetcher methods on real gevent greenlets, a stub API
    whose answers are released one at a time by a director, all release orders (the next answer to release is
    chosen among the pending ones at every step, titles are queued in between), then the real final flush."""
    import itertools
    from collections import defaultdict
    import gevent
    from gevent.event import Event
    from mwlib.network import fetch

    class IA:
        def __init__(self, a):
            self.a = a

        def get_authors(self):
            return self.a

    def run(choices):
        pending_calls = []      # [titles, event]

        class Api:
            api_request_limit = limit
            request_counter = 0
            baseurl = "http://x/"

            def get_contributors(self, titles):
                ev = Event()
                call = [list(titles), ev]
                pending_calls.append(call)
                ev.wait()
                return {t: IA([t + "-author"]) for t in call[0]}

        class Out:
            def __init__(self):
                self.stored = {}

            def set_db_key(self, name, key, value):
                self.stored[key] = value
        f = fetch.Fetcher.__new__(fetch.Fetcher)
        f.fsout = Out()
        f.title_mapping = {}
        f.titles_pending_contributor_lookup = defaultdict(list)
        f.authors_batch = []
        api = Api()
        f.api = api
        titles = [f"P{i}" for i in range(1, n_titles + 1)]
        queue = list(titles)
        greenlets = []
        pos = 0
        steps = 0
        # at every step: either queue the next title or release one of the pending answers, as `choices` says
        while (queue or pending_calls) and steps < 60:
            steps += 1
            options = (["queue"] if queue else []) + [("release", k) for k in range(len(pending_calls))]
            c = options[choices[pos] % len(options)] if pos < len(choices) else options[0]
            pos += 1
            if c == "queue":
                t = queue.pop(0)
                greenlets.append(gevent.spawn(f._add_to_titles_pending_contributor_lookup, t, api))
            else:
                pending_calls.pop(c[1])[1].set()
            gevent.sleep(0)
            gevent.sleep(0)
        g = gevent.spawn(f.lookup_contributors_for_remaining_titles)
        for _ in range(20):
            gevent.sleep(0)
            while pending_calls:
                pending_calls.pop(0)[1].set()
                gevent.sleep(0)
        gevent.joinall(greenlets + [g], timeout=2)
        missing = [t for t in titles if t not in f.fsout.stored]
        return missing
    n = 0
    for length in (6, 8, 10):
        for choices in itertools.product(range(3), repeat=length):
            n += 1
            if n > max_orders:
                return n, None
            missing = run(choices)
            if missing:
                return n, {"detail": f"contributors of {missing} never stored", "witness": {"titles": n_titles, "api_request_limit": limit, "schedule_choices": list(choices),
                                                                                               "missing": missing}, "class": "contributors-lost-under-schedule"}
    return n, None


def page_shapes_search():
    """workflow.collect_page_data on every list of <= 3 API page entries of 5 kinds (missing page without pageid, page
    with revisions + images + templates, page with revisions only, page with images only, empty entry): never raises;
    revids / images / templates are the unions over ALL entries; title2latest gets the newest revision per title"""
    import itertools
    from mwlib.network import workflow
    kinds = [
        lambda i: {"ns": 0, "title": f"Missing{i}", "missing": ""},
        lambda i: {"pageid": 10 + i, "title": f"A{i}", "revisions": [{"revid": 100 + i}, {"revid": 50 + i}], "images": [{"title": f"File:I{i}.png"}], "templates": [{"title": f"Template:T{i}"}]},
        lambda i: {"pageid": 20 + i, "title": f"B{i}", "revisions": [{"revid": 200 + i}]},
        lambda i: {"pageid": 30 + i, "title": f"C{i}", "images": [{"title": f"File:J{i}.png"}, {"ns": 6}]},
        lambda i: {},
    ]
    n = 0
    for k in range(0, 4):
        for combo in itertools.product(range(len(kinds)), repeat=k):
            pages = [kinds[c](i) for i, c in enumerate(combo)]
            want_rev = {r["revid"] for p in pages for r in p.get("revisions", []) if r.get("revid")}
            want_img = {e["title"] for p in pages for e in p.get("images", []) if e.get("title")}
            want_tpl = {e["title"] for p in pages for e in p.get("templates", []) if e.get("title")}
            want_latest = {p["title"]: max(r["revid"] for r in p["revisions"]) for p in pages if p.get("revisions")}
            n += 1
            t2l = {}
            try:
                got = workflow.collect_page_data([dict(p) for p in pages], t2l)
            except Exception as e:  # noqa: BLE001
                return n, {"detail": f"collect_page_data raised {type(e).__name__}: {e} on {pages}", "witness": {"pages": pages}, "class": "collect_page_data:raise"}
            if (set(got[0]), set(got[1]), set(got[2])) != (want_rev, want_img, want_tpl) or t2l != want_latest:
                return n, {"detail": f"collect_page_data({pages}) = {got}, {t2l}", "witness": {"pages": pages}, "class": "collect_page_data:value"}
    return n, None


def bounded(chk):
    n1, f1 = page_shapes_search()
    chk.bounded_result("collect_page_data_on_page_shapes", n1, n1, True,
                       "all lists of <= 3 API page entries of 5 kinds (missing page, full page, revisions only, images only, empty): no exception, unions over all entries, newest revision per title",
                       [f1] if f1 else [])
    n3, f3 = redirect_contributors_case()
    chk.bounded_result("contributors_of_a_redirect_listed_by_title", n3, n3, True,
                       "real MwApi.get_contributors (merge_data) + real _lookup_contributors on the API answer for a redirect whose target is not listed", [f3] if f3 else [])
    n2, f2 = contributors_schedule_search(max_orders=400 if chk.tier == "quick" else 6000)
    chk.bounded_result("contributor_lookups_under_answer_orders", n2, n2, False,
                       "5 titles, api_request_limit 2, real Fetcher methods on gevent greenlets, stub API whose concurrent answers are released in every order of the first 400 (quick) / 6000 (thorough) schedules of length 6..10, then the real final flush: every title's contributors are stored",
                       [f2] if f2 else [])


def redirect_contributors_case():
    """a redirect listed by title (its target is not listed): the real MwApi.get_contributors fed with the API's answer
    (redirects: Redir -> Target, page Target with its contributors) through the real _lookup_contributors must store
    the target's contributors under the listed title"""
    from mwlib.network import fetch, sapi
    api = sapi.MwApi.__new__(sapi.MwApi)
    api.rvlimit = 500
    answers = [{"redirects": [{"from": "Redir", "to": "Target"}],
                "pages": {"7": {"title": "Target", "anoncontributors": 1, "contributors": [{"name": "Tina"}, {"name": "SomeBot"}]}}}]

    def do_request(action=None, merge_data=None, **kw):
        for a in answers:
            merge_data(None, a)
        return {}
    api.do_request = do_request

    class Out:
        def __init__(self):
            self.stored = {}

        def set_db_key(self, name, key, value):
            self.stored[key] = value
    f = fetch.Fetcher.__new__(fetch.Fetcher)
    f.fsout = Out()
    f.title_mapping = {}
    f._lookup_contributors(api, "Redir")
    got = f.fsout.stored.get("Redir")
    if not got or "Tina" not in got or not any(str(x).startswith("ANONIPEDITS:1") for x in got) or any("Bot" in str(x) for x in got):
        return 1, {"detail": f"metabook lists the redirect 'Redir' (-> 'Target'): contributors stored under 'Redir': {got!r}, the wiki reports Tina + 1 anonymous edit for the page it serves",
                   "witness": {"listed": "Redir", "redirects": answers[0]["redirects"], "stored": {k: v for k, v in f.fsout.stored.items()}}, "class": "redirect-without-contributors"}
    return 1, None
