"""C09 - opaque tags stay opaque (DESIGN 3/C09)."""
import ast

import z3

from pyvc import source
from pyvc.interp import Explorer, Undecided, SymRaise
from pyvc.values import PObj, SStr, SInt, SBool, Model, ClassRef, kind_of, z3_of

UNIQ = "mwlib/utils/uniq.py"
CORE = "mwlib/parser/refine/core.py"
S = z3.StringSort()
OPAQUE = ["nowiki", "pre", "math", "source", "syntaxhighlight", "timeline"]


def strdict(I, name):
    d = PObj("strdict", {"has": I.fresh(name + "_has", z3.ArraySort(S, z3.BoolSort())), "size": I.sym_int(name + "_len").z,
                         "stored": []})
    I.assume(d.fields["size"] >= 0)
    return d


def install_strdict(ex):
    ex.len_hooks["strdict"] = lambda I, d: SInt(d.fields["size"])

    def setitem(I, d, k, v):
        kz = z3_of(k)
        d.fields["size"] = z3.If(z3.Select(d.fields["has"], kz), d.fields["size"], d.fields["size"] + 1)
        d.fields["has"] = z3.Store(d.fields["has"], kz, True)
        d.fields["stored"].append((k, v))
    ex.setitem_hooks["strdict"] = setitem

    def get(I, d, k, default=None):
        kz = z3_of(k)
        for (kk, vv) in reversed(d.fields["stored"]):
            t = I.eq_term(k, kk)
            if t is True or (t is not False and I.decide(t)):
                return vv
        if I.decide(z3.Select(d.fields["has"], kz)):
            return PObj("stored_repl", {"complete": I.fresh_str("stored_complete")})
        return default
    ex.methods[("strdict", "get")] = Model("dict.get", get)
    ex.getitem_hooks["stored_repl"] = lambda I, o, k: o.fields[k]


def marker(name, count_str, rand):
    return z3.Concat(z3.StringVal("\x7fUNIQ-"), name, z3.StringVal("-"), count_str, z3.StringVal("-"), rand, z3.StringVal("-QINU\x7f"))


def p1_get_uniq(chk):
    from pyvc import models
    ex = Explorer()
    install_strdict(ex)
    fn = ex.function(UNIQ, "Uniquifier.get_uniq")

    def harness(I):
        rand = I.sym_str("random_string")
        name = I.sym_str("name")
        d = strdict(I, "uniq2repl")
        size0 = d.fields["size"]
        has0 = d.fields["has"]
        self = PObj(fn.cls, {"random_string": rand, "uniq2repl": d})
        repl = PObj("repl", {})
        out = ex.run_function(I, fn, [self, repl, name])
        I.oblige("no_raise", out.returned)
        r = z3_of(out.value)
        I.oblige("marker_shape", r == marker(name.z, models.str_of_int(size0), rand.z))
        I.oblige("marker_registered", z3.Select(d.fields["has"], r))
        I.oblige("registered_value_is_the_replacement", d.fields["stored"][-1][1] is repl)
        k = I.fresh("k", S)
        I.assume(k != r)
        I.oblige("other_entries_untouched", z3.Select(d.fields["has"], k) == z3.Select(has0, k))

    chk.prove("uniq.Uniquifier.get_uniq", harness, ex, targets=[fn])
    # injectivity of the marker format in (name, counter): names and digit strings contain no '-'
    n1, n2, d1, d2, rnd = z3.Consts("n1 n2 d1 d2 rnd", S)
    dash = z3.StringVal("-")
    pre = [z3.Not(z3.Contains(x, dash)) for x in (n1, n2, d1, d2)] + [marker(n1, d1, rnd) == marker(n2, d2, rnd)]
    chk.lemma("uniq.marker_injective.name", pre, n1 == n2, ["n1", "n2", "d1", "d2", "rnd"])
    chk.lemma("uniq.marker_injective.counter", pre, d1 == d2, ["n1", "n2", "d1", "d2", "rnd"])
    # the premise for names: every tag name the protector can pass is [a-z0-9]+ (configuration lemma, real registry)
    import re
    from mwlib.parser import tagext
    tags = {"nowiki", "math", "imagemap", "gallery", "source", "pre", "ref", "timeline", "poem", "pages"} | set(tagext.default_registry.names())
    bad = [t for t in tags if not re.fullmatch("[a-z0-9]+", t.lower())]
    chk.static("uniq.tag_names_match_the_marker_grammar", not bad, f"{len(tags)} protected tag names; not [a-z0-9]+: {bad}")
    # markers are meaningful only in the table of the parse that created them: Parser.parse must tokenise (and thereby
    # register the protected regions through replace_tags) on every call, i.e. never serve nodes of an earlier parse
    import os as _os
    from mwlib.parser.templ import parser as _tp
    stores = []
    root = source.SRC
    for dp, _dn, fns in _os.walk(root):
        for f in fns:
            if f.endswith((".py", ".pyx")):
                try:
                    txt = open(_os.path.join(dp, f), encoding="utf-8", errors="replace").read()
                except OSError:
                    continue
                for ln, line in enumerate(txt.splitlines(), 1):
                    if re.search(r"\buse_cache\s*=[^=]", line):
                        stores.append((_os.path.relpath(_os.path.join(dp, f), root), ln, line.strip()))
    only_decl = [x for x in stores if not (x[0].endswith("templ/parser.py") and x[2].replace(" ", "") == "use_cache=False")]
    chk.static("templ.parser.Parser.parse.never_serves_nodes_of_an_earlier_parse", _tp.Parser.use_cache is False and not only_decl,
               f"Parser.use_cache = {_tp.Parser.use_cache!r}; assignments elsewhere: {only_decl}",
               {"use_cache": repr(_tp.Parser.use_cache), "assignments": only_decl}, "templ.parser.Parser.parse", True)
    src = ast.unparse(source.module(UNIQ).find("Uniquifier.replace_uniq"))
    chk.static("uniq.recogniser_accepts_the_marker_shape", "\\x7fUNIQ-[a-z0-9]+-\\\\d+-[a-f0-9]+-QINU\\x7f" in src, "regex of replace_uniq")


class Match(PObj):
    def __init__(self, groups):
        super().__init__("rematch", {})
        self.groups = groups


def install_match(ex):
    def group(I, m, k=0):
        if k not in m.groups:
            raise Undecided(f"group {k!r}")
        return m.groups[k]
    ex.methods[("rematch", "group")] = Model("re.Match.group", group)


def p2_repl(chk):
    ex = Explorer()
    install_strdict(ex)
    install_match(ex)
    to = ex.function(UNIQ, "Uniquifier._repl_to_uniq")
    frm = ex.function(UNIQ, "Uniquifier._repl_from_uniq")
    stored = {}

    def get_uniq_contract(I, self, repl, name):
        stored["repl"], stored["name"] = repl, name
        return I.fresh_str("marker")
    ex.contracts[UNIQ + ":Uniquifier.get_uniq"] = get_uniq_contract

    def harness_to(I):
        stored.clear()
        ti = I.choose(len(OPAQUE) + 1, "tag")
        tag = (OPAQUE + ["ref"])[ti]
        spelled = tag.upper() if I.decide(I.sym_bool("upper").z) else tag
        inner = None if I.decide(I.sym_bool("self_closing").z) else I.sym_str("inner")
        whole = I.sym_str("whole_match")
        m = Match({"tagname": spelled, "inner": inner, "vlist": None if I.decide(I.sym_bool("no_vlist").z) else I.sym_str("vlist"), 0: whole})
        self = PObj(to.cls, {"txt": I.sym_str("txt")})
        out = ex.run_function(I, to, [self, m])
        I.oblige("no_raise", out.returned)
        repl = stored.get("repl")
        I.oblige("protects_through_get_uniq", repl is not None and stored.get("name") == tag)
        want_inner = inner if inner is not None else ""
        I.oblige("inner_kept_verbatim", I.eq_term(repl["inner"], want_inner))
        if tag == "nowiki":
            I.oblige("nowiki_restores_to_its_body", I.eq_term(repl["complete"], want_inner))
        else:
            I.oblige("restores_to_the_complete_match", I.eq_term(repl["complete"], whole))
        I.oblige("tagname_lower_cased", repl["tagname"] == tag)

    chk.prove("uniq.Uniquifier._repl_to_uniq", harness_to, ex, targets=[to])

    def harness_from(I):
        d = strdict(I, "uniq2repl")
        known = I.decide(I.sym_bool("known_marker").z)
        uniq = I.sym_str("marker")
        repl = {"complete": I.sym_str("complete")}
        if known:
            d.fields["stored"].append((uniq, repl))
        else:
            I.assume(z3.Not(z3.Select(d.fields["has"], uniq.z)))
        self = PObj(frm.cls, {"uniq2repl": d})
        out = ex.run_function(I, frm, [self, Match({0: uniq})])
        I.oblige("no_raise", out.returned)
        if known:
            I.oblige("known_marker_restored_to_complete", out.value is repl["complete"])
        else:
            I.oblige("unknown_marker_left_unchanged", out.value is uniq)

    chk.prove("uniq.Uniquifier._repl_from_uniq", harness_from, ex, targets=[frm])


def p3_creators(chk):
    """core.ParseUniq.create_<tag> for the opaque tags: the body reaches the token verbatim
    (entity decoding only for nowiki/pre) and nothing re-parses or expands it"""
    ex = Explorer()
    mod = source.module(CORE)
    cls = ClassRef(mod.defs["ParseUniq"], mod)
    entities = z3.Function("replace_html_entities", S, S)
    unnowiki = z3.Function("remove_nowiki_tags", S, S)
    reparsed = []

    def forbid(name):
        def f(I, *a, **k):
            reparsed.append(name)
            return []
        return Model(name + " (must not be reached)", f)
    ex.global_overrides[(CORE, "parse_txt")] = forbid("parse_txt")
    ex.models["mwlib.parser.refine.util.replace_html_entities"] = Model("util.replace_html_entities", lambda I, s: SStr(entities(z3_of(s))))
    ex.models["mwlib.parser.refine.util.remove_nowiki_tags"] = Model("util.remove_nowiki_tags", lambda I, s: SStr(unnowiki(z3_of(s))))
    ex.global_overrides[(CORE, "Token")] = PObj("TokenNS", {"t_text": "t_text", "t_complex_tag": "t_complex_tag", "t_complex_compat": "t_complex_compat"})
    ex.methods[("TokenNS", "__call__")] = Model("Token(...)", lambda I, *a, **kw: PObj("Token", dict(kw)))
    ex.inline.add(CORE + ":ParseUniq._create_generic")
    for t in ("nowiki", "pre", "math", "source", "timeline"):
        ex.inline.add(CORE + f":ParseUniq.create_{t}")

    from mwlib.parser import tagext
    registered = set(tagext.default_registry.names())
    ex.contains_hooks["registry"] = lambda I, r, k: k in registered if isinstance(k, str) else (_ for _ in ()).throw(Undecided("symbolic tag name"))

    def harness(I):
        del reparsed[:]
        ti = I.choose(5, "tag")
        tag = ["nowiki", "pre", "math", "source", "timeline"][ti]
        inner = I.sym_str("inner")
        vlist = None if I.decide(I.sym_bool("no_vlist").z) else {"lang": I.sym_str("lang")}
        xopts = PObj("xopts", {"expander": PObj("expander", {})})
        ex.methods[("expander", "parseAndExpand")] = forbid("parseAndExpand")
        self = PObj(cls, {"tagextensions": PObj("registry", {})})
        # dispatch as in ParseUniq.__init__: getattr(self, "create_" + name), else _create_generic
        method = I.getattr(self, "create_" + tag)
        saved = I.cur_target
        try:
            tok = I.call(method, [tag, vlist, inner, xopts], {})
        except SymRaise as e:
            I.oblige("no_raise", False, meta={"exc": e.exc.cls.name})
            return
        I.oblige("never_reparsed_or_expanded", len(reparsed) == 0)
        f = tok.fields
        if tag == "nowiki":
            I.oblige("nowiki_is_plain_text", f.get("type") == "t_text")
            I.oblige("nowiki_only_entity_decoded", I.eq_term(f.get("text"), SStr(entities(inner.z))))
        elif tag == "math":
            I.oblige("math_body_verbatim", I.eq_term(f.get("math"), inner))
        elif tag == "timeline":
            I.oblige("timeline_body_verbatim", I.eq_term(f.get("timeline"), inner))
        elif tag == "source":
            kids = f.get("children")
            I.oblige("source_body_is_one_text_child", isinstance(kids, list) and len(kids) == 1 and kids[0].fields.get("type") == "t_text")
            I.oblige("source_body_verbatim", I.eq_term(kids[0].fields.get("text"), inner))
        elif tag == "pre":
            kids = f.get("children")
            I.oblige("pre_body_is_one_text_child", isinstance(kids, list) and len(kids) == 1)
            I.oblige("pre_body_only_entity_decoded", I.eq_term(kids[0].fields.get("text"), SStr(entities(unnowiki(inner.z)))))

    chk.prove("core.ParseUniq.create_opaque", harness, ex, targets=[ex.function(CORE, f"ParseUniq.create_{t}") for t in ("nowiki", "pre", "math", "source", "timeline")])
    # dispatch: every opaque tag has its own creator or falls to _create_generic with the body as one text child
    names = {n.name for n in mod.defs["ParseUniq"].body if isinstance(n, ast.FunctionDef)}
    chk.static("core.ParseUniq.dispatch_targets_exist", all(f"create_{t}" in names for t in ("nowiki", "pre", "math", "source", "timeline")) and "_create_generic" in names, str(sorted(names)))


# ----------------------------------------------------------------------------- bounded
BODIES = ["&lt;nowiki&gt;[[L]]&lt;/nowiki&gt;", "''x''", "[[L]]", "{{t}}", "{{{1}}}", "<b>b</b>", "<!-- c -->", "* i", "== h ==", "{|\n| c\n|}", "&amp;", " a  b ", "\n\n", "|", "~~~~", "<ref>r</ref>"]
CONTEXTS = {"top": "X {} Y", "list": "* a {} b", "cell": "{{|\n| {} \n|}}", "bold": "'''b {} b'''", "arg": "{{{{T|{}}}}}"}


def collect_text(node):
    out = []
    for n in [node] + list(node.allchildren() if hasattr(node, "allchildren") else []):
        for attr in ("caption", "math", "timeline"):
            v = getattr(n, attr, None)
            if isinstance(v, str):
                out.append(v)
    return "\x00".join(out)


def bounded(chk):
    import html, itertools
    from contracts import docs
    n = 0
    fails = []
    bodies = BODIES + [a + b for a, b in itertools.product(BODIES[:8], repeat=2)] if chk.tier == "quick" else \
        BODIES + [a + b for a, b in itertools.product(BODIES, repeat=2)]
    for tag in ("nowiki", "pre", "math", "source", "timeline"):
        for body in bodies:
            if tag in ("math", "timeline") and not body.strip():
                continue
            for cname, ctx in CONTEXTS.items():
                text = ctx.format(f"<{tag}>{body}</{tag}>")
                n += 1
                try:
                    tree = docs.parse(text)
                    got = collect_text(tree)
                except Exception as e:  # noqa: BLE001
                    fails.append({"detail": f"{text!r}: raised {type(e).__name__}", "witness": {"wikitext": text}, "class": "raise"})
                    break
                want = html.unescape(body) if tag in ("nowiki", "pre") else body
                if tag == "pre":
                    want = want.strip("\n") if False else want
                ok = want in got or want.strip() in got or (tag == "pre" and want.strip("\n") in got)
                if not ok:
                    fails.append({"detail": f"{tag} body {body!r} in context {cname}: not verbatim in the tree ({got!r})",
                                  "witness": {"wikitext": text}, "class": f"{tag}:{cname}"})
                    break
            if fails:
                break
        if fails:
            break
    # two protected regions on one page: a nowiki whose body spells another opaque tag, next to a real one
    if not fails:
        for tag, body in (("math", "x^2"), ("pre", "a ''b''"), ("source", "int x;"), ("timeline", "t")):
            real = f"<{tag}>{body}</{tag}>"
            for text in (f"<nowiki>{real}</nowiki> and {real}", f"{real} and <nowiki>{real}</nowiki>"):
                n += 1
                try:
                    tree = docs.parse(text)
                except Exception as e:  # noqa: BLE001
                    fails.append({"detail": f"{text!r}: raised {type(e).__name__}", "witness": {"wikitext": text}, "class": "raise"})
                    break
                got = collect_text(tree)
                kinds = [c.__class__.__name__ for c in tree.allchildren()]
                literal_ok = real in got
                node_ok = {"math": "Math" in kinds, "timeline": "Timeline" in kinds,
                           "pre": "PreFormatted" in kinds, "source": any(k in ("Source", "TagNode") for k in kinds)}[tag]
                if not (literal_ok and node_ok):
                    fails.append({"detail": f"{text!r}: nowiki body literal in tree: {literal_ok}; real <{tag}> node present: {node_ok}",
                                  "witness": {"wikitext": text}, "class": f"two-regions:{tag}"})
                    break
            if fails:
                break
    # embedding contexts reported by seed authors: one class per shape (some are recorded known findings)
    fails2 = []
    shapes = [
        ("caption_pipe", "{|\n|+ a<nowiki>|</nowiki>b\n|-\n| x\n|}", " a|b"),
        ("caption_newline", "{|\n|+ a<nowiki>\nq</nowiki>b\n|-\n| x\n|}", "q"),
        ("unknown_tag_attribute", "<blah <nowiki>''x''</nowiki>>", "''x''"),
        ("tag_function_argument", "{{#tag:source|<nowiki>{{x}}</nowiki>}}", "{{x}}"),
        ("foreign_closing_tag_in_syntaxhighlight", "<syntaxhighlight>a</source>''b''</syntaxhighlight>", "a</source>''b''"),
        ("include_control_inside_nowiki", "<nowiki>a<includeonly>i</includeonly>b</nowiki>", "a<includeonly>i</includeonly>b"),
        ("string_function_on_nowiki", "{{lc:<nowiki>ABC</nowiki>}}", "ABC"),
        ("image_option", "[[Image:x.png|<nowiki>thumb</nowiki>]]", None),
    ]
    for name, text, want in shapes:
        n += 1
        try:
            tree = docs.parse(text)
            got = collect_text(tree)
        except Exception as e:  # noqa: BLE001
            fails2.append({"detail": f"{name}: {text!r} raised {type(e).__name__}", "witness": {"wikitext": text}, "class": f"context:{name}"})
            continue
        if want is None:
            bad = any(getattr(c, "thumb", False) for c in tree.allchildren())
        else:
            bad = want not in got or "\x7f" in got
        if bad:
            fails2.append({"detail": f"{name}: {text!r}: body not verbatim / interpreted ({got[:80]!r})", "witness": {"wikitext": text}, "class": f"context:{name}"})
    # the entry point without a wiki (parse_string(raw=...) / parse_txt(txt)): regions nested in a body that is parsed again
    fails3, n3 = [], 0
    from mwlib.parser.refine import uparser
    for outer in ("ref", "poem", "gallery"):
        for tag, first, second in (("nowiki", "a", "[[b]]"), ("nowiki", "''p''", "{{q}}"), ("math", "x^2", "y_1"), ("pre", "one", "''two''")):
            inner = f"<{tag}>{second}</{tag}>" if outer != "gallery" else f"Image:x.png|<{tag}>{second}</{tag}>"
            text = f"x<{tag}>{first}</{tag}><{outer}>{inner}</{outer}>"
            n3 += 1
            try:
                got = collect_text(uparser.parse_string("P", raw=text, lang="en"))
            except Exception as e:  # noqa: BLE001
                fails3.append({"detail": f"{text!r} raised {type(e).__name__}", "witness": {"wikitext": text, "wikidb": None}, "class": "no-wikidb:raise"})
                break
            if second not in got or first not in got or "\x7f" in got:
                fails3.append({"detail": f"no wikidb: {text!r}: both bodies must be in the tree verbatim, got {got[:100]!r}",
                               "witness": {"wikitext": text, "wikidb": None}, "class": f"no-wikidb:{outer}"})
                break
        if fails3:
            break
    # tag names are case-insensitive in wikitext
    fails5, n5 = [], 0
    for T in ("NOWIKI", "Nowiki", "Pre", "PRE", "Math", "MATH", "Source", "SOURCE", "TIMELINE", "noWiki"):
        for b in ("''i'' [[x]] {{t}}", "a|b", "<b>h</b>"):
            text = f"p <{T}>{b}</{T}> q"
            n5 += 1
            try:
                got = collect_text(docs.parse(text))
            except Exception as e:  # noqa: BLE001
                fails5.append({"detail": f"{text!r} raised {type(e).__name__}", "witness": {"wikitext": text}, "class": "tag-case:raise"})
                break
            if b not in got or "\x7f" in got:
                fails5.append({"detail": f"{text!r}: body not verbatim, got {got[:100]!r}", "witness": {"wikitext": text}, "class": f"tag-case:{T.lower()}"})
                break
        if fails5:
            break
    chk.bounded_result("opaque_bodies_under_tag_names_in_any_case", n5, n5, True,
                       "10 spellings of the opaque tag names (upper / mixed case) x 3 bodies: body verbatim", fails5[:1])
    # several articles in one process (what mw-render and the render workers do): every parse has its own expander
    # and marker table; nothing of an earlier parse may reach a later one
    fails4, n4 = [], 0
    from mwlib.parser.expander import DictDB
    body = "[[x|y]] ''i'' {{Foo|a=b}} {{{1}}} <b>h</b>"
    tpls = {"Nw": f"<nowiki>{body}</nowiki>", "Src": f"<source lang=c>{body}</source>", "Mth": f"<math>{body}</math>", "Id": "{{{1}}}"}
    pages = ["{{Nw}}", "<nowiki>other</nowiki> <math>z</math> {{Nw}} {{Mth}}", "{{Src}} {{Nw}}", "{{Id|<nowiki>" + body + "</nowiki>}}",
             "<math>q</math>{{Id|<nowiki>" + body + "</nowiki>}}", "{{Nw}}", "{{Mth}}<nowiki>tail</nowiki>"]
    for rounds in (1, 2):
        for text in pages:
            n4 += 1
            try:
                got = collect_text(uparser.parse_string("P", raw=text, wikidb=DictDB(**tpls), lang="en"))
            except Exception as e:  # noqa: BLE001
                fails4.append({"detail": f"{text!r} raised {type(e).__name__}", "witness": {"pages_parsed_in_order": pages, "failing": text}, "class": "sequence:raise"})
                break
            if body not in got or "\x7f" in got or ("other" in text and "other" not in got):
                fails4.append({"detail": f"parse {n4} of a sequence of articles in one process: {text!r}: body not verbatim, got {got[:120]!r}",
                               "witness": {"pages_parsed_in_order": (pages * rounds)[:n4]}, "class": "sequence"})
                break
        if fails4:
            break
    chk.bounded_result("opaque_bodies_over_a_sequence_of_articles", n4, n4, True,
                       "7 articles using templates with opaque bodies, parsed twice over in one process with a fresh wikidb / expander each: every body verbatim in every parse",
                       fails4[:1])
    chk.bounded_result("opaque_bodies_without_a_wikidb", n3, n3, True,
                       "two protected regions, the second inside <ref> / <poem> / <gallery> (bodies that are parsed again by the expander), through uparser.parse_string without a wikidb",
                       fails3[:1])
    chk.bounded_result("opaque_bodies_in_reported_contexts", len(shapes), len(shapes), True,
                       "nowiki / source bodies in 8 further embedding contexts (table caption, attribute of an unknown tag, #tag argument, syntaxhighlight with a foreign closing tag, include-control tags inside nowiki, argument of a string function, image option)",
                       fails2)
    chk.bounded_result("opaque_bodies_in_contexts", n, n, True,
                       f"{len(bodies)} bodies (markup lexemes and pairs) x 5 opaque tags x 5 embedding contexts through parse_string with a template-bearing wikidb; contract: body verbatim (entity-decoded for nowiki/pre) in a Text/Math/Timeline leaf",
                       fails[:1])


def run(chk):
    p1_get_uniq(chk)
    p2_repl(chk)
    p3_creators(chk)
    bounded(chk)
    chk.assumptions += [
        "the regular expressions of replace_tags / SPLIT_PATTERN themselves (backreferences, lazy quantifiers) are outside SMT: covered by the bounded stand-in only",
        "str(int) is a digit string without '-'; os.urandom hex string is [0-9a-f]+",
    ]
