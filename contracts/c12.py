"""C12 - title normalization is canonical and idempotent (DESIGN 3/C12).

P2 configuration lemmas (evaluated concretely for every bundled siteinfo on every run) and
the Unicode lemma used by idempotence (validated for every code point) are the premises;
the contract of splitname itself (clauses a-e of the statement) is checked by the bounded
stand-in on enumerated titles - the SMT proof of splitname over strings was not built.
"""
import glob
import itertools
import json
import os

from pyvc import source

MARKS = "‎‏"


def sites():
    d = os.path.join(source.SRC, "mwlib/network/known_sites")
    for p in sorted(glob.glob(os.path.join(d, "siteinfo-*.json"))):
        yield os.path.basename(p)[9:-5], json.load(open(p, encoding="utf-8"))


def p_config(chk):
    n = 0
    for lang, si in sites():
        n += 1
        ns = si["namespaces"]
        bad = []
        if any(str(v["id"]) != k for k, v in ns.items()):
            bad.append("namespace key != id")
        for v in ns.values():
            for nm in (v["*"], v.get("canonical", "")):
                if ":" in nm or "_" in nm or nm != nm.strip() or "  " in nm or nm.strip(MARKS) != nm:
                    bad.append(f"name {nm!r} not canonical")
        spell = {}
        for v in ns.values():
            for nm in {v["*"].lower(), v.get("canonical", v["*"]).lower()}:
                spell.setdefault(nm, set()).add(v["id"])
        for a in si.get("namespacealiases", []):
            if str(a["id"]) not in ns:
                bad.append(f"alias {a['*']!r} -> unknown id {a['id']}")
            # _find_namespace looks at local/canonical names first: an alias equal to one of them is shadowed consistently
            if a["*"].lower() not in spell:
                spell.setdefault(a["*"].lower(), set()).add(a["id"])
        amb = {k: sorted(v) for k, v in spell.items() if len(v) > 1}
        if amb:
            bad.append(f"ambiguous spellings {amb}")
        if "case" not in si.get("general", {}):
            bad.append("general.case missing")
        # local names are fixed points of the capitalisation / lookup used on the way back in
        for v in ns.values():
            nm = v["*"]
            if nm and (nm.lower().strip() != nm.lower()):
                bad.append(f"{nm!r} lower/strip")
        chk.static(f"config.siteinfo-{lang}.namespace_table_is_consistent", not bad, "; ".join(bad[:4]) or
                   f"{len(ns)} namespaces, {len(si.get('namespacealiases', []))} aliases: keys = ids, names canonical, lookups unambiguous")
    chk.static("config.all_bundled_sites_checked", n >= 12, f"{n} siteinfo files")


def p_unicode(chk):
    """the real NsHandler.maybe_capitalize of a first-letter site, on every code point followed by 'x':
    idempotent, changes at most the first character, never the length"""
    from mwlib.core import nshandling
    h = nshandling.get_nshandler_for_lang("en")
    bad, longer = [], []
    for cp in range(0x110000):
        if 0xD800 <= cp <= 0xDFFF:
            continue
        t = chr(cp) + "x"
        once = h.maybe_capitalize(t)
        if h.maybe_capitalize(once) != once:
            bad.append(cp)
        if len(once) != len(t) or once[1:] != t[1:]:
            longer.append(cp)
    chk.static("unicode.first_letter_capitalisation_is_idempotent", not bad,
               f"checked 1112064 code points; not idempotent: {[hex(b) for b in bad[:8]]}")
    chk.static("unicode.first_letter_capitalisation_keeps_the_rest_of_the_title", not longer,
               f"code points whose capitalisation changes the length / the rest of the title: {[hex(b) for b in longer[:8]]} ({len(longer)} in all)",
               witness={"title": (chr(longer[0]) + "x") if longer else None}, witness_class="capitalisation_changes_length", reproduced=True)


# ----------------------------------------------------------------------------- bounded contract
def titles_for(si, maxlen):
    ns = si["namespaces"]
    names = [ns["1"]["*"], ns["14"]["*"].upper(), ns["10"].get("canonical", ns["10"]["*"]).lower()]
    if si.get("namespacealiases"):
        names.append(si["namespacealiases"][0]["*"])
    # a namespace whose own "case" differs from the site-wide setting (the Gadget namespaces are case-sensitive)
    odd = [v["*"] for v in ns.values() if v.get("case") and v.get("case") != si["general"].get("case")]
    if odd:
        names.append(odd[0].lower())
    alpha = ["a", "B", " ", "_", ":", "‎", "ä", "ß"] + names
    for n in range(1, maxlen + 1):
        for t in itertools.product(alpha, repeat=n):
            yield "".join(t)


def contract(h, si, title, defaultns):
    """clauses (a)-(e) of the statement for one title; returns a message or None"""
    # precondition: a page title - after an optional leading colon something other than a
    # colon follows (MediaWiki rejects titles that start with ':' or are empty)
    core = title.replace("_", " ").strip(" " + MARKS)
    if core.startswith(":"):
        core = core[1:].strip(" " + MARKS)
    if not core or core.startswith(":"):
        return None
    r = h.splitname(title, defaultns)
    nsnum, partial, full = r
    ns = si["namespaces"]
    if str(nsnum) not in ns:
        return f"namespace {nsnum} not defined by the site"
    # (b) the namespace number is the one the site defines for the spelled name (spec table
    # built from local names, canonical names and aliases, case-insensitively)
    table = {}
    for a in si.get("namespacealiases", []):
        table[a["*"].lower()] = a["id"]
    for v in ns.values():
        table[v.get("canonical", v["*"]).lower()] = v["id"]
    for v in ns.values():
        table[v["*"].lower()] = v["id"]
    lead = title.replace("_", " ").strip(" " + MARKS)
    forced_main = lead.startswith(":")
    if forced_main:
        lead = lead[1:].strip(" " + MARKS)
    if ":" in lead:
        nm = " ".join(lead.split(":", 1)[0].split()).lower()
        want = table.get(nm, 0 if forced_main else defaultns)
    else:
        want = 0 if forced_main else defaultns
    if nsnum != want:
        return f"namespace number {nsnum}, the site defines {want} for this spelling"
    prefix = ns[str(nsnum)]["*"]
    if full != (prefix + ":" if prefix else "") + partial:
        return f"full {full!r} != local name + ':' + partial ({prefix!r}, {partial!r})"
    if "_" in full or "  " in full or full != full.strip() or full.strip(MARKS) != full:
        return f"full name {full!r} is not canonical"
    if partial != partial.strip() or partial.strip(MARKS) != partial:
        return f"partial {partial!r} has edge whitespace/marks"
    case = ns[str(nsnum)].get("case", si["general"].get("case"))      # the site says it per namespace
    if case == "first-letter" and partial and partial[:1].upper() != partial[:1] and len(partial[:1].upper()) == 1:
        return f"partial {partial!r} not capitalised"
    # capitalising the first letter yields the SAME title with one letter changed: it never changes the length
    # (characters without a one-character upper case - sharp s - are canonical as they are on the wiki)
    body = lead.split(":", 1)[1] if (":" in lead and " ".join(lead.split(":", 1)[0].split()).lower() in table) else lead
    body = body.strip(" " + MARKS)
    while "  " in body:
        body = body.replace("  ", " ")
    if len(partial) != len(body) or partial[1:] != body[1:]:
        return f"partial {partial!r} is not the title text {body!r} with its first letter capitalised"
    if case == "case-sensitive" and partial != body:
        return f"partial {partial!r}: namespace {nsnum} is case-sensitive on this site, the title text is {body!r}"
    for d2 in (0, 1, 10, 14, defaultns):
        if str(d2) in ns and h.splitname(full, d2) != r and not (nsnum == 0 and d2 != 0):
            # a main-namespace name carries no prefix, so it is re-read in the default namespace by
            # design; with a leading colon it must come back unchanged (next clause)
            return f"not idempotent: splitname({full!r}, {d2}) = {h.splitname(full, d2)} != {r}"
    if nsnum == 0 and h.splitname(":" + full, 14) != r:
        return f"':'+{full!r} does not come back as {r}"
    # spelling invariance
    for variant in (title.replace(" ", "_"), "  " + title + " ", title.replace(" ", "   "), "‏" + title + "‎",
                    # surrounding whitespace is any whitespace: no-break, ideographic, em space, tab, line feed
                    "\u00a0" + title + "\u3000", "\u2003\t" + title + "\n\u00a0", "\u200e\u00a0" + title + "\u3000\u200f"):
        if h.splitname(variant, defaultns) != r:
            return f"spelling {variant!r} gives {h.splitname(variant, defaultns)} != {r}"
    stripped = title.replace("_", " ").strip(" " + MARKS)
    if ":" in stripped and not stripped.startswith(":"):
        a, b = stripped.split(":", 1)
        if h._find_namespace(a)[0]:
            # the part before the colon denotes a namespace: its letter case and the spacing
            # around the colon do not matter
            for variant in (a.upper() + ":" + b, a.lower() + " : " + b, " " + a.swapcase() + ":" + b, a + ":\u3000" + b, a + ":\u00a0 " + b):
                if h.splitname(variant, defaultns) != r:
                    return f"namespace case/spacing variant {variant!r} gives {h.splitname(variant, defaultns)} != {r}"
    return None


def bounded_run(tier):
    from mwlib.core import nshandling
    n = 0
    distinct = set()
    for lang, si in sites():
        h = nshandling.NsHandler(si)
        maxlen = 3 if tier == "quick" else 4
        if tier == "quick" and lang not in ("en", "de", "fr"):
            maxlen = 2
        for t in titles_for(si, maxlen):
            for d in (0, 10):
                n += 1
                try:
                    msg = contract(h, si, t, d)
                except Exception as e:  # noqa: BLE001
                    msg = f"raised {type(e).__name__}: {e}"
                if msg:
                    return n, len(distinct), {"detail": f"[{lang}] splitname({t!r}, {d}): {msg}",
                                              "witness": {"site": lang, "title": t, "defaultns": d}, "class": msg.split(":")[0][:40]}
            distinct.add(h.splitname(t, 0))
    # namespace names / aliases of EVERY bundled site looked up on each site, in one process after all handlers have
    # been used: a name the site does not define is no namespace there (state must not leak between sites)
    allnames = set()
    for lang, si in sites():
        for v in si["namespaces"].values():
            allnames.update(x for x in (v["*"], v.get("canonical")) if x)
        allnames.update(a["*"] for a in si.get("namespacealiases", []))
    handlers = [(lang, si, nshandling.NsHandler(si)) for lang, si in sites()]
    for order in (handlers, list(reversed(handlers))):
        for lang, si, h in order:
            for nm in sorted(allnames):
                n += 1
                t = nm + ":a"
                try:
                    msg = contract(h, si, t, 0)
                except Exception as e:  # noqa: BLE001
                    msg = f"raised {type(e).__name__}: {e}"
                if msg:
                    return n, len(distinct), {"detail": f"[{lang}, after other sites were handled in the same process] splitname({t!r}, 0): {msg}",
                                              "witness": {"site": lang, "title": t, "defaultns": 0, "history": "handlers of all bundled sites used in one process"},
                                              "class": "cross-site:" + msg.split(":")[0][:30]}
    return n, len(distinct), None


def bounded(chk):
    n, d, f = bounded_run(chk.tier)
    chk.bounded_result("splitname_contract_on_enumerated_titles", n, d, True,
                       "titles over {a, B, space, _, :, U+200E, ä, 3-4 namespace names/aliases in mixed case} up to length 3 (en/de/fr) / 2 (other sites) in the quick tier, 4 in the thorough tier; default namespaces 0 and 10; all 12 bundled sites",
                       [f] if f else [])


def run(chk):
    p_config(chk)
    p_unicode(chk)
    p_splitname_assembly(chk)
    p_maybe_capitalize(chk)
    bounded(chk)
    chk.assumptions += [
        "the contract of splitname (canonical form, idempotence, spelling invariance) is decided on the enumerated domain only (bounded stand-in); the configuration and Unicode premises are decided exactly; the assembly of the result (namespace number of the site, full = local name + ':' + partial, default / main namespace without a prefix) is proved for all titles on every bundled site table, with _strip_edges and re.sub under arbitrary-result contracts",
    ]


# ----------------------------------------------------------------------------- splitname: result assembly for ALL titles, on every bundled site table
NSH = "mwlib/core/nshandling.py"


def p_splitname_assembly(chk):
    """NsHandler.splitname executed symbolically (title = any string) against each bundled site's real namespace table,
    with _find_namespace and maybe_capitalize inlined.  _strip_edges and re.sub(' +', ' ', .) return arbitrary strings
    (assumed contracts: their own properties - canonical spelling - are the subject of the bounded contract), so what is
    proved is the ASSEMBLY of the result for every title and every outcome of the namespace lookup:
      never raises; the reported number is a namespace of the site; full == local name of that namespace + ':' + partial
      (no colon for the main namespace); without a namespace prefix the number is the default namespace, or 0 after a
      leading colon; the partial is the (mark-stripped) remainder with at most its first letter changed."""
    import z3
    from pyvc import source
    from pyvc.interp import Explorer
    from pyvc.values import PObj, SStr, ClassRef, Model, z3_of
    mod = source.module(NSH)
    cls = ClassRef(mod.defs["NsHandler"], mod)
    for lang, si in sites():
        for dns in (0, 10):
            if str(dns) not in si["namespaces"] or (dns != 0 and lang not in ("en", "de")):
                continue
            ex = Explorer()
            fn = ex.function(NSH, "NsHandler.splitname")
            ex.inline.add(f"{NSH}:NsHandler._find_namespace")
            # maybe_capitalize by contract (verified by its own group below): a string of the same length
            ex.contracts[f"{NSH}:NsHandler.maybe_capitalize"] = lambda I, self, tag, nsnum=None: I.fresh_str("capitalised")
            calls = {}

            def strip_edges_contract(I, s, calls=calls):
                calls["strips"] = calls.get("strips", 0) + 1
                return I.fresh_str("stripped")
            ex.contracts[f"{NSH}:_strip_edges"] = strip_edges_contract
            ex.models["re.sub"] = Model("re.sub(' +', ' ', .)", lambda I, pat, repl, s: I.fresh_str("collapsed"))

            def pre_find(I, args, kwargs, calls=calls):
                calls["looked_up"] = True
            ex.call_pre[f"{NSH}:NsHandler._find_namespace"] = pre_find

            def harness(I, si=si, dns=dns, ex=ex, fn=fn, calls=calls):
                calls.clear()
                t = I.fresh("title", z3.StringSort())
                I.inputs["title"] = t
                me = PObj(cls, {"siteinfo": si, "capitalize": si["general"].get("case") == "first-letter"})
                out = ex.run_function(I, fn, [me, SStr(t)], {"defaultns": dns})
                I.oblige("no_raise", out.returned)
                if not out.returned:
                    return
                nsnum, partial, full = out.value
                I.oblige("number_is_a_namespace_of_the_site", isinstance(nsnum, int) and str(nsnum) in si["namespaces"])
                if not (isinstance(nsnum, int) and str(nsnum) in si["namespaces"]):
                    return
                local = si["namespaces"][str(nsnum)]["*"]
                want = z3.Concat(z3.StringVal(local + ":"), z3_of(partial)) if local else z3_of(partial)
                I.oblige("full_is_local_name_colon_partial", z3_of(full) == want)
                if not calls.get("looked_up"):
                    # no ':' in the cleaned title: default namespace, or main namespace after a leading colon
                    # (_strip_edges runs once for the whole title and once more for the text behind a leading colon)
                    leading_colon = calls.get("strips", 0) >= 2
                    I.oblige("without_a_prefix_the_default_namespace_or_main_after_a_leading_colon", nsnum == (0 if leading_colon else dns))
            chk.prove(f"nshandling.NsHandler.splitname[{lang},default {dns}]", harness, ex, targets=[fn], replay=replay_assembly)


def p_maybe_capitalize(chk):
    """NsHandler.maybe_capitalize for any title text, any namespace of the en site (per-namespace case setting) and both
    site-wide settings: the result is the text itself or the text with its first character replaced by that character's
    one-character upper case; never longer or shorter, the rest untouched; unchanged when the namespace is case-sensitive"""
    import z3
    from pyvc import source, models
    from pyvc.interp import Explorer
    from pyvc.values import PObj, SStr, ClassRef, z3_of
    mod = source.module(NSH)
    cls = ClassRef(mod.defs["NsHandler"], mod)
    si = dict(sites())["en"]
    ex = Explorer()
    fn = ex.function(NSH, "NsHandler.maybe_capitalize")

    def harness(I):
        t = I.fresh("tag", z3.StringSort())
        I.inputs["tag"] = t
        cap = bool(I.decide(I.fresh("site_capitalizes", z3.BoolSort())))
        ns = [None, 0, 10, 2300][I.choose(4, "namespace")]
        me = PObj(cls, {"siteinfo": si, "capitalize": cap})
        out = ex.run_function(I, fn, [me, SStr(t)] + ([ns] if ns is not None else []))
        I.oblige("no_raise", out.returned)
        if not out.returned:
            return
        r = z3_of(out.value)
        I.oblige("same_length", z3.Length(r) == z3.Length(t))
        I.oblige("rest_of_the_title_untouched", z3.SubString(r, 1, z3.Length(r) - 1) == z3.SubString(t, 1, z3.Length(t) - 1))
        case = None if ns is None else si["namespaces"][str(ns)].get("case")
        wants = cap if case is None else (case == "first-letter")
        if not wants:
            I.oblige("unchanged_where_the_site_or_namespace_is_case_sensitive", r == t)
    chk.prove("nshandling.NsHandler.maybe_capitalize", harness, ex, targets=[fn], replay=replay_assembly)


def replay_assembly(model, obligation):
    n, distinct, fail = bounded_run("quick")
    if fail:
        return True, fail["witness"], fail["class"]
    return False, {"titles": n}, None
