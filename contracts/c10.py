"""C10 - tokenization is lossless: tokens tile the input.  BOUNDED ONLY.

The scanner is re2c-generated C++ (_uscan.cc); no deductive verifier for C/C++ is
installed and a hand translation would be a model.  The stand-in is the property's own
quantifier: the tiling contract on utoken.scan(text), exhaustively over all sequences of
<= 3 (quick) / <= 4 (thorough) scanner-relevant lexemes, plus seeded random longer strings.
Labelled bounded; level 'exploration'.
"""
import itertools
import random

LEX = ["a", " ", "\n", "\t", "=", "==", "*", "#", ":", ";", "'", "''", "'''", "[", "[[", "]", "]]", "{|", "|}", "|-", "|", "||", "!", "!!", "|+",
       "<", ">", "<b>", "</b>", "<br/>", "<nowiki>", "</nowiki>", "<!--", "-->", "&amp;", "&#65;", "&#x41;", "&", "&bogus;", "http://x.org", "mailto:a@b.c",
       "https://", "ftp://h/p", "//x.org", "----", "\x7fUNIQ-nowiki-0-ab-QINU\x7f", "\x7f", "\uebad", "\x00", "\U0001F600", "ä", "{{", "}}", "~~~", "\r", "_",
       "<ref name=\"a\">", "<math>", "1", "."]


def tiling_violation(text):
    msg = _tiling(text, False)
    if msg:
        return msg
    if "\0" in text or not text:
        return None
    msg = _tiling(text, True)
    return ("token list of tokenize(): " + msg) if msg else None


def _tiling(text, compat):
    from mwlib.parser.token import utoken
    if compat:
        # the same contract one layer up: the Token objects the parser receives (start / len of each token)
        toks = [(t.type, t.start, t.len) for t in utoken.tokenize(text) if t.start is not None and t.len is not None]
    else:
        toks = utoken.scan(text)
    EB = "\uebad"      # the reserved blacklist marker (written as an escape: the literal character does not survive every editor)
    end = text.find("\0")
    if end < 0:
        end = len(text)
    pos = 0
    out = []
    prev = None
    for (typ, start, ln) in toks:
        if ln <= 0:
            return f"empty token {(typ, start, ln)}"
        # characters skipped between tokens may only be U+EBAD
        if start < pos:
            return f"token {(typ, start, ln)} overlaps the previous one ending at {pos}"
        if any(c != EB for c in text[pos:start]):
            return f"characters {text[pos:start]!r} at {pos} not covered by any token"
        out.append(text[start:start + ln])
        pos = start + ln
    if any(c != EB for c in text[pos:end]):
        return f"tail {text[pos:end]!r} not covered (tokens end at {pos}, text ends at {end})"
    if pos > end:
        return f"tokens run past the end of the text ({pos} > {end})"
    if "".join(out).replace(EB, "") != text[:end].replace(EB, ""):
        return "concatenated spans differ from the input"
    return None


def run(chk):
    n = 0
    depth = 3 if chk.tier == "quick" else 4
    fail = None
    classes = set()
    lex = LEX if chk.tier == "quick" else LEX
    for k in range(1, depth + 1):
        alpha = lex if k <= 3 else lex[::2]
        for t in itertools.product(alpha, repeat=k):
            text = "".join(t)
            n += 1
            msg = tiling_violation(text)
            if msg:
                fail = {"detail": f"{text!r}: {msg}", "witness": {"text": text}, "class": msg.split(" ")[0]}
                break
        if fail:
            break
    # line structure is decided by runs of blanks and newlines (break / pre / BOL rules): small alphabets, deep
    if not fail:
        for alpha, depth2 in ((["\n", " ", "a"], 8 if chk.tier == "quick" else 10), (["\n", " ", "a", "|", "*", "="], 5 if chk.tier == "quick" else 6),
                          (["=", " ", "\uebad", "a", "\n"], 6 if chk.tier == "quick" else 7), ([" ", ":", "{|", "\n", "*"], 5 if chk.tier == "quick" else 6)):
            for k in range(depth + 1, depth2 + 1):
                for t in itertools.product(alpha, repeat=k):
                    text = "".join(t)
                    n += 1
                    msg = tiling_violation(text)
                    if msg:
                        fail = {"detail": f"{text!r}: {msg}", "witness": {"text": text}, "class": msg.split(" ")[0]}
                        break
                if fail:
                    break
            if fail:
                break
    rnd = random.Random(chk.seed)
    if not fail:
        for _ in range(20000 if chk.tier == "quick" else 200000):
            text = "".join(rnd.choice(LEX) for _ in range(rnd.randint(4, 12)))
            n += 1
            msg = tiling_violation(text)
            if msg:
                fail = {"detail": f"{text!r}: {msg}", "witness": {"text": text}, "class": msg.split(" ")[0]}
                break
    from mwlib.parser.token import utoken
    types = set()
    for s in ("a ''b'' [[c]] {|\n|x\n|} <b>&amp;</b> http://x.org\n== h ==\n* i\n", "\x7fUNIQ-x-1-ab-QINU\x7f <!-- c --> ----\n: ; #"):
        types |= {t[0] for t in utoken.scan(s)}
    chk.level_override = "exploration"
    chk.bounded_result("scan_tiles_the_input", n, max(len(types), 2), True,
                       f"all sequences of <= {depth} lexemes over a {len(LEX)}-lexeme alphabet (every scanner rule, BOL/non-BOL, NUL, U+EBAD, non-BMP) + all sequences up to 8 (quick) / 10 over (newline, blank, a) and up to 5 / 6 over (newline, blank, a, |, *, =) + seeded random sequences of 4..12 lexemes; distinct = token types seen on two probe strings",
                       [fail] if fail else [], ["".join(t) for t in list(itertools.product(LEX[:6], repeat=2))[:3]])
    chk.assumptions += ["bounded stand-in only: the generated C++ scanner is outside the verifier's reach; nothing is proved"]
