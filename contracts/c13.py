"""C13 - metabooks round-trip through JSON; collection ids are deterministic (DESIGN 3/C13)."""
import ast

import z3

from pyvc import source
from pyvc.interp import Explorer
from pyvc.values import PObj, ClassRef, SStr, SInt, kind_of

METABOOK = "mwlib/core/metabook.py"
MYJSON = "mwlib/utils/myjson.py"
NSERVE = "mwlib/core/nserve.py"


def p_json_method(chk):
    """MetabookObject._json (real code): {type: class name} plus exactly the attributes that
    are not None and whose name does not start with '_'"""
    ex = Explorer()
    fn = ex.function(METABOOK, "MetabookObject._json")
    mod = source.module(METABOOK)

    def harness(I):
        cls = ClassRef(mod.defs["Article"], mod)
        fields = {}
        present = {}
        for k in ("title", "displaytitle", "revision", "_env", "type", "items"):
            if I.decide(I.sym_bool(f"{k}_is_none").z):
                fields[k] = None
            else:
                fields[k] = I.sym_str(k) if k != "items" else [I.sym_str("item0")]
        obj = PObj(cls, fields)
        out = ex.run_function(I, fn, [obj])
        I.oblige("no_raise", out.returned)
        res = out.value
        I.oblige("returns_dict", isinstance(res, dict))
        want = {k for k, v in fields.items() if v is not None and not k.startswith("_")} | {"type"}
        I.oblige("keys_are_type_plus_public_non_none_attributes", set(res.keys()) == want)
        for k in want:
            if k == "type" and fields.get("type") is None:
                I.oblige("type_is_class_name", res["type"] == "Article")
            else:
                I.oblige("values_passed_through_unchanged", res[k] is fields[k])

    chk.prove("metabook.MetabookObject._json", harness, ex, targets=[fn])


def p_static(chk):
    mb = source.module(METABOOK)
    dumps = ast.unparse(mb.find("Collection.dumps"))
    chk.static("metabook.Collection.dumps.sort_keys", "sort_keys=True" in dumps and "myjson.dumps(self" in dumps, dumps.split("\n")[-1].strip())
    cs = ast.unparse(mb.find("calc_checksum"))
    chk.static("metabook.calc_checksum_is_sha256_of_dumps", "sha256(metabook.dumps().encode('utf-8')).hexdigest()" in cs, cs.split("\n")[-1].strip())
    # object_hook: dispatch table covers exactly the metabook classes, constructed with klass(**dict)
    oh = source.module(MYJSON).find("object_hook")
    table = None
    for n in ast.walk(oh):
        if isinstance(n, ast.Dict) and len(n.keys) >= 6:
            table = {k.value: v.value for k, v in zip(n.keys, n.values)}
    classes = {n.name for n in mb.tree.body if isinstance(n, ast.ClassDef) and any(
        (isinstance(b, ast.Name) and b.id in ("MetabookObject",)) for b in n.bases)}
    chk.static("myjson.object_hook.table_covers_every_metabook_class",
               table is not None and set(table.values()) == classes and all(k == v.lower() for k, v in table.items()),
               f"table={table} classes={sorted(classes)}")
    src = ast.unparse(oh)
    chk.static("myjson.object_hook.constructs_with_all_keys", "klass(**sanitized_dict)" in src and "sanitized_dict[str(k)] = value" in src, "klass(**sanitized_dict)")
    lo = ast.unparse(source.module(MYJSON).find("loads"))
    chk.static("myjson.loads_builds_fresh_objects_on_every_call",
               lo.strip().endswith("return json.loads(data, object_hook=object_hook)") and not source.module(MYJSON).find("loads").decorator_list,
               "loads(data) is json.loads(data, object_hook=object_hook), undecorated")
    # per-instance copies of the class-level defaults (no shared item lists)
    init = ast.unparse(mb.find("MetabookObject.__init__"))
    chk.static("metabook.defaults_are_deep_copied_per_instance", "self.__dict__.update(copy.deepcopy(type_names))" in init, "copy.deepcopy of class defaults")
    # make_collection_id: reads-frame - which request fields reach the hash
    fn = source.module(NSERVE).find("make_collection_id")
    hashed, logged = set(), set()
    for n in ast.walk(fn):
        if isinstance(n, ast.For) and isinstance(n.iter, ast.Tuple):
            keys = [e.value for e in n.iter.elts if isinstance(e, ast.Constant)]
            if "sio.write(repr(data.get(key)))" in ast.unparse(n):
                hashed.update(keys)
        if isinstance(n, ast.Call) and ast.unparse(n.func) == "data.get" and isinstance(n.args[0], ast.Constant):
            logged.add(n.args[0].value)
    src = ast.unparse(fn)
    ok = hashed == {"base_url", "script_extension", "login_credentials"} and "sio.write(calc_checksum(mbobj))" in src \
        and "sio.write(str(_version.version))" in src and src.count("sio.write(") == 3 \
        and "return sha256(sio.getvalue().encode('utf-8')).hexdigest()[:16]" in src
    chk.static("nserve.make_collection_id.reads_frame", ok,
               f"hashed request fields: {sorted(hashed)} + checksum(metabook) + version; other data.get keys (log line only): {sorted(logged - {'metabook'})}")


# ----------------------------------------------------------------------------- bounded
def gen_metabook(rnd):
    from mwlib.core import metabook as M
    # optional fields absent, present, or present as an explicit null (what a JSON client may send)
    c = M.Collection(title=rnd.choice([None, "T", "Ünï 中"]), subtitle=rnd.choice([None, "s"]),
                     **rnd.choice([{}, {}, {"version": None}, {"summary": None}, {"summary": "S"}]))
    if rnd.random() < 0.5:
        c.wikis.append(M.WikiConf(baseurl="http://w.org/", ident="w"))
    for _ in range(rnd.randint(0, 6)):
        if rnd.random() < 0.25:
            ch = M.Chapter(title=rnd.choice(["Ch", "Kap ä"]))
            for _ in range(rnd.randint(0, 3)):
                ch.items.append(M.Article(title="A%d" % rnd.randint(0, 99), revision=rnd.choice([None, "12", "7"])))
            c.items.append(ch)
        else:
            c.items.append(M.Article(title=rnd.choice(["X", "Ärger", "中文", "A b"]) + str(rnd.randint(0, 9)),
                                     displaytitle=rnd.choice([None, "D"]), revision=rnd.choice([None, "3"]),
                                     **rnd.choice([{}, {}, {"content_type": None}])))
    return c


def tree(o):
    if hasattr(o, "_json"):
        return {k: tree(v) for k, v in o._json().items()}
    if isinstance(o, (list, tuple)):
        return [tree(x) for x in o]
    if isinstance(o, dict):
        return {k: tree(v) for k, v in o.items()}
    return o


def bounded(chk):
    import json, random
    from mwlib.core import metabook as M, nserve
    from mwlib.utils import myjson
    rnd = random.Random(chk.seed)
    n = 300 if chk.tier == "quick" else 3000
    fails = []
    shapes = set()
    for i in range(n):
        c = gen_metabook(rnd)
        s = c.dumps()
        c2 = myjson.loads(s)
        shapes.add((len(c.items), sum(1 for x in c.items if x.type == "Chapter")))
        if tree(c2) != tree(c):
            fails.append({"detail": f"loads(dumps(m)) differs: {tree(c)} vs {tree(c2)}", "witness": {"metabook": s}, "class": "roundtrip"})
            break
        if c2.dumps() != s:
            fails.append({"detail": "dumps is not a fixed point", "witness": {"metabook": s}, "class": "fixpoint"})
            break
        c3 = myjson.loads(s)
        c3.append_article("Mutated copy")
        c3.wikis.append(M.WikiConf(baseurl="http://other/", ident="o"))
        if myjson.loads(s).dumps() != s:
            fails.append({"detail": "editing one loaded copy shows up in a later loads() of the same text (shared objects)", "witness": {"metabook": s}, "class": "aliasing-between-loads"})
            break
        if c.items and c2.items is c.__class__.items:
            fails.append({"detail": "items list shared with the class default", "witness": {"metabook": s}, "class": "aliasing"})
            break
        req = {"metabook": s, "base_url": "http://w.org/w/", "script_extension": ".php", "login_credentials": None, "writer": "rl"}
        import io, contextlib
        with contextlib.redirect_stdout(io.StringIO()):
            cid = nserve.make_collection_id(req)
            d = json.loads(s)
            shuffled = json.dumps(dict(reversed(list(d.items()))), indent=None, separators=(",", ":"))
            cid2 = nserve.make_collection_id(dict(req, metabook=shuffled, writer="odf"))
            cid3 = nserve.make_collection_id(dict(req, base_url="http://w.org/x/"))
            changed = M.Collection(**{k: v for k, v in myjson.loads(s).__dict__.items() if k != "type"})
            changed.items = list(changed.items) + [M.Article(title="Extra")]
            cid4 = nserve.make_collection_id(dict(req, metabook=changed.dumps()))
        if cid != cid2:
            fails.append({"detail": "id differs under key order / whitespace / writer", "witness": {"metabook": s}, "class": "id-not-invariant"})
            break
        if cid in (cid3, cid4) or len(cid) != 16:
            fails.append({"detail": "id does not change with base_url / an added article", "witness": {"metabook": s}, "class": "id-collision"})
            break
    chk.bounded_result("generated_metabooks_through_real_json", n, len(shapes), False,
                       "generated metabooks (0..6 items, chapters, optional fields, Unicode titles): loads(dumps) tree equality, dumps fixed point, no shared default lists, id invariant under key order/whitespace/writer, id changes with base_url / added article",
                       fails)


def run(chk):
    p_json_method(chk)
    p_static(chk)
    bounded(chk)
    chk.assumptions += [
        "json.dumps(sort_keys=True) is a function of the value; json.loads inverts it on JSON values (library contract)",
        "sha256 and its 16-hex truncation are treated as injective (cryptographic assumption); repr of str/None is a prefix code",
        "MetabookObject.__init__ (reflection over dir()/getattr/deepcopy) is covered by the bounded stand-in and the static deep-copy obligation, not by a discharged contract",
    ]
