"""C03 - template expansion always terminates with a string (DESIGN 3/C03)."""
import z3

from pyvc.interp import Explorer, LoopSpec, SymRaise, Undecided
from pyvc.values import PObj, SInt, SBool, Model, ExcClass, ExcVal, SList, z3_of

EVAL = "mwlib/parser/templ/evaluate.pyx"
MAGICS = "mwlib/parser/templ/magics.py"


# ---------------------------------------------------------------------------- P1 recursion counter of flatten
def p1_flatten(chk):
    ex = Explorer()
    fn = ex.function(EVAL, "flatten")
    TR = None

    class Res(PObj):
        def __init__(self, I):
            super().__init__("reslist", {})
            self.length = I.sym_int("len_res").z
            self.touched = False
    ex.len_hooks["reslist"] = lambda I, r: SInt(r.length)

    def res_append(I, r, v):
        r.length = r.length + 1
        r.touched = True
    ex.methods[("reslist", "append")] = Model("list.append", res_append)

    def res_del(I, r, idx):
        if not (isinstance(idx, tuple) and idx[0] == "__slice__" and idx[2] is None and idx[3] is None):
            raise Undecided("del res[...] shape")
        lo = I._int_term(idx[1])
        # del res[lo:] with 0 <= lo: the list is cut back to min(len, lo) elements
        r.length = z3.If(lo < r.length, lo, r.length)
        r.truncated_to = lo
    ex.delitem_hooks["reslist"] = res_del

    def callee_effect(I, expander, res):
        """contract shared by node.flatten(...) and the recursive flatten(...) call: may append
        to res, may raise anything (incl. TemplateRecursion), leaves recursion_count as found"""
        I.ghost.setdefault("callee_counts", []).append(expander.fields["recursion_count"])
        n = I.fresh("appended", z3.IntSort())
        I.assume(n >= 0)
        res.length = res.length + n
        k = I.choose(3, "callee_outcome")
        if k == 1:
            raise SymRaise(ExcVal(I.module_global(fn.module, "TemplateRecursion"), []))
        if k == 2:
            raise SymRaise(ExcVal(I.exc_class("RuntimeError"), []))

    def flatten_contract(I, node, expander, variables, res):
        callee_effect(I, expander, res)
        variables.fields["count"] = I.fresh_int("count")
        return I.fresh_bool("flat")
    ex.contracts[fn.ident] = flatten_contract

    def node_flatten(I, node, expander, variables, res):
        callee_effect(I, expander, res)
        variables.fields["count"] = I.fresh_int("count")
        return None
    ex.methods[("tnode", "flatten")] = Model("Node.flatten (callee contract)", node_flatten)

    def harness(I):
        c0 = I.sym_int("recursion_count")
        lim = I.sym_int("recursion_limit")
        I.assume(c0.z >= 0)
        expander = PObj("expander", {"recursion_count": c0, "recursion_limit": lim})
        variables = PObj("variables", {"count": I.sym_int("var_count")})
        res = Res(I)
        len0 = res.length
        shape = I.choose(4, "node_shape")
        if shape == 0:
            node = I.sym_str("text")
        elif shape == 1:
            node = PObj("tnode", {})
        elif shape == 2:
            node = [PObj("tnode", {}), I.sym_str("t"), [PObj("tnode", {})]]
        else:
            node = ()
        out = ex.run_function(I, fn, [node, expander, variables, res])
        c1 = expander.fields["recursion_count"]
        I.oblige("counter_restored_on_every_exit", I.eq_term(c1, c0), meta={"exit": out.kind})
        calls = I.ghost.get("callee_counts", [])
        if shape != 0:
            over = c0.z > lim.z
            if I.decide(over):
                I.oblige("over_limit_raises_TemplateRecursion", out.raised("TemplateRecursion"))
                I.oblige("over_limit_runs_no_callee", len(calls) == 0)
                I.oblige("over_limit_leaves_result_untouched", I.eq_term(SInt(res.length), SInt(len0)))
            else:
                for k, cc in enumerate(calls):
                    I.oblige("callees_run_one_level_deeper", I.eq_term(cc, SInt(c0.z + 1)))
                    I.oblige("nesting_bounded_by_limit_plus_one", z3_of(cc) <= lim.z + 1)
                if out.raised("TemplateRecursion"):
                    I.oblige("recursion_error_propagates_only_below_the_outermost_call", c0.z + 1 > 2)
                if out.returned and getattr(res, "truncated_to", None) is not None:
                    # the outermost call swallowed the recursion error: it yields nothing
                    I.oblige("swallowed_recursion_yields_nothing", I.eq_term(SInt(res.length), SInt(len0)))
                    I.oblige("swallowed_only_at_the_outermost_call", c0.z + 1 <= 2)
        else:
            I.oblige("text_node_appended", I.eq_term(SInt(res.length), SInt(len0 + 1)))
            I.oblige("text_node_returns_True", out.returned and out.value is True)

    def replay(model, obligation):
        return None, model, None

    chk.prove("evaluate.flatten", harness, ex, targets=[fn], replay=replay)


# ---------------------------------------------------------------------------- P2 dispatch arity (static, from the real classes)
def p2_arity(chk):
    import inspect
    from mwlib.parser.templ import magics
    r = magics.MagicResolver(pagename="X")
    names = [n for n in dir(r) if n == n.upper() and not n.startswith("_")]
    n_callable = 0
    for n in sorted(names):
        f = getattr(r, n)
        if isinstance(f, str) or not callable(f):
            continue
        n_callable += 1
        try:
            inspect.signature(f, follow_wrapped=False).bind(["x"])
            ok, why = True, ""
        except TypeError as e:
            ok, why = False, str(e)
        witness = None
        reproduced = None
        if not ok:
            witness, reproduced = replay_magic(n.lstrip("#"))
        chk.static(f"magics.MagicResolver.__call__.arity[{n}]", ok,
                   f"method_to_invoke(args) with the callee {n}{_sig(f)}: {why}", witness, "arity", reproduced)
    chk.extra["magic_callees_checked"] = n_callable
    if n_callable < 60:
        chk.crashes.append(f"only {n_callable} magic callees found")


def _sig(f):
    import inspect
    try:
        return str(inspect.signature(f, follow_wrapped=False))
    except (TypeError, ValueError):
        return "(?)"


class _DB:
    """a wikidb meeting the interface precondition of the expander (no pages)"""

    def __init__(self):
        from mwlib.core import nshandling
        from mwlib.network import siteinfo
        self.nshandler = nshandling.NsHandler(siteinfo.get_siteinfo("en"))

    templates = {}       # title -> text (template universes with cycles)

    def normalize_and_get_page(self, title, defaultns):
        ns, partial, full = self.nshandler.splitname(title, defaultns)
        if ns == 10 and partial in self.templates:
            from contracts.docs import Page
            return Page(self.templates[partial])
        return None

    def get_url(self, *a, **k):
        return None

    def get_siteinfo(self):
        from mwlib.network import siteinfo
        return siteinfo.get_siteinfo("en")


def replay_magic(name, args=""):
    from mwlib.parser.expander import Expander
    txt = "{{" + name + args + "}}"
    try:
        out = Expander(txt, pagename="X", wikidb=_DB()).expandTemplates()
        if not isinstance(out, str):
            return {"wikitext": txt, "returned": repr(out)}, True
        return {"wikitext": txt, "returned": out[:80]}, False
    except Exception as e:  # noqa: BLE001
        return {"wikitext": txt, "raised": f"{type(e).__name__}: {e}"[:200]}, True


# ---------------------------------------------------------------------------- bounded stand-in: every registered name x 0..3 args x shapes
SHAPES = ["", "word", "0", "7", "-3", "99999999999", "1.5", "1e9", "1e999999999", "a/b/c", "{{lc:X}}", "1e999", "nan", "-inf", "1" * 400,
          "../../../../x", "..", "./../y"]


class _NotTerminated(BaseException):
    pass


def _watchdog(signum, frame):
    raise _NotTerminated()


def _one(txt):
    import logging, signal, time
    logging.disable(logging.CRITICAL)
    from mwlib.parser.expander import Expander
    t = time.process_time()
    old = signal.signal(signal.SIGALRM, _watchdog)
    signal.setitimer(signal.ITIMER_REAL, 10.0, 1.0)     # repeating: a swallowed alarm comes again
    try:
        out = Expander(txt, pagename="Some/Page", wikidb=_DB()).expandTemplates()
    except _NotTerminated:
        return txt, "not finished after 10 s"
    except BaseException as e:  # noqa: BLE001
        return txt, f"raised {type(e).__name__}: {e}"[:200]
    finally:
        signal.setitimer(signal.ITIMER_REAL, 0)
        signal.signal(signal.SIGALRM, old)
    dt = time.process_time() - t
    if not isinstance(out, str):
        return txt, f"returned {type(out).__name__}"
    if dt > 2.0:
        return txt, f"cpu {dt:.1f}s"
    if len(out) > 10**4 * (1 + len(txt)):
        return txt, f"output {len(out)} chars for {len(txt)} chars of input"
    return txt, None


def bounded(chk):
    import itertools
    from concurrent.futures import ProcessPoolExecutor
    from mwlib.parser.templ import magics
    r = magics.MagicResolver(pagename="X")
    names = sorted(n for n in dir(r) if n == n.upper() and not n.startswith("_"))
    # parser functions implemented as node classes are registered in a second table
    import mwlib.parser.expander  # noqa: F401 - resolves the import cycle of the templ package
    from mwlib.parser.templ import magic_nodes
    names = sorted(set(names) | {k.upper() for k in magic_nodes.registry})
    maxargs = 2 if chk.tier == "quick" else 3
    cases = []
    for n in names:
        nm = n.lower()
        sep = ":" if nm.startswith("#") or nm in ("padleft", "padright", "lc", "uc", "ns", "urlencode", "titleparts") else ":"
        cases.append("{{" + nm + "}}")
        for k in range(1, maxargs + 1):
            for combo in itertools.product(SHAPES if k < 3 else SHAPES[:6], repeat=k):
                cases.append("{{" + nm + sep + "|".join(combo) + "}}")
    # functions with their own code table: every code of the table, alone and behind the 'xr' prefix
    from mwlib.parser.templ import magic_time
    for code in sorted(magic_time.CODENAMES):
        for date in ("", "2001-01-01", "5000", "0", "99999", "9999-12-31", "12:00", "-1"):
            for fmt in (code, "xr" + code):
                cases.append("{{#time:" + fmt + ("|" + date if date else "") + "}}")
    # cycles that pass through the arguments of a parser function twice per round: the recursion guard must unwind
    # to the outermost call (a function that swallows it turns the cycle into exponential work)
    cyc = {}
    for n_ in names:
        nm = n_.lower()
        if nm.startswith("#") or nm in ("lc", "uc", "padleft", "urlencode", "ns", "formatnum", "plural", "fullurl"):
            key = "Cyc" + "".join(ch for ch in nm if ch.isalnum())
            cyc[key] = "{{" + nm + ":{{" + key + "}}|{{" + key + "}}|{{" + key + "}}}}"
            cases.append("{{" + key + "}}")
    _DB.templates = cyc
    # template universes with cycles are part of the thorough tier only
    failures = []
    with ProcessPoolExecutor(max_workers=12) as pool:
        for txt, bad in pool.map(_one, cases, chunksize=200):
            if bad:
                failures.append({"detail": f"{txt!r}: {bad}", "witness": {"wikitext": txt, "problem": bad},
                                 "class": bad.split(":")[0].split(" ")[0] + ":" + txt.split(":")[0].strip("{}")})
    dedup = {}
    for f in failures:
        dedup.setdefault(f["class"], f)
    chk.bounded_result("every_registered_name_x_args", len(cases), len(cases), True,
                       f"{len(names)} registered names (built-in and dummy) x 0..{maxargs} arguments x {len(SHAPES)} shapes, every #time format code, and for every parser function a template that includes itself through three of that function's arguments; contract: returns str, cpu <= 2 s, len(out) <= 1e4*(1+len(in))",
                       list(dedup.values()), cases[:3] + cases[-2:])


def p6_rel2abs(chk):
    """#rel2abs: for any relative path and base title the helper returns a string; it never raises (a '..' above the
    root included)"""
    import z3
    from pyvc.interp import Explorer
    from pyvc.values import SStr
    MN = "mwlib/parser/templ/magic_nodes.py"
    ex = Explorer()
    fn = ex.function(MN, "_rel2abs")

    def harness(I):
        out = ex.run_function(I, fn, [I.fresh_str("rel"), I.fresh_str("base")])
        I.oblige("no_raise" if out.returned else f"no_raise[{out.exc!r}]", out.returned)
        if out.returned:
            I.oblige("returns_a_string", isinstance(out.value, (str, SStr)))
    chk.prove("magic_nodes._rel2abs", harness, ex, targets=[fn], replay=replay_rel2abs)


def replay_rel2abs(model, obligation):
    from mwlib.parser.templ import magic_nodes
    import mwlib.parser.expander  # noqa: F401
    for base in ("", "A", "Help:Foo/bar/baz", "/", "a//b", "A/"):
        for rel in ("", ".", "..", "../", "../..", "../../../../quok", "./x", "/x", "x", "../../sibling", "/../..", "./../../..", "a/../../..", "//", "/./.", "..x", ".../y"):
            try:
                v = magic_nodes._rel2abs(rel, base)
            except Exception as e:  # noqa: BLE001
                return True, {"call": f"_rel2abs({rel!r}, {base!r})", "wikitext": "{{#rel2abs: %s | %s }}" % (rel, base), "raised": f"{type(e).__name__}: {e}"}, "rel2abs"
            if not isinstance(v, str):
                return True, {"call": f"_rel2abs({rel!r}, {base!r})", "returned": repr(v)}, "rel2abs"
    return False, {"cases": 102}, None


def bounded_limits(chk):
    """page texts at the expander's own limits: braces nested deeper than the interpreter's stack, arguments / names
    beyond the 256 KiB cap (directly, or built by a handful of argument-doubling templates)"""
    cases = [("332 unclosed '{{a|'", "{{a|" * 332), ("249 nested '{{a|..}}'", "{{a|" * 249 + "x" + "}}" * 249),
             ("331 nested '{{{..}}}'", "{{{" * 331 + "x" + "}}}" * 331), ("249 nested '{{lc:..}}'", "{{lc:" * 249 + "x" + "}}" * 249),
             ("495 nested '{{#if:1|..}}'", "{{#if:1|" * 495 + "x" + "}}" * 495), ("2000 unclosed '{{{'", "{{{" * 2000),
             ("600 nested '[[..]]' in a template argument", "{{a|" + "[[" * 600 + "x" + "]]" * 600 + "}}"),
             ("{{lc:<300000 x>}}", "{{lc:" + "x" * 300000 + "}}"), ("{{T|<300000 x>}}", "{{T|" + "x" * 300000 + "}}"),
             ("{{lc:{{d18|x}}}} with 19 argument-doubling templates", "{{lc:{{d18|x}}}}")]
    saved = _DB.templates
    _DB.templates = dict({f"d{i}": "{{d%d|{{{1}}}{{{1}}}}}" % (i - 1) for i in range(1, 19)}, d0="{{{1}}}{{{1}}}", T="t {{{1}}}")
    fails = {}
    try:
        for name, txt in cases:
            _t, bad = _one(txt)
            if bad:
                cls = "limits:" + bad.split(":")[0].replace("raised ", "")
                fails.setdefault(cls, {"detail": f"{name}: {bad}", "witness": {"wikitext": txt if len(txt) < 300 else name, "problem": bad}, "class": cls})
    finally:
        _DB.templates = saved
    chk.bounded_result("page_texts_at_the_expander_limits", len(cases), len(cases), True,
                       "10 page texts: braces / links nested 249..2000 deep, open or closed; arguments and names beyond the 256 KiB cap, written out or built by 19 doubling templates; contract as above",
                       list(fails.values()))


def run(chk):
    p1_flatten(chk)
    p2_arity(chk)
    p3_expr_resources(chk)
    p4_recursion_transparency(chk)
    p5_time_postprocessor(chk)
    p6_rel2abs(chk)
    # no regular expression of the expander backtracks exponentially (one parser-function call = work in proportion to
    # its arguments): the decision procedure of C01, on the patterns compiled in parser/templ/
    from contracts import c01
    c01.p4_regex_ambiguity(chk, only=lambda where: where.startswith("parser/templ/") or where.startswith("parser/expander"))
    bounded(chk)
    bounded_limits(chk)
    chk.assumptions += [
        "Node.flatten implementations (nodes.pyx) satisfy the callee contract used for flatten's proof: they change recursion_count only through nested flatten calls",
        "compiled evaluate.pyx behaves as its source read as Python (no cdef in flatten)",
    ]


# ---------------------------------------------------------------------------- P3 resource contracts of the #expr operators
EXPR = "mwlib/parser/expr.py"


def p3_expr_resources(chk):
    """every operator function of the #expr table, on arbitrary int / float operands: work
    is bounded by the size of the operands.  Resource preconditions of the builtins that can
    do work exponential in the *value* of an operand:
      int ** int     requires |exponent| <= 4096 (or the base in {-1, 0, 1})
      round(x, d)    requires d >= -4096 or d >= -(number of digits of x + 2)
    (float arithmetic is O(1); math.* may raise OverflowError / ValueError, reported inline)"""
    import ast
    import z3
    from pyvc import source
    from pyvc.values import SInt, SReal, SStr, Closure, kind_of, z3_of
    mod = source.module(EXPR)
    ops = []
    for n in mod.tree.body:
        if isinstance(n, ast.Expr) and isinstance(n.value, ast.Call) and isinstance(n.value.func, ast.Name) and n.value.func.id in ("a", "addop"):
            c = n.value
            name = ast.unparse(c.args[0])
            fn = c.args[2]
            numargs = ast.literal_eval(c.args[3]) if len(c.args) > 3 else None
            ops.append((name, fn, numargs))
    chk.static("expr.operator_table_found", len(ops) >= 30, f"{len(ops)} operators registered with addop")
    trusted_float = []
    for name, fn, numargs in ops:
        if isinstance(fn, ast.Attribute) and ast.unparse(fn).startswith("math."):
            trusted_float.append(name)       # C float functions: O(1)
            continue
        if isinstance(fn, ast.Name) and fn.id in ("abs", "int"):
            trusted_float.append(name)
            continue
        ex = Explorer()
        if isinstance(fn, ast.Lambda):
            clo = Closure(fn, mod, None, f"<operator {name}>")
            nargs = len(fn.args.args)
        elif isinstance(fn, ast.Name) and fn.id in mod.defs:
            clo = ex.function(EXPR, fn.id)
            ex.inline.add(clo.ident)
            nargs = len(mod.defs[fn.id].args.args)
            chk.under_contract(clo)
        else:
            chk.static(f"expr.op[{name}].function_resolved", False, f"cannot resolve operator function {ast.unparse(fn)}")
            continue

        def pow_hook(I, a, b, name=name):
            ka, kb = kind_of(a), kind_of(b)
            if ka in ("int", "bool") and kb in ("int", "bool"):
                x, y = I._int_term(a), I._int_term(b)
                I.oblige("pow_exponent_bounded_by_a_constant", z3.Or(z3.And(y <= 4096, y >= -4096), z3.And(x >= -1, x <= 1)))
                if I.decide(y >= 0):
                    return SInt(I.fresh("pow", z3.IntSort()))
            if I.decide(I.fresh("pow_overflows", z3.BoolSort())):
                I.throw("OverflowError", "(34, 'Numerical result out of range')")
            return SReal(I.fresh("powf", z3.RealSort()))
        ex.pow_hook = pow_hook
        from pyvc import models

        def b_round(I, x, d=None, name=name):
            if d is None:
                return SInt(I.fresh("rounded", z3.IntSort()))
            dz = I._int_term(d)
            if kind_of(x) in ("int", "bool"):
                xz = I._int_term(x)
                ndigits = z3.Length(models.str_of_int(z3.If(xz >= 0, xz, -xz)))
                I.oblige("round_digits_bounded_by_the_size_of_the_operand", z3.Or(dz >= -4096, dz >= -(ndigits + 2)))
                return SInt(I.fresh("rounded", z3.IntSort()))
            r = SReal(I.fresh("roundedf", z3.RealSort()))
            return r
        ex.models["builtins.round"] = Model("builtins.round (resource contract)", b_round)

        def m_pow(I, x, y):
            if I.decide(I.fresh("pow_overflows", z3.BoolSort())):
                I.throw("OverflowError", "math range error")
            return SReal(I.fresh("powf", z3.RealSort()))
        ex.models["math.pow"] = Model("math.pow (float, O(1), may raise OverflowError)", m_pow)
        ex.models["math.floor"] = Model("math.floor", lambda I, x: SInt(I.fresh("floor", z3.IntSort())))
        ex.models["math.ceil"] = Model("math.ceil", lambda I, x: SInt(I.fresh("ceil", z3.IntSort())))
        orig_int = ex.models["builtins.int"]

        def harness(I, clo=clo, nargs=nargs):
            args = []
            for k in range(nargs):
                if I.decide(I.sym_bool(f"arg{k}_is_int").z):
                    args.append(I.sym_int(f"arg{k}"))
                else:
                    args.append(I.sym_real(f"argf{k}"))
            saved = I.cur_target
            I.cur_target = getattr(clo, "ident", None)
            try:
                from pyvc.interp import SymRaise
                try:
                    I.call(clo, args, {}) if not isinstance(clo.node, ast.Lambda) else I.invoke(clo, args, {})
                except SymRaise as e:
                    # evaluator exceptions are turned into an error span by EXPR / IFEXPR
                    I.oblige("raises_only_arithmetic_errors", any(x in e.exc.cls.mro for x in ("ArithmeticError", "ValueError", "TypeError")),
                             meta={"exc": e.exc.cls.name})
            finally:
                I.cur_target = saved
            I.cover("end")

        chk.prove(f"expr.op[{name}]", harness, ex, replay=replay_expr_resource)
    chk.extra["expr_operators_trusted_as_O1_float_or_builtin"] = trusted_float


def replay_expr_resource(model, obligation):
    """run resource probes of every binary operator on the real evaluator under a cpu limit"""
    import subprocess, sys
    probes = []
    for op in ("^", "e", "round", "*", "+", "mod", "/", "div"):
        for a, b in (("7", "99999999"), ("5", "-9999999"), ("2", "999999999"), ("1.5", "99999999")):
            probes.append(f"{a} {op} {b}")
    code = ("import sys, time, resource; resource.setrlimit(resource.RLIMIT_CPU, (3, 3));\n"
            "from mwlib.parser import expr\n"
            "try:\n    expr.Expr().parse_expr(sys.argv[1])\nexcept Exception:\n    pass\n")
    for p in probes:
        r = subprocess.run([sys.executable, "-c", code, p], capture_output=True, text=True)
        if r.returncode != 0:
            return True, {"wikitext": "{{#expr: " + p + "}}", "problem": "more than 3 s cpu"}, "cpu"
    return False, {"probes": len(probes)}, None


# ---------------------------------------------------------------------------- P4 recursion errors are not swallowed by parser functions
def p4_recursion_transparency(chk):
    """TemplateRecursion / MemoryLimitError raised while a lazily expanded argument
    (index >= 1; index 0 is already a string) is evaluated must unwind to the outermost call:
    no magic / parser function may evaluate such an argument inside a catch-all handler."""
    import ast
    from pyvc import source
    mod = source.module(MAGICS)
    n_funcs = 0
    for cls in [n for n in mod.tree.body if isinstance(n, ast.ClassDef)]:
        for fn in [n for n in cls.body if isinstance(n, ast.FunctionDef)]:
            params = [a.arg for a in fn.args.args]
            if len(params) < 2:
                continue
            argname = params[1]
            n_funcs += 1
            bad = []
            for t in ast.walk(fn):
                if not isinstance(t, ast.Try):
                    continue
                broad = any(h.type is None or (isinstance(h.type, ast.Name) and h.type.id in ("Exception", "BaseException"))
                            or (isinstance(h.type, ast.Tuple) and any(isinstance(e, ast.Name) and e.id in ("Exception", "BaseException") for e in h.type.elts))
                            for h in t.handlers)
                if not broad:
                    continue
                for st in t.body:
                    for n in ast.walk(st):
                        lazy = None
                        if isinstance(n, ast.Subscript) and isinstance(n.value, ast.Name) and n.value.id == argname:
                            if not (isinstance(n.slice, ast.Constant) and n.slice.value == 0):
                                lazy = ast.unparse(n)
                        if isinstance(n, ast.Call) and isinstance(n.func, ast.Attribute) and isinstance(n.func.value, ast.Name) \
                                and n.func.value.id == argname and n.func.attr == "get":
                            if not (n.args and isinstance(n.args[0], ast.Constant) and n.args[0].value == 0):
                                lazy = ast.unparse(n)
                        if isinstance(n, (ast.For, ast.comprehension)) and isinstance(n.iter, ast.Name) and n.iter.id == argname:
                            lazy = "iteration over " + argname
                        if lazy:
                            bad.append((n.lineno, lazy))
            if bad:
                w, rep = replay_cycle(fn.name)
                chk.static(f"magics.{cls.name}.{fn.name}.lazy_arguments_outside_catch_all", False,
                           f"src/{MAGICS}: {[f'line {l}: {x}' for l, x in bad]} evaluated inside `except Exception`: a TemplateRecursion raised by the argument is swallowed",
                           w, f"{fn.name}", rep)
            else:
                chk.static(f"magics.{cls.name}.{fn.name}.lazy_arguments_outside_catch_all", True, "")
    chk.static("magics.functions_scanned", n_funcs >= 15, f"{n_funcs} magic / parser functions taking an argument list")
    # parser functions implemented as node classes (magic_nodes.py): their flatten methods expand the arguments
    # themselves (evaluate.flatten / <node>.flatten); such a call must not sit - directly or through a helper method
    # of the class - inside a catch-all handler
    mn = source.module("mwlib/parser/templ/magic_nodes.py")
    n_cls = 0
    for cls in [n for n in mn.tree.body if isinstance(n, ast.ClassDef)]:
        methods = {f.name: f for f in cls.body if isinstance(f, ast.FunctionDef)}

        def expands(node, seen=()):
            for n in ast.walk(node):
                if isinstance(n, ast.Call) and isinstance(n.func, ast.Attribute):
                    if n.func.attr == "flatten":
                        return True
                    if isinstance(n.func.value, ast.Name) and n.func.value.id == "self" and n.func.attr in methods and n.func.attr not in seen:
                        if expands(methods[n.func.attr], seen + (n.func.attr,)):
                            return True
            return False
        bad = []
        for f in methods.values():
            for t in ast.walk(f):
                if isinstance(t, ast.Try) and any(h.type is None or (isinstance(h.type, ast.Name) and h.type.id in ("Exception", "BaseException")) or
                                                  (isinstance(h.type, ast.Tuple) and any(isinstance(e, ast.Name) and e.id in ("Exception", "BaseException") for e in h.type.elts))
                                                  for h in t.handlers):
                    if any(expands(st) for st in t.body):
                        bad.append(f"{cls.name}.{f.name} line {t.lineno}")
        if "flatten" in methods:
            n_cls += 1
            chk.static(f"magic_nodes.{cls.name}.argument_expansion_outside_catch_all", not bad,
                       f"argument expansion inside `except Exception`: {bad}: a TemplateRecursion raised by the argument is swallowed" if bad else "",
                       {"class": cls.name, "sites": bad} if bad else None, cls.name, None)
    chk.static("magic_nodes.classes_scanned", n_cls >= 8, f"{n_cls} node classes with a flatten method")


def replay_cycle(fname):
    """a template cycle of fan-out 2 through the branches of the function: must unwind at once"""
    import subprocess, sys
    name = "#" + fname.lower()
    code = ("import sys, logging, resource; logging.disable(logging.CRITICAL); resource.setrlimit(resource.RLIMIT_CPU, (6, 6))\n"
            "sys.path.insert(0, '/verif')\n"
            "from contracts.c04 import TDB\nfrom mwlib.parser.expander import Expander\n"
            "t = '{{%s: 1 | {{loop}} | x }}{{%s: 0 | y | {{loop}} }}' % (sys.argv[1], sys.argv[1])\n"
            "out = Expander('a{{loop}}b', pagename='P', wikidb=TDB({'Loop': t})).expandTemplates()\n"
            "sys.exit(0 if out == 'ab' else 3)\n")
    r = subprocess.run([sys.executable, "-c", code, name], capture_output=True, text=True)
    if r.returncode != 0:
        return {"templates": {"Loop": "{{%s: 1 | {{loop}} | x }}{{%s: 0 | y | {{loop}} }}" % (name, name)}, "page": "a{{loop}}b",
                "problem": "does not unwind to 'ab' within 6 s cpu" if r.returncode < 0 or r.returncode > 3 else "wrong output"}, True
    return None, False


# ---------------------------------------------------------------------------- P5 #time: a format code's post-processor cannot abort the expansion
MTIME = "mwlib/parser/templ/magic_time.py"


def p5_time_postprocessor(chk):
    """_format_and_process_date applies `process_next` (the 'xr' roman-numeral conversion) to the text a
    format code produced, under `suppress(...)`.  Contract (C03: faulty input is reported inline, never by
    aborting): for any text produced by a format code the call returns."""
    import roman
    from pyvc.values import Closure, ExcClass, ExcVal
    from pyvc.interp import SymRaise
    ex = Explorer()
    fn = ex.function(MTIME, "_format_and_process_date")
    mro = [c.__name__ for c in roman.OutOfRangeError.__mro__ if c is not object]

    def to_roman(I, n):
        """contract of roman.toRoman (library, read from its source): int in 0..4999 -> numeral, otherwise
        OutOfRangeError - whose base classes are taken from the installed module"""
        t = I._int_term(n)
        if I.decide(z3.And(t >= 0, t <= 4999)):
            return I.fresh_str("numeral")
        raise SymRaise(ExcVal(ExcClass("OutOfRangeError", mro), ["number out of range (must be 0..4999)"]))
    ex.models["roman.toRoman"] = Model("roman.toRoman", to_roman)
    for cname in ("RomanError", "OutOfRangeError", "NotIntegerError", "InvalidRomanNumeralError"):
        c = getattr(roman, cname, None)
        if c is not None:
            ex.models["roman." + cname] = ExcClass(cname, [k.__name__ for k in c.__mro__ if k is not object])
    ex.inline_all = True

    def harness(I):
        codes = I.module_global(fn.module, "CODENAMES")
        xr = codes["xr"][1]
        res = I.fresh_str("text_of_the_next_format_code")
        I.inputs["text"] = res.z
        fmt = Model("a format code", lambda I2, d: res)
        tmp = []
        out = ex.run_function(I, fn, [fmt, PObj("date", {}), tmp, xr])
        I.oblige("returns_for_every_text_the_next_code_produces" if out.returned else f"returns_for_every_text_the_next_code_produces[{out.exc!r}]", out.returned)
        if out.returned:
            I.oblige("exactly_one_piece_appended", len(tmp) == 1)
    chk.prove("magic_time._format_and_process_date[xr]", harness, ex, targets=[fn], replay=replay_time)


def replay_time(model, obligation):
    for txt in ("{{#time:xrY|5000}}", "{{#time:xrU|2001-01-01}}", "{{#time:xrY|9999-01-01}}", "{{#time:xrj|2001-01-01}}", "{{#time:xrz|2001-01-01}}"):
        w, bad = replay_magic(txt[2:-2])
        if bad:
            return True, w, "time_postprocessor"
    return False, {"cases": 5}, None
