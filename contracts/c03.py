"""C03 - template expansion always terminates with a string (DESIGN 3/C03)."""
import z3

from pyvc.interp import Explorer, LoopSpec, SymRaise, Undecided
from pyvc.values import PObj, SInt, SBool, Model, ExcClass, ExcVal, SList, z3_of

EVAL = "mwlib/parser/templ/evaluate.pyx"
MAGICS = "mwlib/parser/templ/magics.py"


# ---------------------------------------------------------------------------- P1 recursion counter of flatten
def p1_flatten(chk):
    ex = Explorer()
    fn = ex.function(EVAL, "flatten")
    TR = None

    class Res(PObj):
        def __init__(self, I):
            super().__init__("reslist", {})
            self.length = I.sym_int("len_res").z
            self.touched = False
    ex.len_hooks["reslist"] = lambda I, r: SInt(r.length)

    def res_append(I, r, v):
        r.length = r.length + 1
        r.touched = True
    ex.methods[("reslist", "append")] = Model("list.append", res_append)

    def res_del(I, r, idx):
        if not (isinstance(idx, tuple) and idx[0] == "__slice__" and idx[2] is None and idx[3] is None):
            raise Undecided("del res[...] shape")
        lo = I._int_term(idx[1])
        # del res[lo:] with 0 <= lo: the list is cut back to min(len, lo) elements
        r.length = z3.If(lo < r.length, lo, r.length)
        r.truncated_to = lo
    ex.delitem_hooks["reslist"] = res_del

    def callee_effect(I, expander, res):
        """contract shared by node.flatten(...) and the recursive flatten(...) call: may append
        to res, may raise anything (incl. TemplateRecursion), leaves recursion_count as found"""
        I.ghost.setdefault("callee_counts", []).append(expander.fields["recursion_count"])
        n = I.fresh("appended", z3.IntSort())
        I.assume(n >= 0)
        res.length = res.length + n
        k = I.choose(3, "callee_outcome")
        if k == 1:
            raise SymRaise(ExcVal(I.module_global(fn.module, "TemplateRecursion"), []))
        if k == 2:
            raise SymRaise(ExcVal(I.exc_class("RuntimeError"), []))

    def flatten_contract(I, node, expander, variables, res):
        callee_effect(I, expander, res)
        variables.fields["count"] = I.fresh_int("count")
        return I.fresh_bool("flat")
    ex.contracts[fn.ident] = flatten_contract

    def node_flatten(I, node, expander, variables, res):
        callee_effect(I, expander, res)
        variables.fields["count"] = I.fresh_int("count")
        return None
    ex.methods[("tnode", "flatten")] = Model("Node.flatten (callee contract)", node_flatten)

    def harness(I):
        c0 = I.sym_int("recursion_count")
        lim = I.sym_int("recursion_limit")
        I.assume(c0.z >= 0)
        expander = PObj("expander", {"recursion_count": c0, "recursion_limit": lim})
        variables = PObj("variables", {"count": I.sym_int("var_count")})
        res = Res(I)
        len0 = res.length
        shape = I.choose(4, "node_shape")
        if shape == 0:
            node = I.sym_str("text")
        elif shape == 1:
            node = PObj("tnode", {})
        elif shape == 2:
            node = [PObj("tnode", {}), I.sym_str("t"), [PObj("tnode", {})]]
        else:
            node = ()
        out = ex.run_function(I, fn, [node, expander, variables, res])
        c1 = expander.fields["recursion_count"]
        I.oblige("counter_restored_on_every_exit", I.eq_term(c1, c0), meta={"exit": out.kind})
        calls = I.ghost.get("callee_counts", [])
        if shape != 0:
            over = c0.z > lim.z
            if I.decide(over):
                I.oblige("over_limit_raises_TemplateRecursion", out.raised("TemplateRecursion"))
                I.oblige("over_limit_runs_no_callee", len(calls) == 0)
                I.oblige("over_limit_leaves_result_untouched", I.eq_term(SInt(res.length), SInt(len0)))
            else:
                for k, cc in enumerate(calls):
                    I.oblige("callees_run_one_level_deeper", I.eq_term(cc, SInt(c0.z + 1)))
                    I.oblige("nesting_bounded_by_limit_plus_one", z3_of(cc) <= lim.z + 1)
                if out.raised("TemplateRecursion"):
                    I.oblige("recursion_error_propagates_only_below_the_outermost_call", c0.z + 1 > 2)
                if out.returned and getattr(res, "truncated_to", None) is not None:
                    # the outermost call swallowed the recursion error: it yields nothing
                    I.oblige("swallowed_recursion_yields_nothing", I.eq_term(SInt(res.length), SInt(len0)))
                    I.oblige("swallowed_only_at_the_outermost_call", c0.z + 1 <= 2)
        else:
            I.oblige("text_node_appended", I.eq_term(SInt(res.length), SInt(len0 + 1)))
            I.oblige("text_node_returns_True", out.returned and out.value is True)

    def replay(model, obligation):
        return None, model, None

    chk.prove("evaluate.flatten", harness, ex, targets=[fn], replay=replay)


# ---------------------------------------------------------------------------- P2 dispatch arity (static, from the real classes)
def p2_arity(chk):
    import inspect
    from mwlib.parser.templ import magics
    r = magics.MagicResolver(pagename="X")
    names = [n for n in dir(r) if n == n.upper() and not n.startswith("_")]
    n_callable = 0
    for n in sorted(names):
        f = getattr(r, n)
        if isinstance(f, str) or not callable(f):
            continue
        n_callable += 1
        try:
            inspect.signature(f, follow_wrapped=False).bind(["x"])
            ok, why = True, ""
        except TypeError as e:
            ok, why = False, str(e)
        witness = None
        reproduced = None
        if not ok:
            witness, reproduced = replay_magic(n.lstrip("#"))
        chk.static(f"magics.MagicResolver.__call__.arity[{n}]", ok,
                   f"method_to_invoke(args) with the callee {n}{_sig(f)}: {why}", witness, "arity", reproduced)
    chk.extra["magic_callees_checked"] = n_callable
    if n_callable < 60:
        chk.crashes.append(f"only {n_callable} magic callees found")


def _sig(f):
    import inspect
    try:
        return str(inspect.signature(f, follow_wrapped=False))
    except (TypeError, ValueError):
        return "(?)"


class _DB:
    """a wikidb meeting the interface precondition of the expander (no pages)"""

    def __init__(self):
        from mwlib.core import nshandling
        from mwlib.network import siteinfo
        self.nshandler = nshandling.NsHandler(siteinfo.get_siteinfo("en"))

    def normalize_and_get_page(self, title, defaultns):
        return None

    def get_url(self, *a, **k):
        return None

    def get_siteinfo(self):
        from mwlib.network import siteinfo
        return siteinfo.get_siteinfo("en")


def replay_magic(name, args=""):
    from mwlib.parser.expander import Expander
    txt = "{{" + name + args + "}}"
    try:
        out = Expander(txt, pagename="X", wikidb=_DB()).expandTemplates()
        if not isinstance(out, str):
            return {"wikitext": txt, "returned": repr(out)}, True
        return {"wikitext": txt, "returned": out[:80]}, False
    except Exception as e:  # noqa: BLE001
        return {"wikitext": txt, "raised": f"{type(e).__name__}: {e}"[:200]}, True


# ---------------------------------------------------------------------------- bounded stand-in: every registered name x 0..3 args x shapes
SHAPES = ["", "word", "0", "7", "-3", "99999999999", "1.5", "1e9", "1e999999999", "a/b/c", "{{lc:X}}"]


def _one(txt):
    import logging, time
    logging.disable(logging.CRITICAL)
    from mwlib.parser.expander import Expander
    t = time.process_time()
    try:
        out = Expander(txt, pagename="Some/Page", wikidb=_DB()).expandTemplates()
    except BaseException as e:  # noqa: BLE001
        return txt, f"raised {type(e).__name__}: {e}"[:200]
    dt = time.process_time() - t
    if not isinstance(out, str):
        return txt, f"returned {type(out).__name__}"
    if dt > 2.0:
        return txt, f"cpu {dt:.1f}s"
    if len(out) > 10**4 * (1 + len(txt)):
        return txt, f"output {len(out)} chars for {len(txt)} chars of input"
    return txt, None


def bounded(chk):
    import itertools
    from concurrent.futures import ProcessPoolExecutor
    from mwlib.parser.templ import magics
    r = magics.MagicResolver(pagename="X")
    names = sorted(n for n in dir(r) if n == n.upper() and not n.startswith("_"))
    maxargs = 2 if chk.tier == "quick" else 3
    cases = []
    for n in names:
        nm = n.lower()
        sep = ":" if nm.startswith("#") or nm in ("padleft", "padright", "lc", "uc", "ns", "urlencode", "titleparts") else ":"
        cases.append("{{" + nm + "}}")
        for k in range(1, maxargs + 1):
            for combo in itertools.product(SHAPES if k < 3 else SHAPES[:6], repeat=k):
                cases.append("{{" + nm + sep + "|".join(combo) + "}}")
    # template universes with cycles are part of the thorough tier only
    failures = []
    with ProcessPoolExecutor(max_workers=12) as pool:
        for txt, bad in pool.map(_one, cases, chunksize=200):
            if bad:
                failures.append({"detail": f"{txt!r}: {bad}", "witness": {"wikitext": txt, "problem": bad},
                                 "class": bad.split(":")[0].split(" ")[0] + ":" + txt.split(":")[0].strip("{}")})
    dedup = {}
    for f in failures:
        dedup.setdefault(f["class"], f)
    chk.bounded_result("every_registered_name_x_args", len(cases), len(cases), True,
                       f"{len(names)} registered names (built-in and dummy) x 0..{maxargs} arguments x {len(SHAPES)} shapes; contract: returns str, cpu <= 2 s, len(out) <= 1e4*(1+len(in))",
                       list(dedup.values()), cases[:3] + cases[-2:])


def run(chk):
    p1_flatten(chk)
    p2_arity(chk)
    bounded(chk)
    chk.assumptions += [
        "Node.flatten implementations (nodes.pyx) satisfy the callee contract used for flatten's proof: they change recursion_count only through nested flatten calls",
        "compiled evaluate.pyx behaves as its source read as Python (no cdef in flatten)",
    ]
