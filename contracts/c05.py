"""C05 - document trees stay well-formed and meet the writers' structural contract.

P2 frame obligation (static, complete over the files): nodes are *attached* (added to a
children list, parent link set) only inside the tree primitives of advtree.AdvancedNode
and extend_classes; everything else may only orphan nodes (children = [], del).
B: WF after build_advanced_tree and after every single pass (driven directly, in order),
container typing after the full sequence, on the shared enumerators.
P1 (contracts of the primitives over an abstract heap) is not built: see DESIGN.
"""
import ast

from pyvc import source

FILES = ["mwlib/parser/treecleaner.py", "mwlib/parser/treecleanerhelper.py", "mwlib/parser/advtree.py",
         "mwlib/parser/post_processors.py", "mwlib/rendering/styleutils.py", "mwlib/rendering/miscutils.py"]
PRIMITIVES = {"AdvancedNode.copy", "AdvancedNode.move_to", "AdvancedNode.append_child", "AdvancedNode.replace_child",
              "AdvancedNode.remove_child", "extend_classes"}


def sites():
    out = []
    for rel in FILES:
        m = source.module(rel)

        def walk(node, qn):
            for ch in ast.iter_child_nodes(node):
                q = qn
                if isinstance(ch, (ast.FunctionDef, ast.ClassDef)):
                    q = (qn + "." if qn else "") + ch.name
                yield ch, q
                yield from walk(ch, q)
        for n, q in walk(m.tree, ""):
            hit = None
            if isinstance(n, ast.Call) and isinstance(n.func, ast.Attribute) and n.func.attr in ("append", "insert", "extend") \
                    and isinstance(n.func.value, ast.Attribute) and n.func.value.attr == "children":
                hit = ("attach", "children." + n.func.attr)
            if isinstance(n, (ast.Assign, ast.AugAssign, ast.AnnAssign)):
                ts = n.targets if isinstance(n, ast.Assign) else [n.target]
                for t in ts:
                    if isinstance(t, ast.Attribute) and t.attr == "parent":
                        hit = ("attach", "parent = ...")
                    if isinstance(t, ast.Attribute) and t.attr == "children":
                        empty = isinstance(n, ast.Assign) and isinstance(n.value, ast.List) and not n.value.elts
                        hit = ("orphan", "children = []") if empty else ("attach", "children = " + ast.unparse(n.value)[:40])
                    if isinstance(t, ast.Subscript) and isinstance(t.value, ast.Attribute) and t.value.attr == "children":
                        hit = ("attach", "children[...] = ...")
            if isinstance(n, ast.Call) and isinstance(n.func, ast.Name) and n.func.id == "setattr" and len(n.args) >= 2 \
                    and isinstance(n.args[1], ast.Constant) and n.args[1].value in ("parent", "children"):
                hit = ("attach", "setattr(..., %r, ...)" % n.args[1].value)
            if hit:
                out.append((rel, n.lineno, q, hit[0], hit[1]))
    return out


def p2_frame(chk):
    found = sites()
    attach = [s for s in found if s[3] == "attach"]
    n_prim = 0
    for rel, line, q, kind, what in attach:
        inside = any(q == p or q.startswith(p + ".") for p in PRIMITIVES)
        if inside:
            n_prim += 1
            continue
        chk.static(f"frame.{rel.split('/')[-1]}:{q}", False,
                   f"src/{rel}:{line} in {q}: `{what}` attaches a node outside the tree primitives",
                   {"file": "src/" + rel, "line": line, "function": q, "statement": what}, q, True)
    chk.static("frame.attach_sites_only_in_primitives", True,
               f"{n_prim} attaching statements, all inside {sorted(PRIMITIVES)}; {len(found) - len(attach)} orphaning statements elsewhere")
    chk.static("frame.primitives_present", n_prim >= 8, f"{n_prim} attaching statements found in the primitives (expected >= 8)")
    chk.extra["frame_sites"] = [f"{r.split('/')[-1]}:{l} {q} {w}" for r, l, q, k, w in found]


def bounded(chk):
    from contracts import docs
    res = docs.run_passes(chk.tier, chk.seed)
    chk.bounded_result("wf_after_build_and_after_every_pass", res["evaluations"], res["distinct"], False, res["bound"],
                       res["failures"].get("c05", []), res["samples"])


def run(chk):
    p2_frame(chk)
    bounded(chk)
    chk.assumptions += [
        "P1 (behavioural contracts of append_child/replace_child/remove_child/move_to/copy over an abstract heap and the WF lemmas over them) is not discharged: the proof part of this check is the frame obligation only; WF itself is observed by the bounded stand-in",
        "that each pass meets the primitives' preconditions at every call site is observed per pass by the bounded stand-in, not proved",
    ]
