"""C05 - document trees stay well-formed and meet the writers' structural contract.

P2 frame obligation (static, complete over the files): nodes are *attached* (added to a
children list, parent link set) only inside the tree primitives of advtree.AdvancedNode
and extend_classes; everything else may only orphan nodes (children = [], del).
B: WF after build_advanced_tree and after every single pass (driven directly, in order),
container typing after the full sequence, on the shared enumerators.
P1 (contracts of the primitives over an abstract heap) is not built: see DESIGN.
"""
import ast

from pyvc import source

FILES = ["mwlib/parser/treecleaner.py", "mwlib/parser/treecleanerhelper.py", "mwlib/parser/advtree.py",
         "mwlib/parser/post_processors.py", "mwlib/rendering/styleutils.py", "mwlib/rendering/miscutils.py"]
PRIMITIVES = {"AdvancedNode.copy", "AdvancedNode.move_to", "AdvancedNode.append_child", "AdvancedNode.replace_child",
              "AdvancedNode.remove_child", "extend_classes"}


def sites():
    out = []
    for rel in FILES:
        m = source.module(rel)

        def walk(node, qn):
            for ch in ast.iter_child_nodes(node):
                q = qn
                if isinstance(ch, (ast.FunctionDef, ast.ClassDef)):
                    q = (qn + "." if qn else "") + ch.name
                yield ch, q
                yield from walk(ch, q)
        for n, q in walk(m.tree, ""):
            hit = None
            if isinstance(n, ast.Call) and isinstance(n.func, ast.Attribute) and n.func.attr in ("append", "insert", "extend") \
                    and isinstance(n.func.value, ast.Attribute) and n.func.value.attr == "children":
                hit = ("attach", "children." + n.func.attr)
            if isinstance(n, (ast.Assign, ast.AugAssign, ast.AnnAssign)):
                ts = n.targets if isinstance(n, ast.Assign) else [n.target]
                for t in ts:
                    if isinstance(t, ast.Attribute) and t.attr == "parent":
                        hit = ("attach", "parent = ...")
                    if isinstance(t, ast.Attribute) and t.attr == "children":
                        empty = isinstance(n, ast.Assign) and isinstance(n.value, ast.List) and not n.value.elts
                        hit = ("orphan", "children = []") if empty else ("attach", "children = " + ast.unparse(n.value)[:40])
                    if isinstance(t, ast.Subscript) and isinstance(t.value, ast.Attribute) and t.value.attr == "children":
                        hit = ("attach", "children[...] = ...")
            if isinstance(n, ast.Call) and isinstance(n.func, ast.Name) and n.func.id == "setattr" and len(n.args) >= 2 \
                    and isinstance(n.args[1], ast.Constant) and n.args[1].value in ("parent", "children"):
                hit = ("attach", "setattr(..., %r, ...)" % n.args[1].value)
            if hit:
                out.append((rel, n.lineno, q, hit[0], hit[1]))
    return out


def p2_frame(chk):
    found = sites()
    attach = [s for s in found if s[3] == "attach"]
    n_prim = 0
    for rel, line, q, kind, what in attach:
        inside = any(q == p or q.startswith(p + ".") for p in PRIMITIVES)
        if inside:
            n_prim += 1
            continue
        chk.static(f"frame.{rel.split('/')[-1]}:{q}", False,
                   f"src/{rel}:{line} in {q}: `{what}` attaches a node outside the tree primitives",
                   {"file": "src/" + rel, "line": line, "function": q, "statement": what}, q, True)
    chk.static("frame.attach_sites_only_in_primitives", True,
               f"{n_prim} attaching statements, all inside {sorted(PRIMITIVES)}; {len(found) - len(attach)} orphaning statements elsewhere")
    chk.static("frame.primitives_present", n_prim >= 8, f"{n_prim} attaching statements found in the primitives (expected >= 8)")
    chk.extra["frame_sites"] = [f"{r.split('/')[-1]}:{l} {q} {w}" for r, l, q, k, w in found]


def bounded(chk):
    n, bad = primitives_search()
    chk.bounded_result("primitives_on_small_real_trees", n, n, True,
                       "append_child / replace_child / remove_child / move_to on all trees of <= 5 nodes (10 shapes), every self / child / target choice meeting the precondition: postcondition and WF of the reachable tree",
                       [{"detail": str(bad), "witness": bad, "class": bad["primitive"]}] if bad else [])
    from contracts import docs
    res = docs.run_passes(chk.tier, chk.seed)
    chk.bounded_result("wf_after_build_and_after_every_pass", res["evaluations"], res["distinct"], False, res["bound"],
                       res["failures"].get("c05", []), res["samples"])


def run(chk):
    import os
    only = os.environ.get("VERIF_ONLY")
    if not only or "p1" in only:
        p1_primitives(chk)
    if not only or "p3" in only:
        p3_remove_broken_children(chk)
    if only in ("p1", "p3"):
        return
    p2_frame(chk)
    p4_call_sites(chk)
    bounded(chk)
    chk.assumptions += [
        "P1: `children` lists are views on the abstract heap (parent, len, elem); list.insert / slicing / `del` by their pointwise contracts; move_to's adjacency postcondition is dropped (small-real-tree enumeration only)",
        "P4 discharges only the precondition 'child is listed by the receiver' and only at call sites of shapes A-D (see evidence extra.call_sites for the sites left to the bounded stand-in); that the receiver `E.parent` is not None at a site, and that a pass as a whole keeps WF, is observed per pass by the bounded stand-in, not proved",
        "well-formedness W1-W3 at the entry of every pass (established by build_advanced_tree: observed by the bounded stand-in after build)",
    ]


# ----------------------------------------------------------------------------- P1 the tree primitives over an abstract heap
import z3  # noqa: E402

from pyvc.interp import Explorer, LoopSpec, Forall, Undecided, SymRaise  # noqa: E402
from pyvc.schema import Typing  # noqa: E402
from pyvc.values import PObj, SRef, SInt, SBool, Model, BoundMethod, ClassRef, z3_of  # noqa: E402

ADV = "mwlib/parser/advtree.py"
Z, Bo = z3.IntSort(), z3.BoolSort()


def A(d, r):
    return z3.ArraySort(d, r)


T_FIELDS = {"parent": A(Z, Z), "len": A(Z, Z), "elem": A(Z, A(Z, Z)),
            # ghosts: position of a node in its parent's list; node still belongs to the document
            "pos": A(Z, Z), "live": A(Z, Bo)}
TYPING = Typing({"parent": ("node",), "len": ("node",), "elem": ("node", "index"), "pos": ("node",), "live": ("node",),
                 "new_elem": ("index",), "new_member": ("node",), "new_idx": ("node",)},
                {"parent": "node", "elem": "node", "pos": "index", "new_elem": "node", "new_idx": "index"})
TYPING.max_instances = 12000


class TState:
    def __init__(self, I, prefix):
        self.t = {k: I.fresh(prefix + k, s) for k, s in T_FIELDS.items()}

    def copy(self):
        s = TState.__new__(TState)
        s.t = dict(self.t)
        return s

    def __getitem__(self, k):
        return self.t[k]

    def __setitem__(self, k, v):
        self.t[k] = v


def ts(I):
    return I.ghost["T"]


class ChildList(PObj):
    """node.children of an abstract node: a view on (len[node], elem[node])"""

    def __init__(self, node):
        super().__init__("childlist", {})
        self.node = node

    def iter_state(self, I):
        n = self.node
        return {"len": lambda: z3.Select(ts(I)["len"], n), "get": lambda i: SRef("node", z3.Select(z3.Select(ts(I)["elem"], n), i)),
                "i": z3.IntVal(0)}


class NodeSeq(PObj):
    """an arbitrary caller-supplied list of nodes (newchildren): length, elements, and the
    ghost inverse (member / index of) for duplicate-free lists"""

    def __init__(self, I, name="new"):
        super().__init__("nodeseq", {})
        self.length = I.fresh(name + "_len", Z)
        self.elem = I.fresh(name + "_elem", A(Z, Z))
        self.member = I.fresh(name + "_member", A(Z, Bo))
        self.idx = I.fresh(name + "_idx", A(Z, Z))
        I.assume(self.length >= 0)
        ln, el, mem, ix = self.length, self.elem, self.member, self.idx
        I.assume(Forall(["index"], lambda k: z3.Implies(z3.And(k >= 0, k < ln), z3.And(z3.Select(mem, z3.Select(el, k)), z3.Select(ix, z3.Select(el, k)) == k,
                                                                                      z3.Select(el, k) != 0)), "newchildren_elements_are_members"))
        I.assume(Forall(["node"], lambda y: z3.Implies(z3.Select(mem, y), z3.And(z3.Select(ix, y) >= 0, z3.Select(ix, y) < ln,
                                                                                 z3.Select(el, z3.Select(ix, y)) == y)), "newchildren_members_are_elements"))

    def iter_state(self, I):
        return {"len": lambda: self.length, "get": lambda i: SRef("node", z3.Select(self.elem, i)), "i": z3.IntVal(0)}


def install_tree(ex):
    mod = source.module(ADV)
    cls = ClassRef(mod.defs["AdvancedNode"], mod)
    ex.typing = TYPING
    for f in ("append_child", "remove_child", "replace_child", "has_child", "move_to"):
        ex.inline.add(f"{ADV}:AdvancedNode.{f}")
    ex.inline.add(ADV + ":_id_index")

    def heap_getattr(I, ref, name):
        S = ts(I)
        if name == "children":
            return ChildList(ref.z)
        if name == "parent":
            p = z3.Select(S["parent"], ref.z)
            if I.decide(p == 0):
                return None
            return SRef("node", p)
        m = I.find_method(cls, name)
        if m is not None:
            return BoundMethod(ref, m)
        I.throw("AttributeError", name)

    def heap_setattr(I, ref, name, val):
        S = ts(I)
        if name == "parent":
            S["parent"] = z3.Store(S["parent"], ref.z, z3.IntVal(0) if val is None else val.z)
            return
        raise Undecided(f"assignment node.{name}")
    ex.heap_getattr = heap_getattr
    ex.heap_setattr = heap_setattr
    ex.len_hooks["childlist"] = lambda I, c: SInt(z3.Select(ts(I)["len"], c.node))
    ex.len_hooks["nodeseq"] = lambda I, c: SInt(c.length)

    def cl_append(I, c, v):
        S = ts(I)
        n = c.node
        ln = z3.Select(S["len"], n)
        S["elem"] = z3.Store(S["elem"], n, z3.Store(z3.Select(S["elem"], n), ln, v.z))
        S["len"] = z3.Store(S["len"], n, ln + 1)
        S["pos"] = z3.Store(S["pos"], v.z, ln)                                     # ghost
    ex.methods[("childlist", "append")] = Model("list.append on node.children", cl_append)

    def splice(I, n, lo, removed, new_len, new_get, new_member, new_idx):
        """children[lo:lo+removed] = new: pointwise definition of the new list (library contract
        of slice assignment / insert) and of the ghost positions"""
        S = ts(I)
        old_elem = z3.Select(S["elem"], n)
        old_len = z3.Select(S["len"], n)
        old_pos, old_parent = S["pos"], S["parent"]
        ne = I.fresh("spliced_elem", A(Z, Z))
        shift = new_len - removed
        I.assume(Forall(["index"], lambda k: z3.Select(ne, k) == z3.If(k < lo, z3.Select(old_elem, k),
                                                                      z3.If(k < lo + new_len, new_get(k - lo), z3.Select(old_elem, k - shift))),
                        "slice_assignment_pointwise"))
        S["elem"] = z3.Store(S["elem"], n, ne)
        S["len"] = z3.Store(S["len"], n, old_len + shift)
        np_ = I.fresh("spliced_pos", A(Z, Z))
        I.assume(Forall(["node"], lambda y: z3.Select(np_, y) == z3.If(
            new_member(y), lo + new_idx(y),
            z3.If(z3.And(z3.Select(old_parent, y) == n, z3.Select(old_pos, y) >= lo + removed), z3.Select(old_pos, y) + shift, z3.Select(old_pos, y))),
            "ghost_positions_after_splice"))
        S["pos"] = np_

    def cl_setslice(I, c, idx, val):
        if not (isinstance(idx, tuple) and idx[0] == "__slice__" and idx[3] is None):
            raise Undecided("children[...] = ... shape")
        S = ts(I)
        n = c.node
        ln = z3.Select(S["len"], n)
        lo, hi = I._int_term(idx[1]), I._int_term(idx[2])
        I.oblige("slice_bounds_inside_the_list", z3.And(lo >= 0, lo <= hi, hi <= ln))
        if isinstance(val, list) and not val:
            splice(I, n, lo, hi - lo, z3.IntVal(0), lambda k: z3.IntVal(0), lambda y: z3.BoolVal(False), lambda y: z3.IntVal(0))
        elif isinstance(val, NodeSeq):
            splice(I, n, lo, hi - lo, val.length, lambda k: z3.Select(val.elem, k), lambda y: z3.Select(val.member, y), lambda y: z3.Select(val.idx, y))
        elif isinstance(val, ChildList):
            m = val.node
            me, ml = z3.Select(S["elem"], m), z3.Select(S["len"], m)
            par, pos = S["parent"], S["pos"]
            # children of node m as the new elements: membership / index from the WF ghosts of m
            splice(I, n, lo, hi - lo, ml, lambda k: z3.Select(me, k),
                   lambda y: z3.And(z3.Select(par, y) == m, z3.Select(pos, y) >= 0, z3.Select(pos, y) < ml, z3.Select(me, z3.Select(pos, y)) == y),
                   lambda y: z3.Select(pos, y))
        else:
            raise Undecided("slice assignment of this value")
    ex.setitem_hooks["childlist"] = lambda I, c, idx, val: cl_setslice(I, c, idx, val)

    def cl_insert(I, c, i, v):
        S = ts(I)
        n = c.node
        ln = z3.Select(S["len"], n)
        it = I._int_term(i)
        lo = z3.If(it > ln, ln, z3.If(it < 0, z3.IntVal(0), it))        # (non-negative indices only occur here)
        splice(I, n, lo, z3.IntVal(0), z3.IntVal(1), lambda k: v.z, lambda y: y == v.z, lambda y: z3.IntVal(0))
    ex.methods[("childlist", "insert")] = Model("list.insert on node.children", cl_insert)

    def b_enumerate(I, it, start=0):
        if isinstance(it, (ChildList, NodeSeq)):
            e = PObj("enumerated", {})
            base = it.iter_state(I)
            e.iter_state = lambda I2: {"len": base["len"], "get": lambda i: (SInt(i), base["get"](i)), "i": z3.IntVal(0)}
            return e
        return [(i, x) for i, x in enumerate(I.iterate_concrete(it), start)]
    ex.models["builtins.enumerate"] = Model("builtins.enumerate", b_enumerate)

    # loop invariants
    def inv_id_index(I, v, it):
        lst, x = v["lst"], v["element_to_check"]
        get = lst.iter_state(I)["get"]
        i = it["i"]
        return [("no_earlier_occurrence", Forall(["index"], lambda k: z3.Implies(z3.And(k >= 0, k < i), get(k).z != x.z)))]
    ex.loopspecs[(ADV + ":_id_index", 0)] = LoopSpec(inv_id_index, None, lambda I, v, it: None)

    def inv_reparent(I, v, it):
        S = ts(I)
        new, me = v["newchildren"], v["self"]
        i = it["i"]
        before = I.ghost["parent_before_reparent"]
        if isinstance(new, NodeSeq):
            mem, ix, el = new.member, new.idx, new.elem
            memf = lambda y: z3.Select(mem, y)          # noqa: E731
            ixf = lambda y: z3.Select(ix, y)            # noqa: E731
        else:
            raise Undecided("reparent loop over this value")
        same = all(S.t[k].eq(I.ghost["state_before_reparent"].t[k]) for k in S.t if k != "parent")
        return [("visited_new_children_point_to_self", Forall(["node"], lambda y: z3.Select(S["parent"], y) == z3.If(
            z3.And(memf(y), ixf(y) < i), me.z, z3.Select(before, y)))),
            ("only_parent_links_change", same)]

    def havoc_reparent(I, v, it):
        ts(I)["parent"] = I.fresh("loop_parent", A(Z, Z))
    ex.loopspecs[(ADV + ":AdvancedNode.replace_child", 0)] = LoopSpec(inv_reparent, None, havoc_reparent)
    return cls


def wf_clause(S, root):
    """reachable-part well-formedness, first-order with the ghosts `live` and `pos`:
    every child listed by a live node is a live node whose parent link points back to the
    lister and whose recorded position is that index (=> listed exactly once, by one parent);
    by induction from the live root every reachable node is live.  (Acyclicity is not
    first-order: it follows for the reachable part because the root has no parent.)"""
    def w1(n, i):
        c = z3.Select(z3.Select(S["elem"], n), i)
        return z3.Implies(z3.And(z3.Select(S["live"], n), i >= 0, i < z3.Select(S["len"], n)),
                          z3.And(c != 0, z3.Select(S["live"], c), z3.Select(S["parent"], c) == n, z3.Select(S["pos"], c) == i))
    return [("W1_children_point_back_once", Forall(["node", "index"], w1)),
            ("W2_lengths_non_negative", Forall(["node"], lambda n: z3.Select(S["len"], n) >= 0)),
            ("W3_root_live_without_parent", z3.And(z3.Select(S["live"], root), z3.Select(S["parent"], root) == 0, root != 0,
                                                   z3.Not(z3.Select(S["live"], z3.IntVal(0)))))]      # (reference 0 is None, not a node)


def assume_wf(I, S, root):
    for name, f in wf_clause(S.copy(), root):
        I.assume(f)


def oblige_wf(I, S, root, prefix="wf", old=None, shifts=(), around=()):
    """W1 is skolemised here so that instantiation hints can mention the skolem constants:
    the shifted indices (i + d) and the old children at those indices"""
    snap = S.copy()
    for name, f in wf_clause(snap, root):
        if name.startswith("W1") and old is not None:
            n, i = I.fresh("sk@node", Z), I.fresh("sk@index", Z)
            I.inputs[str(n)] = n
            I.inputs[str(i)] = i
            for d in shifts:
                I.hint("index", i + d)
                for m in list(around) + [n]:
                    I.hint("node", z3.Select(z3.Select(old["elem"], m), i + d))
            I.oblige(f"{prefix}.{name}", f.fn(n, i), assume_after=False)
        else:
            I.oblige(f"{prefix}.{name}", f)


def p1_primitives(chk):
    def setup(I, ex):
        S = TState(I, "t0_")
        I.ghost["T"] = S
        root = I.fresh("root@node", Z)
        assume_wf(I, S, root)
        return S, root

    def node(I, S, name, live=True):
        n = I.fresh(name + "@node", Z)
        I.inputs[str(n)] = n
        I.assume(n != 0)
        if live:
            I.assume(z3.Select(S["live"], n))
        return n

    # ---- _id_index: first identity index, or ValueError iff absent
    ex = Explorer()
    install_tree(ex)
    fn = ex.function(ADV, "_id_index")

    def h_idx(I):
        S, root = setup(I, ex)
        n, x = node(I, S, "n"), node(I, S, "x", live=False)
        out = ex.run_function(I, fn, [ChildList(n), SRef("node", x)])
        el, ln = z3.Select(S["elem"], n), z3.Select(S["len"], n)
        if out.returned:
            r = I._int_term(out.value)
            I.oblige("returns_an_index_of_the_element", z3.And(r >= 0, r < ln, z3.Select(el, r) == x))
            I.oblige("returns_the_first_one", Forall(["index"], lambda k: z3.Implies(z3.And(k >= 0, k < r), z3.Select(el, k) != x)))
        else:
            I.oblige("raises_ValueError_only", out.raised("ValueError"))
            I.oblige("raises_only_if_absent", Forall(["index"], lambda k: z3.Implies(z3.And(k >= 0, k < ln), z3.Select(el, k) != x)))
    chk.prove("advtree._id_index", h_idx, ex, targets=[fn], replay=replay_primitives)

    # ---- append_child
    ex = Explorer()
    cls = install_tree(ex)
    fn = ex.function(ADV, "AdvancedNode.append_child")

    def h_append(I):
        S, root = setup(I, ex)
        me, ch = node(I, S, "self"), node(I, S, "child")
        # precondition: the child is a detached (live) node, not the root
        I.assume(z3.Select(S["parent"], ch) == 0)
        I.assume(ch != root)
        old = S.copy()
        out = ex.run_function(I, fn, [SRef("node", me), SRef("node", ch)])
        I.oblige("no_raise", out.returned)
        ln = z3.Select(old["len"], me)
        I.oblige("child_is_the_new_last_child", z3.And(z3.Select(S["len"], me) == ln + 1, z3.Select(z3.Select(S["elem"], me), ln) == ch))
        I.oblige("child_points_to_self", z3.Select(S["parent"], ch) == me)
        I.oblige("earlier_children_unchanged", Forall(["index"], lambda k: z3.Implies(z3.And(k >= 0, k < ln),
                 z3.Select(z3.Select(S["elem"], me), k) == z3.Select(z3.Select(old["elem"], me), k))))
        I.oblige("other_nodes_untouched", Forall(["node"], lambda y: z3.Implies(y != me, z3.And(
            z3.Select(S["len"], y) == z3.Select(old["len"], y), z3.Select(S["elem"], y) == z3.Select(old["elem"], y)))))
        I.oblige("other_parent_links_untouched", Forall(["node"], lambda y: z3.Implies(y != ch, z3.Select(S["parent"], y) == z3.Select(old["parent"], y))))
        oblige_wf(I, S, root, "wf_preserved", old, (0,), (me,))
    chk.prove("advtree.AdvancedNode.append_child", h_append, ex, targets=[fn], replay=replay_primitives)

    # ---- replace_child / remove_child
    for variant in ("detached_or_own_children", "remove"):
        ex = Explorer()
        install_tree(ex)
        fn = ex.function(ADV, "AdvancedNode.replace_child" if variant != "remove" else "AdvancedNode.remove_child")

        def h_replace(I, variant=variant, ex=ex, fn=fn):
            S, root = setup(I, ex)
            me, ch = node(I, S, "self"), node(I, S, "child", live=False)
            listed = I.decide(I.sym_bool("child_is_listed").z)
            if listed:
                # the child is a child of self in a well-formed tree
                I.assume(z3.And(z3.Select(S["parent"], ch) == me, z3.Select(S["pos"], ch) >= 0, z3.Select(S["pos"], ch) < z3.Select(S["len"], me),
                                z3.Select(z3.Select(S["elem"], me), z3.Select(S["pos"], ch)) == ch, z3.Select(S["live"], ch), ch != root))
            else:
                el, ln = z3.Select(S["elem"], me), z3.Select(S["len"], me)
                I.assume(Forall(["index"], lambda k: z3.Implies(z3.And(k >= 0, k < ln), z3.Select(el, k) != ch), "child_not_listed"))
            old = S.copy()
            args = [SRef("node", me), SRef("node", ch)]
            new = None
            if variant != "remove":
                new = NodeSeq(I)
                # precondition on the new children: live, detached or children of the replaced child,
                # none of them self / the root / the replaced child
                par = S["parent"]
                I.assume(Forall(["node"], lambda y: z3.Implies(z3.Select(new.member, y), z3.And(
                    z3.Select(S["live"], y), z3.Or(z3.Select(par, y) == 0, z3.Select(par, y) == ch), y != me, y != root, y != ch)), "new_children_detached_or_children_of_the_replaced_node"))
                args.append(new)
            I.ghost["parent_before_reparent"] = None

            def before_loop_snapshot(I2, args2, kwargs2):
                pass
            # snapshot for the reparent loop invariant is taken lazily at loop entry
            orig_inv = ex.loopspecs[(ADV + ":AdvancedNode.replace_child", 0)]

            def inv(I2, v, it):
                if I2.ghost.get("parent_before_reparent") is None:
                    I2.ghost["parent_before_reparent"] = ts(I2)["parent"]
                    I2.ghost["state_before_reparent"] = ts(I2).copy()
                return orig_inv.invariant(I2, v, it)
            ex.loopspecs[(ADV + ":AdvancedNode.replace_child", 0)] = LoopSpec(inv, None, orig_inv.havoc)
            try:
                out = ex.run_function(I, fn, args)
            finally:
                ex.loopspecs[(ADV + ":AdvancedNode.replace_child", 0)] = orig_inv
            if not listed:
                I.oblige("absent_child_raises_ValueError", out.raised("ValueError"))
                I.oblige("absent_child_changes_nothing", all(S.t[k].eq(old.t[k]) for k in S.t))
                return
            I.oblige("no_raise", out.returned, meta={"exc": out.exc.cls.name if out.exc else None})
            idx = z3.Select(old["pos"], ch)
            n_new = new.length if new is not None else z3.IntVal(0)
            oe, ne = z3.Select(old["elem"], me), z3.Select(S["elem"], me)
            I.oblige("length_after_splice", z3.Select(S["len"], me) == z3.Select(old["len"], me) - 1 + n_new)
            I.oblige("children_are_prefix_new_suffix", Forall(["index"], lambda k: z3.Select(ne, k) == z3.If(
                k < idx, z3.Select(oe, k), z3.If(k < idx + n_new, z3.Select(new.elem, k - idx) if new is not None else z3.IntVal(0), z3.Select(oe, k - n_new + 1)))))
            I.oblige("replaced_child_is_detached", z3.Select(S["parent"], ch) == 0)
            if new is not None:
                I.oblige("new_children_point_to_self", Forall(["node"], lambda y: z3.Implies(z3.Select(new.member, y), z3.Select(S["parent"], y) == me)))
                I.oblige("other_parent_links_untouched", Forall(["node"], lambda y: z3.Implies(
                    z3.And(z3.Not(z3.Select(new.member, y)), y != ch), z3.Select(S["parent"], y) == z3.Select(old["parent"], y))))
            # the replaced node leaves the document (ghost), then: reachable-part WF is preserved
            S["live"] = z3.Store(S["live"], ch, False)
            shift = n_new - 1
            for d in (0, -shift):
                pass
            oblige_wf(I, S, root, "wf_preserved", old, (0, 1 - n_new, -idx) if new is not None else (0, 1), (me, ch))
        chk.prove(f"advtree.AdvancedNode.{'remove_child' if variant == 'remove' else 'replace_child'}", h_replace, ex, targets=[fn], replay=replay_primitives)

    # ---- move_to
    ex = Explorer()
    install_tree(ex)
    fn = ex.function(ADV, "AdvancedNode.move_to")

    def h_move(I):
        S, root = setup(I, ex)
        me, tg = node(I, S, "self"), node(I, S, "target")
        I.assume(z3.And(me != root, me != tg, tg != root))
        # target is attached in the tree; self is attached (child of its parent) or detached
        tp = z3.Select(S["parent"], tg)
        I.assume(z3.And(tp != 0, z3.Select(S["live"], tp), z3.Select(S["pos"], tg) >= 0, z3.Select(S["pos"], tg) < z3.Select(S["len"], tp),
                        z3.Select(z3.Select(S["elem"], tp), z3.Select(S["pos"], tg)) == tg))
        mp = z3.Select(S["parent"], me)
        I.assume(z3.Implies(mp != 0, z3.And(z3.Select(S["live"], mp), z3.Select(S["pos"], me) >= 0, z3.Select(S["pos"], me) < z3.Select(S["len"], mp),
                                            z3.Select(z3.Select(S["elem"], mp), z3.Select(S["pos"], me)) == me)))
        # the target's parent is not self (moving a node next to one of its own children would create a cycle)
        I.assume(tp != me)
        prefix = I.decide(I.sym_bool("prefix").z)
        old = S.copy()
        out = ex.run_function(I, fn, [SRef("node", me), SRef("node", tg)], {"prefix": prefix})
        I.oblige("no_raise", out.returned, meta={"exc": out.exc.cls.name if out.exc else None})
        I.oblige("self_points_to_the_targets_parent", z3.Select(S["parent"], me) == tp)
        p_me, p_tg = z3.Select(S["pos"], me), z3.Select(S["pos"], tg)
        # (adjacency to the target, pos[self] == pos[target] +- 1, was attempted and left out: it needs
        # the WF of the intermediate state after the removal as a lemma; the instantiated VC stays sat)
        I.oblige("self_listed_at_its_position", z3.Select(z3.Select(S["elem"], tp), p_me) == me)
        S["live"] = z3.Store(S["live"], me, True)
        oblige_wf(I, S, root, "wf_preserved", old, (0, 1, -1), (tp, mp, me))
    chk.prove("advtree.AdvancedNode.move_to", h_move, ex, targets=[fn], replay=replay_primitives)

    # ---- copy: detaches before deepcopy (the copy is self-contained) and restores the link on EVERY exit
    ex = Explorer()
    install_tree(ex)
    ex.inline.add(f"{ADV}:AdvancedNode.copy")
    fn = ex.function(ADV, "AdvancedNode.copy")

    def m_deepcopy(I, x, *a):
        S = ts(I)
        # call-site precondition (the property: "copy() detaches before deepcopy so copies are self-contained")
        I.oblige("deepcopy_runs_on_the_detached_node", z3.Select(S["parent"], x.z) == 0)
        # exceptional postcondition of the library call: deepcopy recurses ~6 frames per tree level and raises
        # RecursionError on deep documents (and MemoryError), leaving its argument untouched
        if I.decide(I.fresh("deepcopy_fails", Bo)):
            I.throw("RecursionError", "maximum recursion depth exceeded")
        c = I.fresh("copy@node", Z)
        I.assume(c != 0)
        I.assume(z3.Not(z3.Select(S["live"], c)))
        I.assume(z3.Select(S["parent"], c) == 0)
        return SRef("node", c)
    ex.models["copy.deepcopy"] = Model("copy.deepcopy", m_deepcopy)

    def h_copy(I):
        S, root = setup(I, ex)
        me = node(I, S, "self")
        old = S.copy()
        out = ex.run_function(I, fn, [SRef("node", me)])
        I.oblige("raises_only_what_deepcopy_raised", z3.Or(out.returned, out.raised("RecursionError")))
        I.oblige("parent_link_restored_on_every_exit", z3.Select(S["parent"], me) == z3.Select(old["parent"], me))
        I.oblige("child_lists_untouched", z3.And(S["len"] == old["len"], S["elem"] == old["elem"]))
        I.oblige("other_parent_links_untouched", Forall(["node"], lambda y: z3.Implies(y != me, z3.Select(S["parent"], y) == z3.Select(old["parent"], y))))
        if out.returned:
            c = out.value
            I.oblige("the_copy_is_a_detached_new_node", z3.And(c.z != me, z3.Select(S["parent"], c.z) == 0))
    chk.prove("advtree.AdvancedNode.copy", h_copy, ex, targets=[fn], replay=replay_copy)


# ----------------------------------------------------------------------------- replay / bounded for P1: small real trees
def _mk_tree(shape):
    """shape: list of parent indices (node 0 is the root); returns the real nodes"""
    from mwlib.parser import advtree as AT
    nodes = [AT.Div() for _ in shape]
    for i, p in enumerate(shape):
        nodes[i].children = []
        nodes[i].parent = None
    for i, p in enumerate(shape):
        if p is not None:
            nodes[p].children.append(nodes[i])
            nodes[i].parent = nodes[p]
    return nodes


def _wf(root):
    seen = set()
    stack = [(root, None)]
    if root.parent is not None:
        return "root has a parent"
    while stack:
        n, p = stack.pop()
        if id(n) in seen:
            return "node occurs twice"
        seen.add(id(n))
        if p is not None and n.parent is not p:
            return "parent link does not point to the lister"
        for c in n.children:
            stack.append((c, n))
    return None


def _ix(seq, x):
    return [i for i, y in enumerate(seq) if y is x][0]


def primitives_search():
    """every primitive on every small tree (<= 5 nodes) and every argument choice meeting the
    contract's precondition: postcondition + well-formedness of the reachable tree"""
    import itertools
    from mwlib.parser import advtree as AT
    shapes = [[None], [None, 0], [None, 0, 0], [None, 0, 1], [None, 0, 0, 0], [None, 0, 0, 1], [None, 0, 1, 1], [None, 0, 1, 2],
              [None, 0, 0, 1, 1], [None, 0, 1, 1, 2]]
    n = 0
    for shape in shapes:
        k = len(shape)
        for me in range(k):
            # append_child(detached node)
            t = _mk_tree(shape)
            d = AT.Div()
            d.children, d.parent = [], None
            n += 1
            before = list(t[me].children)
            t[me].append_child(d)
            if len(t[me].children) != len(before) + 1 or any(a is not b for a, b in zip(t[me].children, before + [d])) or d.parent is not t[me] or _wf(t[0]):
                return n, {"primitive": "append_child", "shape": shape, "self": me, "problem": _wf(t[0]) or "postcondition"}
            # replace_child(child, new) for every child; new = [], two detached nodes, the child's own children
            for ci in [i for i, p in enumerate(shape) if p == me]:
                for mode in ("remove", "detached", "own_children"):
                    t = _mk_tree(shape)
                    c = t[ci]
                    if mode == "remove":
                        new = []
                    elif mode == "detached":
                        new = [AT.Div(), AT.Div()]
                        for x in new:
                            x.children, x.parent = [], None
                    else:
                        new = list(c.children)
                    idx = [i for i, x in enumerate(t[me].children) if x is c][0]
                    want = t[me].children[:idx] + new + t[me].children[idx + 1:]
                    n += 1
                    try:
                        if mode == "remove":
                            t[me].remove_child(c)
                        else:
                            t[me].replace_child(c, new)
                    except Exception as e:  # noqa: BLE001
                        return n, {"primitive": mode, "shape": shape, "self": me, "child": ci, "problem": f"raised {type(e).__name__}"}
                    ok = len(t[me].children) == len(want) and all(a is b for a, b in zip(t[me].children, want)) and c.parent is None \
                        and all(x.parent is t[me] for x in new)
                    if not ok or _wf(t[0]):
                        return n, {"primitive": mode, "shape": shape, "self": me, "child": ci, "problem": _wf(t[0]) or "postcondition"}
            # move_to(target) for targets outside self's subtree
            for tg in range(1, k):
                for prefix in (False, True):
                    t = _mk_tree(shape)
                    if me == 0 or tg == me:
                        continue
                    anc, x = set(), tg
                    while x is not None:
                        anc.add(x)
                        x = shape[x]
                    if me in anc:
                        continue
                    n += 1
                    try:
                        t[me].move_to(t[tg], prefix)
                    except Exception as e:  # noqa: BLE001
                        return n, {"primitive": "move_to", "shape": shape, "self": me, "target": tg, "problem": f"raised {type(e).__name__}"}
                    tp = t[tg].parent
                    sib = tp.children
                    ok = t[me].parent is tp and sum(1 for x in sib if x is t[me]) == 1 and \
                        (_ix(sib, t[me]) == _ix(sib, t[tg]) + (-1 if prefix else 1))
                    if not ok or _wf(t[0]):
                        return n, {"primitive": "move_to", "shape": shape, "self": me, "target": tg, "prefix": prefix, "problem": _wf(t[0]) or "postcondition"}
    return n, None


def replay_primitives(model, obligation):
    n, bad = primitives_search()
    if bad:
        return True, bad, bad["primitive"]
    return False, {"cases": n}, None


def replay_copy(model, obligation):
    """real AdvancedNode.copy() with copy.deepcopy failing: the node must still be attached afterwards"""
    import copy as _copy
    from mwlib.parser import advtree as AT
    t = _mk_tree([None, 0, 1])
    real = _copy.deepcopy
    seen = {}

    def failing(x, *a, **k):
        seen["parent_during_deepcopy"] = x.parent
        raise RecursionError("maximum recursion depth exceeded")
    AT.copy.deepcopy = failing
    try:
        try:
            t[1].copy()
        except RecursionError:
            pass
    finally:
        AT.copy.deepcopy = real
    if t[1].parent is not t[0]:
        return True, {"tree": "root > a > b", "call": "a.copy() with deepcopy raising RecursionError", "a.parent afterwards": repr(t[1].parent)}, "copy"
    if seen.get("parent_during_deepcopy") is not None:
        return True, {"call": "a.copy()", "problem": "deepcopy ran on an attached node"}, "copy"
    c = t[1].copy()
    if c.parent is not None or c is t[1] or t[1].parent is not t[0]:
        return True, {"call": "a.copy()", "problem": "copy attached / not restored"}, "copy"
    return False, {"cases": 2}, None


# ----------------------------------------------------------------------------- P3: remove_broken_children never dissolves a container
TC = "mwlib/parser/treecleaner.py"
CONTAINERS = ("Table", "Row", "ItemList")       # their children (rows / cells / items) may only occur inside them


def _real_tables():
    """the pass's class tables, read from a real TreeCleaner instance (class names)"""
    from mwlib.parser import advtree as AT
    from mwlib.parser.treecleaner import TreeCleaner
    tc = TreeCleaner(AT.Article())
    rn = {k.__name__: [c.__name__ for c in v] for k, v in tc.remove_nodes.items()}
    ra = {k.__name__: [c.__name__ for c in v] for k, v in tc.remove_nodes_all_children.items()}
    return rn, ra


def p3_remove_broken_children(chk):
    rn, ra = _real_tables()
    names = sorted(set(rn) | set(ra) | {c for v in rn.values() for c in v} | {c for v in ra.values() for c in v} | set(CONTAINERS) | {"Other"})
    cid = {n: i + 1 for i, n in enumerate(names)}
    typing = Typing({"cls": ("node",), "anc": ("index",), "nch": ("node",)}, {"anc": "node"})
    ex = Explorer()
    ex.typing = typing
    mod = source.module(TC)
    tcls = ClassRef(mod.defs["TreeCleaner"], mod)
    fn = ex.function(TC, "TreeCleaner.remove_broken_children")
    ex.inline.add(f"{TC}:TreeCleaner.report")
    ex.contracts[fn.ident] = lambda I, self, child: None       # the recursive call on a child (one step is verified)

    class Anc(PObj):
        def __init__(self, I):
            super().__init__("ancestors", {})

        def iter_state(self, I):
            g = I.ghost
            return {"len": lambda: g["anc_len"], "get": lambda i: SRef("node", z3.Select(g["anc"], i)), "i": z3.IntVal(0)}

    class Kids(PObj):
        def __init__(self):
            super().__init__("kids", {})

        def iter_state(self, I):
            g = I.ghost
            return {"len": lambda: g["n_children"], "get": lambda i: SRef("node", z3.Select(g["kid"], i)), "i": z3.IntVal(0)}
    ex.truthy_hooks["kids"] = lambda I, k: I.decide(I.ghost["n_children"] > 0)
    ex.len_hooks["kids"] = lambda I, k: SInt(I.ghost["n_children"])

    def m_replace(I, parent, node, newchildren=None):
        g = I.ghost
        g["events"].append(("replace", parent, node, newchildren))
        kept = newchildren is not None and isinstance(newchildren, Kids)
        if kept:
            # derived from the property (rows / cells / items only inside their containers): a container
            # that still has children is never replaced by them
            I.oblige("a_container_is_never_dissolved_into_its_parent", z3.BoolVal(g["K"] not in CONTAINERS))

    def m_remove(I, parent, node):
        I.ghost["events"].append(("remove", parent, node, None))

    def heap_getattr(I, ref, name):
        g = I.ghost
        me = g["node"]
        is_me = z3.is_true(z3.simplify(ref.z == me))
        if name == "__class__":
            return cid[g["K"]] if is_me else SInt(z3.Select(g["cls"], ref.z))
        if is_me and name == "parents":
            return Anc(I)
        if is_me and name == "children":
            return Kids()
        if is_me and name == "parent":
            return SRef("node", g["parent"])
        if name == "replace_child":
            return BoundMethod(ref, Model("AdvancedNode.replace_child[contract]", m_replace))
        if name == "remove_child":
            return BoundMethod(ref, Model("AdvancedNode.remove_child[contract]", m_remove))
        raise Undecided(f"node.{name}")
    ex.heap_getattr = heap_getattr
    ex.loopspecs[(fn.ident, 0)] = LoopSpec(invariant=lambda I, v, it: [], variant=None)

    def harness(I):
        g = I.ghost
        k = I.choose(len(names), "node_class")
        g["K"] = names[k]
        g["node"] = I.fresh("node@node", Z)
        g["cls"] = I.fresh("cls", A(Z, Z))
        g["anc"] = I.fresh("anc", A(Z, Z))
        g["kid"] = I.fresh("kid", A(Z, Z))
        g["anc_len"] = I.fresh("anc_len", Z)
        g["n_children"] = I.fresh("n_children", Z)
        g["events"] = []
        I.inputs.update({"anc_len": g["anc_len"], "n_children": g["n_children"]})
        I.assume(g["node"] != 0)
        I.assume(g["anc_len"] >= 1)          # the pass walks down from the root: every visited node below it has a parent
        I.assume(g["n_children"] >= 0)
        # get_parents(): root first, the direct parent last
        g["parent"] = z3.Select(g["anc"], g["anc_len"] - 1)
        I.hint("index", g["anc_len"] - 1)
        I.assume(g["parent"] != 0)
        me = PObj(tcls, {"remove_nodes": {cid[a]: [cid[c] for c in v] for a, v in rn.items()},
                         "remove_nodes_all_children": {cid[a]: [cid[c] for c in v] for a, v in ra.items()},
                         "save_reports": False})
        out = ex.run_function(I, fn, [me, SRef("node", g["node"])])
        I.oblige("no_raise", out.returned)
        ev = g["events"]
        I.oblige("at_most_one_structural_change", len(ev) <= 1)
        K = g["K"]
        forbidden = [cid[c] for c in rn.get(K, [])]
        if not forbidden:
            I.oblige("untouched_unless_listed", len(ev) == 0)
        cls, anc, ln = g["cls"], g["anc"], g["anc_len"]
        if ev:
            qi = z3.Int("qi")
            I.oblige("changed_only_below_a_forbidden_ancestor",
                     z3.Exists([qi], z3.And(qi >= 0, qi < ln, z3.Or(*[z3.Select(cls, z3.Select(anc, qi)) == c for c in forbidden]))))
            I.oblige("the_change_detaches_the_node_from_its_parent", z3.And(ev[0][1].z == g["parent"], ev[0][2].z == g["node"]))
        else:
            I.oblige("kept_only_without_a_forbidden_ancestor",
                     Forall(["index"], lambda i: z3.Implies(z3.And(i >= 0, i < ln), z3.And(*[z3.Select(cls, z3.Select(anc, i)) != c for c in forbidden]) if forbidden else z3.BoolVal(True))))
    chk.prove("treecleaner.TreeCleaner.remove_broken_children", harness, ex, targets=[fn], replay=replay_rbc)


def replay_rbc(model, obligation):
    """real pass on real trees: every ancestor-class chain of length <= 3 above a table with one row"""
    import itertools
    from mwlib.parser import advtree as AT
    from mwlib.parser.treecleaner import TreeCleaner
    rn, ra = _real_tables()
    pool = sorted({c for v in rn.values() for c in v} | {"Center", "Div", "Cell"})
    n = 0
    for depth in (1, 2, 3):
        for chain in itertools.product(pool, repeat=depth):
            root = AT.Article()
            cur = root
            for c in chain:
                x = getattr(AT, c)()
                cur.append_child(x)
                cur = x
            t, r, ce, tx = AT.Table(), AT.Row(), AT.Cell(), AT.Text("x")
            cur.append_child(t); t.append_child(r); r.append_child(ce); ce.append_child(tx)
            n += 1
            try:
                TreeCleaner(root).remove_broken_children(root)
            except Exception as e:  # noqa: BLE001
                return True, {"ancestors": list(chain), "problem": f"raised {type(e).__name__}: {e}"}, "rbc"
            for x in root.allchildren():
                if isinstance(x, AT.Row) and not isinstance(x.parent, AT.Table):
                    return True, {"ancestors": list(chain) + ["Table"], "problem": f"row ends up below {type(x.parent).__name__}"}, "rbc"
                bad = _wf(root)
                if bad:
                    return True, {"ancestors": list(chain) + ["Table"], "problem": bad}, "rbc"
    return False, {"cases": n}, None


# ----------------------------------------------------------------------------- P4: call sites of replace_child / remove_child meet "child is listed by the receiver"
def p4_call_sites(chk):
    """Precondition of replace_child / remove_child: `child` is in `self.children` (else _id_index raises ValueError).
    Discharged per call site from well-formedness when the site has one of these shapes:
      A  E.parent.replace_child(E, ...)                        - W2: an attached node is listed by its parent
      B  for C in R.children[...]: ... R.remove_child(C)        - C was read from the receiver's list
      C  P = E.parent ... P.replace_child(E, ...)               - A through a local alias assigned in the same function
      D  R.remove_child(R.children[k])                          - C was read from the receiver's list by index
    Other sites are listed as not discharged (bounded stand-in only), not reported as violations."""
    import ast

    def norm(e):
        return ast.dump(e, annotate_fields=False)
    total, shapes, open_sites = 0, {"A": 0, "B": 0, "C": 0, "D": 0}, []
    for rel in FILES:
        m = source.module(rel)
        for fn in ast.walk(m.tree):
            if not isinstance(fn, ast.FunctionDef):
                continue
            aliases = {}       # name -> expr whose .parent it holds
            for n in ast.walk(fn):
                if isinstance(n, ast.Assign) and len(n.targets) == 1 and isinstance(n.targets[0], ast.Name) \
                        and isinstance(n.value, ast.Attribute) and n.value.attr == "parent":
                    aliases.setdefault(n.targets[0].id, []).append(norm(n.value.value))
            parents = {}
            for n in ast.walk(fn):
                for c in ast.iter_child_nodes(n):
                    parents[c] = n
            for n in ast.walk(fn):
                if not (isinstance(n, ast.Call) and isinstance(n.func, ast.Attribute) and n.func.attr in ("replace_child", "remove_child") and n.args):
                    continue
                if fn.name in ("replace_child", "remove_child") and rel.endswith("advtree.py"):
                    continue
                total += 1
                recv, child = n.func.value, n.args[0]
                shape = None
                if isinstance(recv, ast.Attribute) and recv.attr == "parent" and norm(recv.value) == norm(child):
                    shape = "A"
                elif isinstance(recv, ast.Name) and norm(child) in aliases.get(recv.id, []):
                    shape = "C"
                elif isinstance(child, ast.Subscript) and isinstance(child.value, ast.Attribute) and child.value.attr == "children" \
                        and norm(child.value.value) == norm(recv) and not isinstance(child.slice, ast.Slice):
                    shape = "D"
                else:
                    p = n
                    while p in parents and shape is None:
                        p = parents[p]
                        if isinstance(p, ast.For) and isinstance(p.target, ast.Name) and isinstance(child, ast.Name) and p.target.id == child.id:
                            it = p.iter
                            if isinstance(it, ast.Subscript):
                                it = it.value
                            if isinstance(it, ast.Call) and isinstance(it.func, ast.Name) and it.func.id in ("list", "reversed") and it.args:
                                it = it.args[0]
                            if isinstance(it, ast.Subscript):
                                it = it.value
                            if (isinstance(it, ast.Attribute) and it.attr == "children" and norm(it.value) == norm(recv)) or norm(it) == norm(recv):
                                shape = "B"
                if shape:
                    shapes[shape] += 1
                    chk.static(f"callsite.{rel.split('/')[-1]}:{fn.name}:{n.lineno}.child_is_listed_by_the_receiver", True,
                               f"shape {shape}: {ast.unparse(n)[:90]}")
                else:
                    open_sites.append(f"src/{rel}:{n.lineno} {fn.name}: {ast.unparse(n)[:100]}")
    chk.static("callsite.scan_found_the_call_sites", total >= 40, f"{total} call sites of replace_child / remove_child outside the primitives")
    chk.extra["call_sites"] = {"total": total, "discharged_by_shape": shapes, "not_discharged (bounded stand-in only)": open_sites}
