"""C04 - template expansion computes what the template language says (DESIGN 3/C04).

P1 numeric-aware equality (magics.maybe_numeric_compare) against the spec num(s);
P5 operator-table constants of #expr (precedence chain, unary set, left association).
B: expr(serialize(t)) == eval(t) on all trees to depth 3, and a reference interpreter for
parameters / defaults / #if / #ifeq / #switch on generated template universes.
"""
import itertools
import math
import random

import z3

from pyvc.interp import Explorer
from pyvc.values import SStr, SInt, SReal, SBool, Model, Sym, z3_of, kind_of

MAGICS = "mwlib/parser/templ/magics.py"
S = z3.StringSort()
float_ok = z3.Function("py_float_ok", S, z3.BoolSort())
float_val = z3.Function("py_float_val", S, z3.RealSort())


def p1_numeric_compare(chk):
    from pyvc import models
    ex = Explorer()
    fn = ex.function(MAGICS, "maybe_numeric_compare")
    ex.inline.add(MAGICS + ":as_numeric")

    def b_float(I, v=0.0):
        if isinstance(v, SStr):
            if not I.decide(float_ok(v.z)):
                I.throw("ValueError", "could not convert string to float")
            return SReal(float_val(v.z))
        if isinstance(v, (int, float)):
            return float(v)
        if isinstance(v, str):
            try:
                return float(v)
            except ValueError as e:
                I.throw("ValueError", str(e))
        from pyvc.interp import Undecided
        raise Undecided("float() of this value")
    ex.models["builtins.float"] = Model("builtins.float", b_float)

    def harness(I):
        v1, v2 = I.sym_str("value1"), I.sym_str("value2")
        # library facts about int()/float() on the same literal: an int literal is a float literal of the same value
        for v in (v1, v2):
            I.assume(z3.Implies(models.int10_ok(v.z), z3.And(float_ok(v.z), float_val(v.z) == z3.ToReal(models.int10_val(v.z)))))
        out = ex.run_function(I, fn, [v1, v2])
        I.oblige("no_raise", out.returned)

        def num_ok(v):
            return z3.Or(models.int10_ok(v.z), float_ok(v.z))

        def num(v):
            return z3.If(models.int10_ok(v.z), z3.ToReal(models.int10_val(v.z)), float_val(v.z))
        spec = z3.Or(v1.z == v2.z, z3.And(num_ok(v1), num_ok(v2), num(v1) == num(v2)))
        I.oblige("equal_iff_same_text_or_same_number", I.as_bool_term(out.value) == spec if isinstance(out.value, Sym)
                 else z3.BoolVal(bool(out.value)) == spec)

    chk.prove("magics.maybe_numeric_compare", harness, ex, targets=[fn], replay=replay_expr)


def p5_operator_table(chk):
    from mwlib.parser import expr
    p = expr.precedence
    chain = [("^", expr.UMinus), (expr.UMinus, expr.UPlus)]
    # the documented order (Help:Extension:ParserFunctions, #expr): e, unary + -; the functions; ^; * / div mod; + -; round;
    # comparisons; and; or.  (Until round 7 this obligation had been written from the code, which had ^ above the
    # functions: `floor 2.5 ^ 2` gave 6 instead of 4 - DESIGN 4 / 6.)
    ok = p["e"] == p["E"] > p[expr.UMinus] == p[expr.UPlus] > p["not"] == p["abs"] == p["floor"] == p["ceil"] == p["trunc"] == p["sin"] == p["ln"] == p["exp"] \
        > p["^"] > p["*"] == p["/"] == p["div"] == p["mod"] \
        > p["+"] == p["-"] > p["round"] > p["<"] == p[">"] == p["<="] == p[">="] == p["="] == p["!="] == p["<>"] > p["and"] > p["or"] > p["("]
    chk.static("expr.precedence_chain", ok, "e > unary + - > not/abs/floor/ceil/trunc/sin/ln/exp > ^ > * / div mod > + - > round > comparisons > and > or",
               {"precedence": {str(k): v for k, v in p.items()}}, "precedence", None if ok else False)
    chk.static("expr.unary_operators", {expr.UMinus, expr.UPlus, "not", "abs", "floor", "ceil", "trunc"} <= expr.unary_ops
               and not ({"+", "-", "*", "/", "and", "or", "=", "<"} & expr.unary_ops), str(sorted(map(str, expr.unary_ops))))
    # (left association of the pop condition is the contract p7_precedence_pop, not a text match)


# ----------------------------------------------------------------------------- bounded: #expr trees
BIN = ["+", "-", "*", "/", "mod", "^", "<", ">", "=", "!=", "and", "or"]
UN = ["-", "not", "abs", "floor", "ceil", "trunc"]
LEAVES = ["0", "1", "2", "3", "7", "2.5", "0.5", "10"]
PREC = {"or": 2, "and": 3, "<": 4, ">": 4, "=": 4, "!=": 4, "+": 6, "-": 6, "*": 8, "/": 8, "mod": 8, "^": 9}   # word functions: 10, unary + -: 11 (documented order)


def ev(t):
    if isinstance(t, str):
        return float(t) if "." in t else int(t)
    if len(t) == 2:
        op, a = t
        x = ev(a)
        return {"-": lambda: -x, "not": lambda: int(not bool(x)), "abs": lambda: abs(x), "floor": lambda: int(math.floor(x)),
                "ceil": lambda: int(math.ceil(x)), "trunc": lambda: int(x)}[op]()
    op, a, b = t
    x, y = ev(a), ev(b)
    return {"+": lambda: x + y, "-": lambda: x - y, "*": lambda: x * y, "/": lambda: x / y, "mod": lambda: int(x) % int(y),
            "^": lambda: math.pow(x, y), "<": lambda: int(x < y), ">": lambda: int(x > y), "=": lambda: int(x == y),
            "!=": lambda: int(x != y), "and": lambda: int(bool(x) and bool(y)), "or": lambda: int(bool(x) or bool(y))}[op]()


def ser(t, minimal, parent=None, right=False):
    """minimal = only the parentheses the precedence rules need.  Word prefix operators (not abs floor ceil
    trunc) bind tighter than every binary operator, ^ included: `floor 2.5 ^ 2` is (floor 2.5) ^ 2."""
    if isinstance(t, str):
        return t
    if len(t) == 2:
        op, a = t
        if op == "-":
            s = f"{op} {ser(a, minimal, ('un', op))}"
            if parent is not None or not minimal:
                return "(" + s + ")"
            return s
        s = f"{op} {ser(a, minimal, ('unw', op))}"
        if not minimal:
            return "(" + s + ")"
        if parent is None or parent[0] == "unw":
            return s
        pop, side = parent
        if pop != "un" and side == "l":
            return s                      # `floor x + 1` is (floor x) + 1: the binary operator pops the prefix operator
        return "(" + s + ")"
    op, a, b = t
    s = f"{ser(a, minimal, (op, 'l'))} {op} {ser(b, minimal, (op, 'r'))}"
    if parent is None and minimal:
        return s
    if not minimal:
        return "(" + s + ")"
    pop, side = parent
    if pop == "un":
        return "(" + s + ")"
    if pop == "unw":
        return s if PREC[op] > 10 else "(" + s + ")"
    if PREC[op] > PREC[pop] or (PREC[op] == PREC[pop] and side == "l"):
        return s
    return "(" + s + ")"


def trees(depth, rnd, count):
    def gen(d):
        if d == 0 or rnd.random() < 0.25:
            return rnd.choice(LEAVES)
        if rnd.random() < 0.25:
            return (rnd.choice(UN), gen(d - 1))
        return (rnd.choice(BIN), gen(d - 1), gen(d - 1))
    for _ in range(count):
        yield gen(depth)


def expr_search(tier, seed):
    from mwlib.parser import expr
    rnd = random.Random(seed)
    n = 0
    allt = []
    for a in LEAVES[:4]:
        for op in UN:
            allt.append((op, a))
        for b in LEAVES[:4]:
            for op in BIN:
                allt.append((op, a, b))
    lvl1 = list(allt)
    for op in BIN:
        for x in rnd.sample(lvl1, 25):
            for y in rnd.sample(lvl1, 6):
                allt.append((op, x, y))
    for f in UN[1:]:
        for a in ("1.5", "2.5", "0.5", "1"):
            for b in ("1", "0.5"):
                for n_ in ("2", "3", "0"):
                    allt.append((f, ("^", ("+", a, b), n_)))
                    allt.append(("*", "2", (f, ("^", ("-", a, b), n_))))
    allt += list(trees(3 if tier == "quick" else 4, rnd, 3000 if tier == "quick" else 30000))
    for t in allt:
        try:
            want = ev(t)
        except (ZeroDivisionError, OverflowError, ValueError):
            continue
        if isinstance(want, float) and (math.isnan(want) or math.isinf(want)):
            continue
        for minimal in (True, False):
            s = ser(t, minimal)
            n += 1
            try:
                got = expr.Expr().parse_expr(s)
            except Exception as e:  # noqa: BLE001
                return n, {"detail": f"{s!r}: raised {type(e).__name__}: {e} (expected {want})", "witness": {"expr": s, "expected": want}, "class": "raise"}
            if not (got == want or (isinstance(got, float) and abs(got - want) < 1e-9 * max(1, abs(want)))):
                return n, {"detail": f"{s!r} = {got}, the operator semantics give {want}", "witness": {"expr": s, "expected": want, "got": got}, "class": "value"}
    return n, None


# ----------------------------------------------------------------------------- bounded: template programs
class TDB:
    def __init__(self, templates):
        from mwlib.core import nshandling
        from mwlib.network import siteinfo
        self.siteinfo = siteinfo.get_siteinfo("en")
        self.nshandler = nshandling.NsHandler(self.siteinfo)
        self.templates = templates

    def get_siteinfo(self):
        return self.siteinfo

    def normalize_and_get_page(self, title, defaultns):
        from contracts.docs import Page
        ns, partial, full = self.nshandler.splitname(title, defaultns)
        if ns == 10 and partial in self.templates:
            return Page(self.templates[partial])
        return None


CASES = [
    # (templates, page, expected)
    ({"T": "[{{{1}}}|{{{2|d}}}|{{{x}}}]"}, "{{T| a | x = b }}", "[ a |d|b]"),
    ({"T": "[{{{1}}}]"}, "{{T}}", "[{{{1}}}]"),
    ({"T": "{{{1|def}}}"}, "{{T}}", "def"),
    ({"T": "{{{1|def}}}"}, "{{T|}}", ""),
    ({"A": "<{{B|{{{1}}}}}>", "B": "({{{1}}})"}, "{{A|z}}", "<(z)>"),
    # a parameter default is text like any other: blanks at its ends stay (also next to a nested call / parameter)
    ({"T": "[{{{1| {{U}} }}}]", "U": "x"}, "{{T}}", "[ x ]"),
    ({"T": "[{{{1| }}}]"}, "{{T}}", "[ ]"),
    ({"T": "[{{{1| d }}}]"}, "{{T}}", "[ d ]"),
    ({"T": "[{{{x| {{{y| e }}} }}}]"}, "{{T}}", "[  e  ]"),
    ({"T": "[{{{1|\n{{U}}\n}}}]", "U": "x"}, "{{T}}", "[\nx\n]"),
    ({"T": "[{{{1| {{#if: 1 | y }} }}}]"}, "{{T}}", "[ y ]"),
    ({"T": "[{{{1| {{U}} }}}]", "U": "x"}, "{{T|b}}", "[b]"),
    ({}, "{{#if: x | yes | no }}", "yes"),
    ({}, "{{#if:  | yes | no }}", "no"),
    ({}, "{{#if: x | yes }}{{#if: | yes }}", "yes"),
    ({}, "{{#ifeq: 01 | 1 | same | diff }}", "same"),
    ({}, "{{#ifeq: a | A | same | diff }}", "diff"),
    ({}, "{{#ifeq: 1.0 | 1 | same | diff }}", "same"),
    ({}, "{{#switch: b | a = 1 | b = 2 | #default = 3 }}", "2"),
    ({}, "{{#switch: c | a = 1 | b = 2 | #default = 3 }}", "3"),
    ({}, "{{#switch: a | a | b = 2 | #default = 3 }}", "2"),
    ({}, "{{#switch: 02 | 2 = two | #default = other }}", "two"),
    ({}, "{{#switch: x | a = 1 | last }}", "last"),
    ({"T": "{{#if: {{{1|}}} | has {{{1}}} | none }}"}, "{{T|v}}/{{T}}", "has v/none"),
    # subjects / conditions made of several nodes: blanks BETWEEN the parts belong to the value
    ({"T": "{{#switch: {{{1}}} {{{2}}} | redfish = joined | red fish = spaced | #default = other }}"}, "{{T|red|fish}}", "spaced"),
    ({"T": "{{#switch: {{{1}}}{{{2}}} | redfish = joined | red fish = spaced | #default = other }}"}, "{{T|red|fish}}", "joined"),
    ({"T": "{{#switch:  {{{1}}} {{{2}}}  | 1 2 = spaced | 12 = joined | #default = other }}"}, "{{T|1|2}}", "spaced"),
    ({"T": "{{#ifeq: {{{1}}} {{{2}}} | a b | same | diff }}"}, "{{T|a|b}}", "same"),
    ({"T": "{{#if: {{{1|}}} {{{2|}}} | yes | no }}"}, "{{T}}", "no"),
    ({}, "plain text without template syntax", "plain text without template syntax"),
    # MediaWiki: of two bindings of one name the LAST wins; a trailing case without '=' is the default and beats #default=
    ({"T": "[{{{a}}}]"}, "{{T|a=1|a=2}}", "[2]"),
    ({"T": "{{{1}}}{{{2|}}}{{{1}}}"}, "{{T|x|1=y}}", "yy"),
    ({}, "{{#switch: x | #default = y | z }}", "z"),
    ({}, "{{#switch: x | #default = d1 | #default = d2 }}", "d2"),
    ({}, "{{#expr: 1 + 2 * 3 }}", "7"),
    ({}, "{{#expr: (1 + 2) * 3 }}", "9"),
    ({}, "{{#expr: 2 ^ 3 ^ 2 }}", "64"),
    ({}, "{{#expr: 7 - 2 - 1 }}", "4"),
    ({}, "{{#expr: - 2 ^ 2 }}", "4"),
    ({}, "{{#expr: not 0 and 1 }}", "1"),
    ({}, "{{#expr: floor 2.5 ^ 2 }}", "4"),
    ({}, "{{#expr: ceil 1.2 ^ 2 }}", "4"),
    ({}, "{{#expr: trunc 1.5 ^ 2 }}", "1"),
    ({}, "{{#expr: not 0 ^ 0 }}", "1"),
    ({}, "{{#expr: 2 * 3 ^ 2 }}", "18"),
    ({}, "{{#expr: - 3 ^ 2 }}", "9"),
    ({}, "{{#expr: 2 and 3 }}", "1"),
    ({}, "{{#expr: (2 and 3) + 1 }}", "2"),
    ({}, "{{#expr: 0 or 0.5 }}", "1"),
]


def strip_ws_search():
    """Parser._strip_ws on every tuple of <= 4 parts over {node, '', ' ', '\\n ', 'a', ' a '}: only a blank FIRST and a
    blank LAST text fragment are removed, everything else is kept in order; a plain string is stripped"""
    import itertools
    from mwlib.parser.templ.parser import Parser
    node = object()
    parts = [node, "", " ", "\n ", "a", " a "]
    p = Parser.__new__(Parser)
    n = 0
    for k in range(0, 5):
        for t in itertools.product(parts, repeat=k):
            n += 1
            want = list(t)
            if want and isinstance(want[0], str) and not want[0].strip():
                del want[0]
            if want and isinstance(want[-1], str) and not want[-1].strip():
                del want[-1]
            got = p._strip_ws(t)
            if list(got) != want or any(a is not b for a, b in zip(got, want)):
                show = lambda x: ["<node>" if y is node else y for y in x]  # noqa: E731
                return n, {"detail": f"_strip_ws({show(t)}) = {show(got)}, expected {show(want)}", "witness": {"parts": show(t)}, "class": "strip_ws"}
    for s_ in ("", " a ", "\n", "a b"):
        n += 1
        if p._strip_ws(s_) != s_.strip():
            return n, {"detail": f"_strip_ws({s_!r})", "witness": {"text": s_}, "class": "strip_ws"}
    return n, None


KNOWN_CASES = {"case:{{T|a=1|a=2}}", "case:{{T|x|1=y}}", "case:{{#switch: x | #default = y | z }}", "case:{{#switch: x | #default = d1 | #default = d2 }}"}


def template_cases():
    """-> (number of cases, list of failures), one failure class per case"""
    from mwlib.parser.expander import Expander
    n, fails = 0, []
    for tpl, page, want in CASES:
        n += 1
        try:
            got = Expander(page, pagename="P", wikidb=TDB(tpl)).expandTemplates()
        except Exception as e:  # noqa: BLE001
            fails.append({"detail": f"{page!r}: raised {type(e).__name__}: {e}", "witness": {"templates": tpl, "page": page}, "class": "case:" + page})
            continue
        if got.strip() != want.strip() if want.strip() == want else got != want:
            fails.append({"detail": f"{page!r} with {tpl} expands to {got!r}, MediaWiki semantics give {want!r}",
                          "witness": {"templates": tpl, "page": page, "expected": want, "got": got}, "class": "case:" + page})
    return n, fails


def expr_text_search():
    """{{#expr: ...}} through the real expander: the printed result denotes the value (relative error <= 1e-12), also for
    magnitudes that are printed in E notation"""
    from mwlib.parser.expander import Expander
    exprs = ["7^20", "2^70", "0.001*0.0123", "1/30000", "1/7/100000", "123456789*987654321*1000", "3*10^20", "1.5*10^-7", "99999999999999999*3",
             "2^10", "1/4", "10^15", "12345.678*1000", "0.0001", "0.00012345", "-7^21", "-1/30000"]
    n = 0
    for e in exprs:
        n += 1
        try:
            want = eval(e.replace("^", "**"))        # noqa: S307 - arithmetic literals of this file only
            out = Expander("{{#expr: " + e + "}}", pagename="P", wikidb=TDB({})).expandTemplates().strip()
            got = float(out)
        except Exception as ex:  # noqa: BLE001
            return n, {"detail": f"{{{{#expr: {e}}}}}: {type(ex).__name__}: {ex}", "witness": {"expr": e}, "class": "expr-text:raise"}
        if abs(got - want) > 1e-12 * max(abs(want), 1e-300):
            return n, {"detail": f"{{{{#expr: {e}}}}} prints {out!r} = {got!r}, the value is {want!r}", "witness": {"expr": e, "printed": out, "value": want}, "class": "expr-text:value"}
    return n, None


def bounded(chk):
    n4, f4 = expr_text_search()
    chk.bounded_result("expr_printed_results_denote_the_value", n4, n4, True,
                       "17 expressions with results inside and outside [1e-4, 1e16) through {{#expr:}}: float(printed text) equals the value up to 1e-12 relative", [f4] if f4 else [])
    n, f = expr_search(chk.tier, chk.seed)
    chk.bounded_result("expr_trees", n, n, False,
                       "all depth-1 trees over 4 leaves x (12 binary + 6 unary operators), sampled depth-2 compositions and seeded random trees to depth 3 (quick) / 4 (thorough), each serialised with minimal and with full parentheses; reference = operator semantics in Python",
                       [f] if f else [])
    n3, f3 = strip_ws_search()
    chk.bounded_result("strip_ws_of_conditions_and_switch_subjects", n3, n3, True,
                       "Parser._strip_ws on all tuples of <= 4 parts over {node, 4 blank / non-blank strings}: removes only a blank first / last text fragment", [f3] if f3 else [])
    n2, f2 = template_cases()
    chk.bounded_result("template_semantics_cases", n2, n2, True,
                       "hand-written template programs (positional unstripped / named stripped, defaults, literal fallback, nesting, duplicate bindings, #if, #ifeq numeric, #switch fall-through / #default / trailing default, multi-node subjects, precedence and association of #expr)",
                       f2)


def replay_expr(model, obligation):
    n, f = expr_search("quick", 0)
    if f:
        return True, f["witness"], f["class"]
    n2, f2 = template_cases()
    f2 = [f for f in f2 if f["class"] not in KNOWN_CASES]
    if f2:
        return True, f2[0]["witness"], f2[0]["class"]
    return False, {"searched": n + n2}, None


def run(chk):
    p1_numeric_compare(chk)
    p5_operator_table(chk)
    p6_closing_parenthesis(chk)
    p7_precedence_pop(chk)
    bounded(chk)
    chk.assumptions += [
        "int(s)/float(s) are uninterpreted partial functions with: an int literal is also a float literal of the same value",
        "ArgumentList.get / Variable.flatten / IfNode / SwitchNode (nodes.pyx, evaluate.pyx) and the shunting-yard loop are covered by the bounded stand-ins only",
    ]


# ----------------------------------------------------------------------------- P6: the pop loop of a closing parenthesis in the #expr evaluator
EXPRPY = "mwlib/parser/expr.py"


def p6_closing_parenthesis(chk):
    """Operational definition of the shunting-yard step for ')', as a contract over an abstract operator stack
    (length n, array of operator strings): _handle_closing_parenthesis outputs exactly the operators above the
    nearest '(' (top first), removes them and that '(' and nothing else; ExprError iff there is no '('."""
    from pyvc import source
    from pyvc.interp import LoopSpec, Forall
    from pyvc.schema import Typing
    from pyvc.values import SInt, SStr, ClassRef, Model, PObj
    Z, S = z3.IntSort(), z3.StringSort()
    AS = z3.ArraySort(Z, S)
    LP = z3.StringVal("(")
    ex = Explorer()
    ex.typing = Typing({"ops": ("index",), "out": ("index",)}, {})

    def g(I):
        return I.ghost
    ex.truthy_hooks["opstack"] = lambda I, st: I.decide(g(I)["n"] > 0)
    ex.len_hooks["opstack"] = lambda I, st: SInt(g(I)["n"])

    def st_pop(I, st):
        G = g(I)
        if not I.decide(G["n"] > 0):
            I.throw("IndexError", "pop from empty list")
        G["n"] = G["n"] - 1
        return SStr(z3.Select(G["ops"], G["n"]))
    ex.methods[("opstack", "pop")] = Model("list.pop on the operator stack", st_pop)

    def st_getitem(I, st, idx):
        G = g(I)
        k = I._int_term(idx)
        k = z3.If(k < 0, k + G["n"], k)
        if not I.decide(z3.And(k >= 0, k < G["n"])):
            I.throw("IndexError", "list index out of range")
        return SStr(z3.Select(G["ops"], k))
    ex.getitem_hooks["opstack"] = st_getitem

    def output_operator(I, self, op):
        G = g(I)
        G["out"] = z3.Store(G["out"], G["m"], op.z if isinstance(op, SStr) else z3.StringVal(op))
        G["m"] = G["m"] + 1
    mod = source.module(EXPRPY)
    ecls = ClassRef(mod.defs["Expr"], mod)
    fn = ex.function(EXPRPY, "Expr._handle_closing_parenthesis")
    ex.contracts[f"{EXPRPY}:Expr.output_operator"] = output_operator

    def inv(I, v, it):
        G = g(I)
        n, n0, m, ops, out = G["n"], G["n0"], G["m"], G["ops0"], G["out"]
        I.hint("index", n)
        I.hint("index", n0 - 1 - m)
        I.hint("index", m)
        return [("stack_shrinks_only", z3.And(n >= 0, n <= n0)),
                ("one_output_per_removed_operator", m == n0 - n),
                ("stack_cells_never_written", G["ops"] == ops),
                ("removed_operators_are_not_parentheses", Forall(["index"], lambda j: z3.Implies(z3.And(j >= n, j < n0), z3.Select(ops, j) != LP))),
                ("outputs_are_the_removed_operators_top_first", Forall(["index"], lambda j: z3.Implies(z3.And(j >= 0, j < m), z3.Select(out, j) == z3.Select(ops, n0 - 1 - j))))]

    def havoc(I, v, it):
        G = g(I)
        G["n"] = I.fresh("n", Z)
        G["m"] = I.fresh("m", Z)
        G["out"] = I.fresh("out", AS)
    ex.loopspecs[(fn.ident, 0)] = LoopSpec(inv, lambda I, v, it: g(I)["n"] + 1, havoc)

    def harness(I):
        G = g(I)
        G["n"] = G["n0"] = I.fresh("n0", Z)
        G["ops"] = G["ops0"] = I.fresh("ops0", AS)
        G["m"] = z3.IntVal(0)
        G["out"] = I.fresh("out0", AS)
        I.inputs["n0"] = G["n0"]
        I.assume(G["n0"] >= 0)
        out = ex.run_function(I, fn, [PObj(ecls, {}), PObj("opstack", {})])
        n, n0, m, ops = G["n"], G["n0"], G["m"], G["ops0"]
        I.hint("index", n)
        if out.returned:
            I.oblige("stops_at_the_nearest_open_parenthesis", z3.And(n >= 0, n < n0, z3.Select(ops, n) == LP))
            I.oblige("removes_exactly_the_operators_above_it_and_the_parenthesis", m == n0 - n - 1)
            I.oblige("nothing_between_is_a_parenthesis", Forall(["index"], lambda j: z3.Implies(z3.And(j > n, j < n0), z3.Select(ops, j) != LP)))
            I.oblige("outputs_top_first", Forall(["index"], lambda j: z3.Implies(z3.And(j >= 0, j < m), z3.Select(G["out"], j) == z3.Select(ops, n0 - 1 - j))))
            I.oblige("rest_of_the_stack_untouched", G["ops"] == ops)
        else:
            I.oblige("raises_ExprError_only", out.raised("ExprError"))
            I.oblige("raises_only_without_an_open_parenthesis", Forall(["index"], lambda j: z3.Implies(z3.And(j >= 0, j < n0), z3.Select(ops, j) != LP)))
    chk.prove("expr.Expr._handle_closing_parenthesis", harness, ex, targets=[fn], replay=replay_expr)


# ----------------------------------------------------------------------------- P7: the precedence pop loop (binary / prefix operators) of the #expr evaluator
def p7_precedence_pop(chk):
    """_process_expression_elements for an operator token: a prefix operator is pushed without popping; a binary
    operator of precedence p first outputs exactly the maximal top segment of stacked operators whose precedence
    is >= p (left association, '(' stops it), top first, then is pushed.  Operator stack abstract as in P6; the
    precedence table and the set of prefix operators are the real ones (read from the imported module; the two
    marker classes UMinus / UPlus are represented by reserved strings)."""
    from mwlib.parser import expr as real
    from pyvc import source
    from pyvc.interp import LoopSpec, Forall
    from pyvc.schema import Typing
    from pyvc.values import SInt, SStr, ClassRef, Model, PObj
    Z, S = z3.IntSort(), z3.StringSort()
    AS = z3.ArraySort(Z, S)

    def nm(k):
        return k if isinstance(k, str) else f"<{k.__name__}>"
    PREC = {nm(k): v for k, v in real.precedence.items()}
    UNARY = {nm(k) for k in real.unary_ops}
    ex = Explorer()
    ex.typing = Typing({"ops": ("index",), "out": ("index",)}, {})
    ex.global_overrides[(EXPRPY, "precedence")] = lambda I: dict(PREC)
    ex.global_overrides[(EXPRPY, "unary_ops")] = lambda I: set(UNARY)
    ex.global_overrides[(EXPRPY, "UMinus")] = "<UMinus>"
    ex.global_overrides[(EXPRPY, "UPlus")] = "<UPlus>"

    def prec_of(s):
        t = None
        for k, v in PREC.items():
            t = z3.IntVal(v) if t is None else z3.If(s == z3.StringVal(k), z3.IntVal(v), t)
        return t

    def member(s):
        return z3.Or(*[s == z3.StringVal(k) for k in PREC])

    def g(I):
        return I.ghost
    ex.truthy_hooks["opstack"] = lambda I, st: I.decide(g(I)["n"] > 0)
    ex.len_hooks["opstack"] = lambda I, st: SInt(g(I)["n"])

    def st_pop(I, st):
        G = g(I)
        if not I.decide(G["n"] > 0):
            I.throw("IndexError", "pop from empty list")
        G["n"] = G["n"] - 1
        return SStr(z3.Select(G["ops"], G["n"]))
    ex.methods[("opstack", "pop")] = Model("list.pop on the operator stack", st_pop)

    def st_append(I, st, v):
        G = g(I)
        G["ops"] = z3.Store(G["ops"], G["n"], v.z if isinstance(v, SStr) else z3.StringVal(v))
        G["n"] = G["n"] + 1
        G["pushed"].append(v)
    ex.methods[("opstack", "append")] = Model("list.append on the operator stack", st_append)

    def st_getitem(I, st, idx):
        G = g(I)
        k = I._int_term(idx)
        k = z3.If(k < 0, k + G["n"], k)
        if not I.decide(z3.And(k >= 0, k < G["n"])):
            I.throw("IndexError", "list index out of range")
        I.hint("index", z3.simplify(k))
        return SStr(z3.Select(G["ops"], z3.simplify(k)))
    ex.getitem_hooks["opstack"] = st_getitem

    def output_operator(I, self, op):
        G = g(I)
        G["out"] = z3.Store(G["out"], G["m"], op.z if isinstance(op, SStr) else z3.StringVal(op))
        G["m"] = G["m"] + 1
    mod = source.module(EXPRPY)
    ecls = ClassRef(mod.defs["Expr"], mod)
    fn = ex.function(EXPRPY, "Expr._process_expression_elements")
    ex.contracts[f"{EXPRPY}:Expr.output_operator"] = output_operator
    ex.inline.add(f"{EXPRPY}:Expr._convert_to_unary_operator")
    # the ')' branch cannot be taken for an operator token (precondition of this harness)
    ex.contracts[f"{EXPRPY}:Expr._handle_closing_parenthesis"] = lambda I, self, st: I.oblige("closing_branch_not_taken_for_an_operator", z3.BoolVal(False))

    def inv(I, v, it):
        G = g(I)
        n, n0, m, ops, out = G["n"], G["n0"], G["m"], G["ops0"], G["out"]
        p = I._int_term(v["prec"])
        I.hint("index", n)
        I.hint("index", n - 1)
        I.hint("index", n0 - 1 - m)
        I.hint("index", m)
        u = v["is_unary"]
        u = u.z if hasattr(u, "z") else z3.BoolVal(bool(u))
        return [("stack_shrinks_only", z3.And(n >= 0, n <= n0)),
                ("one_output_per_removed_operator", m == n0 - n),
                ("stack_cells_never_written", G["ops"] == ops),
                ("a_prefix_operator_pops_nothing", z3.Implies(u, z3.And(n == n0, m == 0))),
                ("removed_operators_bind_at_least_as_tight", Forall(["index"], lambda j: z3.Implies(z3.And(j >= n, j < n0), prec_of(z3.Select(ops, j)) >= p))),
                ("outputs_are_the_removed_operators_top_first", Forall(["index"], lambda j: z3.Implies(z3.And(j >= 0, j < m), z3.Select(out, j) == z3.Select(ops, n0 - 1 - j))))]

    def havoc(I, v, it):
        G = g(I)
        G["n"] = I.fresh("n", Z)
        G["m"] = I.fresh("m", Z)
        G["out"] = I.fresh("out", AS)
    ex.loopspecs[(fn.ident, 0)] = LoopSpec(inv, lambda I, v, it: g(I)["n"] + 1, havoc, keep=("operator", "prec", "is_unary"))

    def harness(I):
        G = g(I)
        G["n"] = G["n0"] = I.fresh("n0", Z)
        G["ops"] = G["ops0"] = I.fresh("ops0", AS)
        G["m"] = z3.IntVal(0)
        G["out"] = I.fresh("out0", AS)
        G["pushed"] = []
        I.inputs["n0"] = G["n0"]
        I.assume(G["n0"] >= 0)
        ops0, n0 = G["ops0"], G["n0"]
        # precondition: the stack holds operators of the table only ('(' included)
        I.assume(Forall(["index"], lambda j: z3.Implies(z3.And(j >= 0, j < n0), member(z3.Select(ops0, j))), "stack_holds_known_operators"))
        op = I.fresh("operator", S)
        I.inputs["operator"] = op
        I.assume(z3.And(member(op), op != z3.StringVal("("), op != z3.StringVal(")"),
                        op != z3.StringVal("<UMinus>"), op != z3.StringVal("<UPlus>")))     # what the tokenizer can deliver as an operator
        k = I.choose(3, "what_came_before")
        last_operator = [True, ")", SStr(I.fresh("last_operator", S))][k]
        last_operand = False if k != 1 else I.fresh_bool("last_operand")
        out = ex.run_function(I, fn, [PObj(ecls, {"operand_stack": []}), "", SStr(op), PObj("opstack", {}), last_operand, last_operator])
        I.oblige("no_raise" if out.returned else f"no_raise[{out.exc!r}]", out.returned)
        if not out.returned:
            return
        n, m, ops = G["n"], G["m"], G["ops0"]
        pushed = G["pushed"]
        I.oblige("exactly_one_operator_pushed", len(pushed) == 1)
        if len(pushed) != 1:
            return
        pz = pushed[0].z if isinstance(pushed[0], SStr) else z3.StringVal(pushed[0])
        unary_after = z3.Or(*[pz == z3.StringVal(u) for u in UNARY])
        p = prec_of(pz)
        base = n - 1                      # stack below the pushed operator
        I.hint("index", base)
        I.hint("index", base - 1)
        I.oblige("a_prefix_operator_pops_nothing", z3.Implies(unary_after, z3.And(m == 0, base == n0)))
        I.oblige("popped_exactly_the_top_segment", m == n0 - base)
        I.oblige("every_popped_operator_binds_at_least_as_tight", Forall(["index"], lambda j: z3.Implies(z3.And(j >= base, j < n0), prec_of(z3.Select(ops, j)) >= p)))
        I.oblige("the_segment_is_maximal", z3.Implies(z3.And(z3.Not(unary_after), base > 0), prec_of(z3.Select(ops, base - 1)) < p))
        I.oblige("outputs_top_first", Forall(["index"], lambda j: z3.Implies(z3.And(j >= 0, j < m), z3.Select(G["out"], j) == z3.Select(ops, n0 - 1 - j))))
        I.oblige("stack_below_untouched", Forall(["index"], lambda j: z3.Implies(z3.And(j >= 0, j < base), z3.Select(G["ops"], j) == z3.Select(ops, j))))
        # minus / plus become prefix operators exactly when no operand (or ')') precedes them
        lo_truthy = True if k in (0, 1) else None
        if k == 0:
            I.oblige("sign_after_an_operator_is_a_prefix_operator", z3.And(z3.Implies(op == z3.StringVal("-"), pz == z3.StringVal("<UMinus>")),
                                                                        z3.Implies(op == z3.StringVal("+"), pz == z3.StringVal("<UPlus>"))))
        if k == 1:
            I.oblige("sign_after_a_closing_parenthesis_is_binary", pz == op)
    chk.prove("expr.Expr._process_expression_elements[operator]", harness, ex, targets=[fn], replay=replay_expr)
