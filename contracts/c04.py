"""C04 - template expansion computes what the template language says (DESIGN 3/C04).

P1 numeric-aware equality (magics.maybe_numeric_compare) against the spec num(s);
P5 operator-table constants of #expr (precedence chain, unary set, left association).
B: expr(serialize(t)) == eval(t) on all trees to depth 3, and a reference interpreter for
parameters / defaults / #if / #ifeq / #switch on generated template universes.
"""
import itertools
import math
import random

import z3

from pyvc.interp import Explorer
from pyvc.values import SStr, SInt, SReal, SBool, Model, Sym, z3_of, kind_of

MAGICS = "mwlib/parser/templ/magics.py"
S = z3.StringSort()
float_ok = z3.Function("py_float_ok", S, z3.BoolSort())
float_val = z3.Function("py_float_val", S, z3.RealSort())


def p1_numeric_compare(chk):
    from pyvc import models
    ex = Explorer()
    fn = ex.function(MAGICS, "maybe_numeric_compare")
    ex.inline.add(MAGICS + ":as_numeric")

    def b_float(I, v=0.0):
        if isinstance(v, SStr):
            if not I.decide(float_ok(v.z)):
                I.throw("ValueError", "could not convert string to float")
            return SReal(float_val(v.z))
        if isinstance(v, (int, float)):
            return float(v)
        if isinstance(v, str):
            try:
                return float(v)
            except ValueError as e:
                I.throw("ValueError", str(e))
        from pyvc.interp import Undecided
        raise Undecided("float() of this value")
    ex.models["builtins.float"] = Model("builtins.float", b_float)

    def harness(I):
        v1, v2 = I.sym_str("value1"), I.sym_str("value2")
        # library facts about int()/float() on the same literal: an int literal is a float literal of the same value
        for v in (v1, v2):
            I.assume(z3.Implies(models.int10_ok(v.z), z3.And(float_ok(v.z), float_val(v.z) == z3.ToReal(models.int10_val(v.z)))))
        out = ex.run_function(I, fn, [v1, v2])
        I.oblige("no_raise", out.returned)

        def num_ok(v):
            return z3.Or(models.int10_ok(v.z), float_ok(v.z))

        def num(v):
            return z3.If(models.int10_ok(v.z), z3.ToReal(models.int10_val(v.z)), float_val(v.z))
        spec = z3.Or(v1.z == v2.z, z3.And(num_ok(v1), num_ok(v2), num(v1) == num(v2)))
        I.oblige("equal_iff_same_text_or_same_number", I.as_bool_term(out.value) == spec if isinstance(out.value, Sym)
                 else z3.BoolVal(bool(out.value)) == spec)

    chk.prove("magics.maybe_numeric_compare", harness, ex, targets=[fn], replay=replay_expr)


def p5_operator_table(chk):
    from mwlib.parser import expr
    p = expr.precedence
    chain = [("^", expr.UMinus), (expr.UMinus, expr.UPlus)]
    ok = p["^"] == p[expr.UMinus] == p[expr.UPlus] > p["not"] == p["abs"] == p["floor"] == p["ceil"] == p["trunc"] > p["*"] == p["/"] == p["div"] == p["mod"] \
        > p["+"] == p["-"] > p["round"] > p["<"] == p[">"] == p["<="] == p[">="] == p["="] == p["!="] == p["<>"] > p["and"] > p["or"] > p["("]
    chk.static("expr.precedence_chain", ok, "^ = unary > not/abs/floor/ceil/trunc > * / div mod > + - > round > comparisons > and > or")
    chk.static("expr.unary_operators", {expr.UMinus, expr.UPlus, "not", "abs", "floor", "ceil", "trunc"} <= expr.unary_ops
               and not ({"+", "-", "*", "/", "and", "or", "=", "<"} & expr.unary_ops), str(sorted(map(str, expr.unary_ops))))
    import ast
    from pyvc import source
    src = ast.unparse(source.module("mwlib/parser/expr.py").find("Expr._process_expression_elements"))
    chk.static("expr.pop_condition_is_left_associative", "while not is_unary and operator_stack and (prec <= precedence[operator_stack[-1]])" in src
               or "while not is_unary and operator_stack and prec <= precedence[operator_stack[-1]]" in src, "prec <= precedence[top]")


# ----------------------------------------------------------------------------- bounded: #expr trees
BIN = ["+", "-", "*", "/", "mod", "^", "<", ">", "=", "!=", "and", "or"]
UN = ["-", "not", "abs", "floor", "ceil", "trunc"]
LEAVES = ["0", "1", "2", "3", "7", "2.5", "0.5", "10"]
PREC = {"or": 2, "and": 3, "<": 4, ">": 4, "=": 4, "!=": 4, "+": 6, "-": 6, "*": 8, "/": 8, "mod": 8, "^": 10}


def ev(t):
    if isinstance(t, str):
        return float(t) if "." in t else int(t)
    if len(t) == 2:
        op, a = t
        x = ev(a)
        return {"-": lambda: -x, "not": lambda: int(not bool(x)), "abs": lambda: abs(x), "floor": lambda: int(math.floor(x)),
                "ceil": lambda: int(math.ceil(x)), "trunc": lambda: int(x)}[op]()
    op, a, b = t
    x, y = ev(a), ev(b)
    return {"+": lambda: x + y, "-": lambda: x - y, "*": lambda: x * y, "/": lambda: x / y, "mod": lambda: int(x) % int(y),
            "^": lambda: math.pow(x, y), "<": lambda: int(x < y), ">": lambda: int(x > y), "=": lambda: int(x == y),
            "!=": lambda: int(x != y), "and": lambda: int(bool(x) and bool(y)), "or": lambda: int(bool(x) or bool(y))}[op]()


def ser(t, minimal, parent=None, right=False):
    if isinstance(t, str):
        return t
    if len(t) == 2:
        op, a = t
        s = f"{op} {ser(a, minimal, ('un', op))}"
        if parent is not None or not minimal:
            return "(" + s + ")"
        return s
    op, a, b = t
    s = f"{ser(a, minimal, (op, 'l'))} {op} {ser(b, minimal, (op, 'r'))}"
    if parent is None and minimal:
        return s
    if not minimal:
        return "(" + s + ")"
    pop, side = parent
    if pop == "un":
        return "(" + s + ")"
    if PREC[op] > PREC[pop] or (PREC[op] == PREC[pop] and side == "l"):
        return s
    return "(" + s + ")"


def trees(depth, rnd, count):
    def gen(d):
        if d == 0 or rnd.random() < 0.25:
            return rnd.choice(LEAVES)
        if rnd.random() < 0.25:
            return (rnd.choice(UN), gen(d - 1))
        return (rnd.choice(BIN), gen(d - 1), gen(d - 1))
    for _ in range(count):
        yield gen(depth)


def expr_search(tier, seed):
    from mwlib.parser import expr
    rnd = random.Random(seed)
    n = 0
    allt = []
    for a in LEAVES[:4]:
        for op in UN:
            allt.append((op, a))
        for b in LEAVES[:4]:
            for op in BIN:
                allt.append((op, a, b))
    lvl1 = list(allt)
    for op in BIN:
        for x in rnd.sample(lvl1, 25):
            for y in rnd.sample(lvl1, 6):
                allt.append((op, x, y))
    allt += list(trees(3 if tier == "quick" else 4, rnd, 3000 if tier == "quick" else 30000))
    for t in allt:
        try:
            want = ev(t)
        except (ZeroDivisionError, OverflowError, ValueError):
            continue
        if isinstance(want, float) and (math.isnan(want) or math.isinf(want)):
            continue
        for minimal in (True, False):
            s = ser(t, minimal)
            n += 1
            try:
                got = expr.Expr().parse_expr(s)
            except Exception as e:  # noqa: BLE001
                return n, {"detail": f"{s!r}: raised {type(e).__name__}: {e} (expected {want})", "witness": {"expr": s, "expected": want}, "class": "raise"}
            if not (got == want or (isinstance(got, float) and abs(got - want) < 1e-9 * max(1, abs(want)))):
                return n, {"detail": f"{s!r} = {got}, the operator semantics give {want}", "witness": {"expr": s, "expected": want, "got": got}, "class": "value"}
    return n, None


# ----------------------------------------------------------------------------- bounded: template programs
class TDB:
    def __init__(self, templates):
        from mwlib.core import nshandling
        from mwlib.network import siteinfo
        self.siteinfo = siteinfo.get_siteinfo("en")
        self.nshandler = nshandling.NsHandler(self.siteinfo)
        self.templates = templates

    def get_siteinfo(self):
        return self.siteinfo

    def normalize_and_get_page(self, title, defaultns):
        from contracts.docs import Page
        ns, partial, full = self.nshandler.splitname(title, defaultns)
        if ns == 10 and partial in self.templates:
            return Page(self.templates[partial])
        return None


CASES = [
    # (templates, page, expected)
    ({"T": "[{{{1}}}|{{{2|d}}}|{{{x}}}]"}, "{{T| a | x = b }}", "[ a |d|b]"),
    ({"T": "[{{{1}}}]"}, "{{T}}", "[{{{1}}}]"),
    ({"T": "{{{1|def}}}"}, "{{T}}", "def"),
    ({"T": "{{{1|def}}}"}, "{{T|}}", ""),
    ({"A": "<{{B|{{{1}}}}}>", "B": "({{{1}}})"}, "{{A|z}}", "<(z)>"),
    ({}, "{{#if: x | yes | no }}", "yes"),
    ({}, "{{#if:  | yes | no }}", "no"),
    ({}, "{{#if: x | yes }}{{#if: | yes }}", "yes"),
    ({}, "{{#ifeq: 01 | 1 | same | diff }}", "same"),
    ({}, "{{#ifeq: a | A | same | diff }}", "diff"),
    ({}, "{{#ifeq: 1.0 | 1 | same | diff }}", "same"),
    ({}, "{{#switch: b | a = 1 | b = 2 | #default = 3 }}", "2"),
    ({}, "{{#switch: c | a = 1 | b = 2 | #default = 3 }}", "3"),
    ({}, "{{#switch: a | a | b = 2 | #default = 3 }}", "2"),
    ({}, "{{#switch: 02 | 2 = two | #default = other }}", "two"),
    ({}, "{{#switch: x | a = 1 | last }}", "last"),
    ({"T": "{{#if: {{{1|}}} | has {{{1}}} | none }}"}, "{{T|v}}/{{T}}", "has v/none"),
    ({}, "plain text without template syntax", "plain text without template syntax"),
    ({}, "{{#expr: 1 + 2 * 3 }}", "7"),
    ({}, "{{#expr: (1 + 2) * 3 }}", "9"),
    ({}, "{{#expr: 2 ^ 3 ^ 2 }}", "64"),
    ({}, "{{#expr: 7 - 2 - 1 }}", "4"),
    ({}, "{{#expr: - 2 ^ 2 }}", "4"),
    ({}, "{{#expr: not 0 and 1 }}", "1"),
]


def template_cases():
    from mwlib.parser.expander import Expander
    n = 0
    for tpl, page, want in CASES:
        n += 1
        try:
            got = Expander(page, pagename="P", wikidb=TDB(tpl)).expandTemplates()
        except Exception as e:  # noqa: BLE001
            return n, {"detail": f"{page!r}: raised {type(e).__name__}: {e}", "witness": {"templates": tpl, "page": page}, "class": "raise"}
        if got.strip() != want.strip() if want.strip() == want else got != want:
            return n, {"detail": f"{page!r} with {tpl} expands to {got!r}, MediaWiki semantics give {want!r}", "witness": {"templates": tpl, "page": page, "expected": want, "got": got}, "class": "value"}
    return n, None


def bounded(chk):
    n, f = expr_search(chk.tier, chk.seed)
    chk.bounded_result("expr_trees", n, n, False,
                       "all depth-1 trees over 4 leaves x (12 binary + 6 unary operators), sampled depth-2 compositions and seeded random trees to depth 3 (quick) / 4 (thorough), each serialised with minimal and with full parentheses; reference = operator semantics in Python",
                       [f] if f else [])
    n2, f2 = template_cases()
    chk.bounded_result("template_semantics_cases", n2, n2, True,
                       "hand-written template programs (positional unstripped / named stripped, defaults, literal fallback, nesting, #if, #ifeq numeric, #switch fall-through / #default, precedence and association of #expr)",
                       [f2] if f2 else [])


def replay_expr(model, obligation):
    n, f = expr_search("quick", 0)
    if f:
        return True, f["witness"], f["class"]
    n2, f2 = template_cases()
    if f2:
        return True, f2["witness"], f2["class"]
    return False, {"searched": n + n2}, None


def run(chk):
    p1_numeric_compare(chk)
    p5_operator_table(chk)
    bounded(chk)
    chk.assumptions += [
        "int(s)/float(s) are uninterpreted partial functions with: an int literal is also a float literal of the same value",
        "ArgumentList.get / Variable.flatten / IfNode / SwitchNode (nodes.pyx, evaluate.pyx) and the shunting-yard loop are covered by the bounded stand-ins only",
    ]
