"""C06 - every cleaning pass completes on every parsed document (DESIGN 3/C06).

P1 API-resolution obligations (static): every attribute used on a value that the code
itself treats as a tree node resolves on the real node classes (class table built from
the imported classes at check time) or is an attribute the code base assigns on nodes.
In a deductive verifier a call to an undeclared method is rejected before any VC; here
it is the defect class the property names ("node API ... snake_case after a rename").
B: each pass, driven directly (not through clean()'s catch-all), on enumerated inputs.
"""
import ast
import os

from pyvc import source

FILES = ["mwlib/parser/treecleaner.py", "mwlib/parser/treecleanerhelper.py",
         "mwlib/rendering/styleutils.py", "mwlib/rendering/miscutils.py"]
NODE_EVIDENCE = {"children", "parent", "get_parents", "get_all_children", "get_child_nodes_by_class",
                 "get_parent_nodes_by_class", "replace_child", "remove_child", "append_child", "move_to",
                 "get_all_siblings", "get_all_display_text", "has_class_id", "vlist"}
NODE_RETURNING = {"get_child_nodes_by_class", "get_parent_nodes_by_class", "get_all_children", "get_parents",
                  "get_all_siblings", "get_siblings", "get_first_leaf", "get_last_leaf", "get_last_child",
                  "get_parent"}
NODE_ATTRS = {"parent", "previous", "next"}
NODE_LIST_ATTRS = {"children", "siblings", "parents"}


NODE_CLASS_NAMES = set()


def node_class_table():
    """attribute names available on tree nodes, from the real classes"""
    from mwlib.parser import advtree, nodes
    names = set()
    classes = []
    for mod in (advtree, nodes):
        for v in vars(mod).values():
            if isinstance(v, type) and (issubclass(v, nodes.Node) or issubclass(v, advtree.AdvancedNode)):
                classes.append(v)
    for c in classes:
        names.update(dir(c))
        NODE_CLASS_NAMES.add(c.__name__)
    # instance attributes assigned in the node modules / on nodes anywhere in the parser and rendering code
    assigned = set()
    for rel in ["mwlib/parser/advtree.py", "mwlib/parser/nodes.py", "mwlib/parser/treecleaner.py",
                "mwlib/parser/treecleanerhelper.py", "mwlib/rendering/styleutils.py", "mwlib/rendering/miscutils.py",
                "mwlib/parser/refine/compat.py", "mwlib/parser/refine/core.py", "mwlib/parser/token/utoken.py",
                "mwlib/parser/refine/parse_table.py", "mwlib/parser/refine/tagparser.py", "mwlib/parser/post_processors.py",
                "mwlib/writers/rl/writer.py", "mwlib/parser/tagext.py"]:
        try:
            m = source.module(rel)
        except source.SourceError:
            continue
        for n in ast.walk(m.tree):
            if isinstance(n, ast.Attribute) and isinstance(n.ctx, ast.Store):
                assigned.add(n.attr)
            if isinstance(n, ast.Call) and isinstance(n.func, ast.Name) and n.func.id == "setattr" and len(n.args) >= 2 \
                    and isinstance(n.args[1], ast.Constant):
                assigned.add(n.args[1].value)
    return names, assigned, len(classes)


class FuncTyper(ast.NodeVisitor):
    """crude, conservative dataflow: a local name is node-typed when the function itself
    uses it as a node (accesses .children/.parent/... on it, iterates a node's children
    into it, binds it from a node-returning API)."""

    def __init__(self, fn):
        self.fn = fn
        self.node_vars = set()
        changed = True
        rounds = 0
        while changed and rounds < 5:
            before = len(self.node_vars)
            self.scan()
            changed = len(self.node_vars) != before
            rounds += 1

    def is_node_expr(self, e):
        if isinstance(e, ast.Name):
            return e.id in self.node_vars
        if isinstance(e, ast.Attribute):
            return e.attr in NODE_ATTRS and self.is_node_expr(e.value)
        if isinstance(e, ast.Subscript):
            return self.is_node_list(e.value) and not isinstance(e.slice, ast.Slice)
        if isinstance(e, ast.Call) and isinstance(e.func, ast.Attribute):
            return e.func.attr in ("get_first_leaf", "get_last_leaf", "get_last_child", "get_parent", "copy") and \
                self.is_node_expr(e.func.value)
        if isinstance(e, ast.Call) and isinstance(e.func, ast.Name):
            return e.func.id in NODE_CLASS_NAMES      # constructor of a node class
        return False

    def is_node_list(self, e):
        if isinstance(e, ast.Attribute):
            return e.attr in NODE_LIST_ATTRS and self.is_node_expr(e.value)
        if isinstance(e, ast.Subscript) and isinstance(e.slice, ast.Slice):
            return self.is_node_list(e.value)
        if isinstance(e, ast.Call) and isinstance(e.func, ast.Attribute):
            return e.func.attr in NODE_RETURNING - {"get_first_leaf", "get_last_leaf", "get_last_child", "get_parent"} \
                and self.is_node_expr(e.func.value)
        return False

    def scan(self):
        for n in ast.walk(self.fn):
            if isinstance(n, ast.Attribute) and isinstance(n.value, ast.Name) and n.attr in NODE_EVIDENCE:
                self.node_vars.add(n.value.id)
            elif isinstance(n, (ast.For, ast.comprehension)):
                if isinstance(n.target, ast.Name) and (self.is_node_list(n.iter) or self.is_node_expr(n.iter)):
                    self.node_vars.add(n.target.id)
            elif isinstance(n, ast.Assign) and len(n.targets) == 1 and isinstance(n.targets[0], ast.Name):
                if self.is_node_expr(n.value):
                    self.node_vars.add(n.targets[0].id)


def p1_api_resolution(chk):
    names, assigned, nclasses = node_class_table()
    typed = untyped = 0
    unresolved = []
    for rel in FILES:
        mod = source.module(rel)
        for fn in ast.walk(mod.tree):
            if not isinstance(fn, (ast.FunctionDef, ast.AsyncFunctionDef)):
                continue
            ty = FuncTyper(fn)
            # names rebound to something that is clearly not a node are dropped (no false alarm)
            non_node = set()
            for n in ast.walk(fn):
                if isinstance(n, ast.Assign):
                    for t in n.targets:
                        if isinstance(t, ast.Name) and isinstance(n.value, (ast.List, ast.Dict, ast.Constant, ast.ListComp,
                                                                            ast.JoinedStr, ast.Tuple, ast.Set, ast.BinOp)):
                            non_node.add(t.id)
            for n in ast.walk(fn):
                if isinstance(n, ast.Attribute) and isinstance(n.ctx, ast.Load):
                    recv = n.value
                    if isinstance(recv, ast.Name) and recv.id in ("self", "cls"):
                        continue
                    if ty.is_node_expr(recv) and not (isinstance(recv, ast.Name) and recv.id in non_node):
                        typed += 1
                        if n.attr not in names and n.attr not in assigned:
                            unresolved.append((rel, n.lineno, fn.name, ast.unparse(n)))
                    else:
                        untyped += 1
    seen = set()
    for rel, line, fname, expr in unresolved:
        attr = expr.rsplit(".", 1)[1]
        key = (rel, fname, attr)
        if key in seen:
            continue
        seen.add(key)
        reproduced = replay_attr(attr)
        chk.static(f"api.{os.path.basename(rel)[:-3]}.{fname}[{attr}]", False,
                   f"src/{rel}:{line}: `{expr}` - no tree-node class defines `{attr}` and nothing assigns it",
                   {"file": "src/" + rel, "line": line, "function": fname, "expression": expr}, f"{fname}.{attr}", reproduced)
    chk.static("api.all_node_attributes_resolve.count", typed > 300,
               f"{typed} node-typed attribute reads checked against {nclasses} node classes, {untyped} untyped receivers (no obligation)")
    # one obligation per (file): all typed reads resolve
    for rel in FILES:
        bad = [u for u in unresolved if u[0] == rel]
        if not bad:
            chk.static(f"api.{os.path.basename(rel)[:-3]}.all_resolve", True, "every node-typed attribute read resolves")
    chk.extra["api_typed_receivers"] = typed
    chk.extra["api_untyped_receivers"] = untyped


def replay_attr(attr):
    """the failing call site, natively: the attribute lookup on real node instances"""
    from mwlib.parser import advtree
    for cls in (advtree.Paragraph, advtree.Section, advtree.Table, advtree.Div, advtree.Text):
        try:
            obj = cls() if cls is not advtree.Text else cls("x")
        except Exception:  # noqa: BLE001
            continue
        if hasattr(obj, attr):
            return False
    return True


# ---------------------------------------------------------------------------- P2 driver
def p2_driver(chk):
    """TreeCleaner.clean: the pass list is static, every listed name is a method"""
    from mwlib.parser import treecleaner
    tc = treecleaner.TreeCleaner
    mod = source.module("mwlib/parser/treecleaner.py")
    listed = None
    for n in ast.walk(mod.tree):
        if isinstance(n, ast.Assign) and any(isinstance(t, ast.Name) and t.id == "cleaner_methods" for t in n.targets) \
                or isinstance(n, ast.AnnAssign) and isinstance(n.target, ast.Name) and n.target.id == "cleaner_methods":
            try:
                listed = ast.literal_eval(n.value)
            except Exception:  # noqa: BLE001
                listed = None
    if listed is None:
        listed = list(getattr(tc, "cleaner_methods", []))
    missing = [m for m in listed if not callable(getattr(tc, m, None))]
    chk.static("driver.every_listed_pass_is_a_method", bool(listed) and not missing,
               f"{len(listed)} passes listed; not methods: {missing}")
    return listed


def bounded(chk):
    from contracts import docs
    res = docs.run_passes(chk.tier, chk.seed, want=("c06",))
    chk.bounded_result("each_pass_driven_directly", res["evaluations"], res["distinct"], False, res["bound"],
                       res["failures"].get("c06", []), res["samples"])


def run(chk):
    p1_api_resolution(chk)
    p2_driver(chk)
    p3_scale_length(chk)
    p4_ensure_int(chk)
    bounded(chk)
    chk.assumptions += [
        "receiver typing is a conservative dataflow inside each function (a name the function itself uses as a node); untyped receivers generate no obligation and are counted in the evidence",
        "fixed-point loops (fix_paragraphs, fix_nesting, remove_breaking_returns): progress is observed by the bounded stand-in only (5 s cpu bound per pass), not proved",
    ]


# ----------------------------------------------------------------------------- styleutils.scale_length is total
def p3_scale_length(chk):
    """scale_length is called by the passes on attribute values taken from the wikitext (remove_scroll_elements,
    table width heuristics).  Contract: for whatever parse_length delivers - (None | number, None | one of the four
    units) - and any reference it returns a number; it never raises."""
    import z3
    from pyvc.interp import Explorer
    from pyvc.values import SReal, SInt, Sym
    ST = "mwlib/rendering/styleutils.py"
    ex = Explorer()
    fn = ex.function(ST, "scale_length")

    def parse_length_contract(I, txt):
        unit = [None, "pt", "px", "em", "%"][I.choose(5, "unit")]
        length = None if I.decide(I.fresh("no_number", z3.BoolSort())) else SReal(I.fresh("length", z3.RealSort()))
        return (length, unit)
    ex.contracts[f"{ST}:parse_length"] = parse_length_contract

    def harness(I):
        ref = [None, SReal(I.fresh("reference", z3.RealSort())), 0][I.choose(3, "reference")]
        out = ex.run_function(I, fn, [I.fresh_str("length_str"), ref])
        I.oblige("no_raise" if out.returned else f"no_raise[{out.exc!r}]", out.returned)
        if out.returned:
            I.oblige("returns_a_number", isinstance(out.value, (int, float)) and not isinstance(out.value, bool) or isinstance(out.value, (SReal, SInt)))
    chk.prove("styleutils.scale_length", harness, ex, targets=[fn], replay=replay_scale_length)


def p4_ensure_int(chk):
    """AdvancedNode._ensure_int cleans colspan / rowspan on every access of a node's attributes (every pass that looks at
    .attributes, .style, .colspan, has_class_id ...).  Contract: for any attribute text it returns an int within
    [min_val, max_val] and never raises.  int(str) by its library contract: an int or ValueError."""
    import z3
    from pyvc.interp import Explorer
    from pyvc.values import PObj, SInt
    ADV = "mwlib/parser/advtree.py"
    ex = Explorer()
    fn = ex.function(ADV, "AdvancedNode._ensure_int")

    def harness(I):
        val = I.fresh_str("attribute_text")
        lo = 1
        hi = [None, 1000, 65534][I.choose(3, "max_val")]
        out = ex.run_function(I, fn, [PObj("AdvancedNode", {}), val], {"min_val": lo, "max_val": hi})
        I.oblige("no_raise" if out.returned else f"no_raise[{out.exc!r}]", out.returned)
        if out.returned:
            v = out.value
            vz = v.z if isinstance(v, SInt) else z3.IntVal(v) if isinstance(v, int) and not isinstance(v, bool) else None
            I.oblige("returns_an_int", vz is not None)
            if vz is not None:
                I.oblige("at_least_min", vz >= lo)
                if hi is not None:
                    I.oblige("at_most_max", vz <= hi)
    chk.prove("advtree.AdvancedNode._ensure_int", harness, ex, targets=[fn], replay=replay_ensure_int)
    # the call site: both span attributes are cleaned with an upper bound (passes allocate per column / row)
    import ast
    from pyvc import source
    src = ast.unparse(source.module(ADV).find("AdvancedNode._clean_attrs"))
    calls = [n for n in ast.walk(ast.parse(src)) if isinstance(n, ast.Call) and isinstance(n.func, ast.Attribute) and n.func.attr == "_ensure_int"]
    bounded_calls = [c for c in calls if any(k.arg == "max_val" and not (isinstance(k.value, ast.Constant) and k.value.value is None) for k in c.keywords)]
    chk.static("advtree.AdvancedNode._clean_attrs.span_values_are_bounded", bool(calls) and len(calls) == len(bounded_calls),
               f"{len(calls)} calls of _ensure_int in _clean_attrs, {len(bounded_calls)} with an upper bound")


def replay_ensure_int(model, obligation):
    from mwlib.parser.advtree import AdvancedNode
    n = AdvancedNode.__new__(AdvancedNode)
    for s in ("2", "\u00b2", "\u2460", "\u0663", "+2", "-2", " 2 ", "2.0", "1e3", "", "x", "2" * 5000, "\uff12", "1_0", "99999999999", None, 3, 2.5):
        for hi in (None, 1000):
            try:
                v = n._ensure_int(s, min_val=1, max_val=hi) if hi is not None else n._ensure_int(s, min_val=1)
            except Exception as e:  # noqa: BLE001
                if s is None:
                    continue     # not an attribute text
                return True, {"call": f"_ensure_int({str(s)[:20]!r}, 1, {hi})", "raised": f"{type(e).__name__}: {str(e)[:80]}"}, "_ensure_int"
            if not isinstance(v, int) or v < 1 or (hi is not None and v > hi):
                return True, {"call": f"_ensure_int({str(s)[:20]!r}, 1, {hi})", "returned": repr(v)[:40]}, "_ensure_int"
    return False, {"cases": 36}, None


def replay_scale_length(model, obligation):
    from mwlib.rendering import styleutils
    for s in ("300px", "300pt", "30em", "50%", "300", "auto", "", "1e3px", "-5px", "%", "px", "1.5.2em", " 12 pt"):
        for ref in (None, 0, 400.0):
            try:
                v = styleutils.scale_length(s, ref)
            except Exception as e:  # noqa: BLE001
                return True, {"call": f"scale_length({s!r}, {ref!r})", "raised": f"{type(e).__name__}: {e}"}, "scale_length"
            if not isinstance(v, (int, float)):
                return True, {"call": f"scale_length({s!r}, {ref!r})", "returned": repr(v)}, "scale_length"
    return False, {"cases": 39}, None
