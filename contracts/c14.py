"""C14 - what is written into a collection archive is what is read back (DESIGN 3/C14).

Proof part: lemmas over the record format and the file-name escaping, tied to the code by
static obligations (same separator literal on both sides, both sides call fs_escape).
The full write -> zip -> read composition is covered by the bounded stand-in.
"""
import ast

import z3

from pyvc import source

FETCH = "mwlib/network/fetch.py"
NUWIKI = "mwlib/core/nuwiki.py"
UNORG = "mwlib/utils/unorganized.py"
S = z3.StringSort()


def literals_with(rel, qual, needle):
    mod = source.module(rel)
    fn = mod.find(qual)
    out = []
    for n in ast.walk(fn):
        if isinstance(n, ast.Constant) and isinstance(n.value, str) and needle in n.value:
            out.append(n.value)
    return out


def p_record_format(chk):
    w1 = literals_with(FETCH, "FsOutput.write_pages", "--page--")
    w2 = literals_with(FETCH, "FsOutput.write_expanded_page", "--page--")
    r = literals_with(NUWIKI, "NuWiki._read_revisions", "--page--")
    sep = r[0] if r else None
    ok = bool(sep) and len(r) == 1 and all(x == sep + "%s\n" for x in w1 + w2) and len(w1) == 1 and len(w2) == 1
    chk.static("record.same_separator_on_both_sides", ok, f"writer literals {w1 + w2!r}, reader literal {r!r}")
    if not sep:
        return
    chk.static("record.separator_is_newline_formfeed_page", sep == "\n\x0c --page-- ", repr(sep))
    border = [k for k in range(1, len(sep)) if sep[:k] == sep[-k:]]
    chk.static("record.separator_has_no_border", not border, f"non-trivial borders: {border}")
    # writer passes sort_keys and no indent: the header is one line (json.dumps contract)
    mod = source.module(FETCH)
    dumps = [ast.unparse(c) for q in ("FsOutput.write_pages", "FsOutput.write_expanded_page") for c in ast.walk(mod.find(q))
             if isinstance(c, ast.Call) and ast.unparse(c.func) == "json.dumps"]
    chk.static("record.header_is_single_line_json", len(dumps) == 2 and all("indent" not in d and "sort_keys=True" in d for d in dumps), str(dumps))
    rd = ast.unparse(source.module(NUWIKI).find("NuWiki._read_revisions"))
    chk.static("record.reader_splits_header_at_first_newline", "page.split('\\n', 1)" in rd and f"file_content.split({sep!r})" in rd, "reader: split(SEP)[1:], then split('\\n', 1)")
    # lemma (SMT): a record SEP ++ j ++ "\n" ++ text contains no further separator, if the json
    # header j has no newline, the text does not contain SEP and does not start with SEP[1:]
    j, text = z3.Consts("j text", S)
    SEP = z3.StringVal(sep)
    rec = z3.Concat(SEP, j, z3.StringVal("\n"), text)
    tail = z3.SubString(rec, 1, z3.Length(rec) - 1)
    pre = [z3.Not(z3.Contains(j, z3.StringVal("\n"))), z3.Not(z3.Contains(text, SEP)),
           z3.Not(z3.PrefixOf(z3.StringVal(sep[1:]), text))]
    chk.lemma("record.no_spurious_separator_inside_a_record", pre, z3.Not(z3.Contains(tail, SEP)), ["j", "text"])
    # lemma: the header/text split is exact
    body = z3.Concat(j, z3.StringVal("\n"), text)
    i = z3.IndexOf(body, z3.StringVal("\n"), 0)
    chk.lemma("record.split_at_first_newline_recovers_header", pre[:1], z3.SubString(body, 0, i) == j, ["j", "text"])
    chk.lemma("record.split_at_first_newline_recovers_text", pre[:1],
              z3.SubString(body, i + 1, z3.Length(body) - i - 1) == text, ["j", "text"])


def p_fs_escape(chk):
    # per-character code e(c): c | "~~" | "~" + str(ord(c)) + "~"; str(ord(.)) is a non-empty
    # digit string (no '~') and injective.  Lemma: e is prefix-free on single characters.
    d = z3.Function("digits_of_ord", S, S)
    c1, c2 = z3.Consts("c1 c2", S)
    tilde = z3.StringVal("~")

    def plain(c):
        return z3.And(c != tilde, c != z3.StringVal("/"), c != z3.StringVal("\\"), z3.Length(c) == 1, asc(c))
    asc = z3.Function("isascii", S, z3.BoolSort())

    def e(c):
        return z3.If(c == tilde, z3.StringVal("~~"), z3.If(plain(c), c, z3.Concat(tilde, d(c), tilde)))
    ax = []
    for c in (c1, c2):
        ax += [z3.Length(c) == 1, z3.Length(d(c)) >= 1, z3.Not(z3.Contains(d(c), tilde))]
    ax.append(z3.Implies(d(c1) == d(c2), c1 == c2))
    chk.lemma("fs_escape.char_code_is_prefix_free", ax + [z3.PrefixOf(e(c1), e(c2))], c1 == c2, ["c1", "c2"])
    r1, r2 = z3.Consts("r1 r2", S)
    chk.lemma("fs_escape.induction_step_of_injectivity", ax + [z3.Concat(e(c1), r1) == z3.Concat(e(c2), r2)],
              z3.And(c1 == c2, r1 == r2), ["c1", "c2", "r1", "r2"])
    # (that the source implements this code is the loop contract p_fs_escape_loop, not a text match)
    chk.static("fs_escape.used_by_writer", "unorganized.fs_escape(title)" in ast.unparse(source.module(FETCH).find("FsOutput.get_imagepath")), "FsOutput.get_imagepath")
    rd = ast.unparse(source.module(NUWIKI).find("NuWiki.normalize_and_get_image_path"))
    chk.static("fs_escape.used_by_reader", rd.count("unorganized.fs_escape(") >= 2 and "splitname(name, defaultns=6)" in rd, "NuWiki.normalize_and_get_image_path")


# ----------------------------------------------------------------------------- bounded stand-in
def canon_titles(maxlen):
    import itertools
    alpha = ["a", "B", "1", " ", "-", ".", "~", "ä", "中"]
    for n in range(1, maxlen + 1):
        for t in itertools.product(alpha, repeat=n):
            s = "".join(t)
            if s != s.strip() or "  " in s:
                continue
            yield s


def bounded_fs_escape(maxlen):
    from mwlib.utils.unorganized import fs_escape
    seen = {}
    n = 0
    for t in canon_titles(maxlen):
        n += 1
        e = fs_escape("File:" + t)
        if e in seen and seen[e] != t:
            return n, {"detail": f"fs_escape maps {seen[e]!r} and {t!r} both to {e!r}", "witness": {"titles": [seen[e], t]}, "class": "collision"}
        seen[e] = t
    # a character against the text of its own escape code, behind ASCII / non-ASCII prefixes: the pairs an escape
    # code collides on if a literal '~' (or the code's digits) is not itself escaped
    for prefix in ("", "a", "\u00c9", "a\u00c9"):
        for c in ("\u00e9", "\u4e2d", "~", "/", "\\"):
            for code in (f"~{ord(c)}~", f"~~{ord(c)}~", "~~"):
                a, b = prefix + c, prefix + code
                n += 1
                if a != b and fs_escape("File:" + a) == fs_escape("File:" + b):
                    return n, {"detail": f"fs_escape maps {a!r} and {b!r} both to {fs_escape('File:' + a)!r}", "witness": {"titles": [a, b]}, "class": "collision"}
    return n, None


def bounded_roundtrip(seed, n_archives):
    import json, os, random, shutil, tempfile, zipfile
    from mwlib.network.fetch import FsOutput
    from mwlib.core import nuwiki, wiki
    from mwlib.network import siteinfo
    rnd = random.Random(seed)
    texts = ["", "plain text", "line1\nline2\r\nline3\r", "\n --page-- x", " --page-- {}", "\x0c --pag", "a\n\x0c --page--", "ä中\U0001F600",
             "--page--\n", "x\n --page-- {\"title\": \"fake\"}\n"]
    titles = ["Main", "Talk:Foo bar", "Ärger", "A/B", "User:X-1.2~3", "Category:Z", "ßeta", "\u10e1\u10d0\u10e5\u10d0\u10e0\u10d7\u10d5\u10d4\u10da\u10dd", "Star Trek: Voyager"]
    total = 0
    for a in range(n_archives):
        base = tempfile.mkdtemp(prefix="c14_")
        try:
            path = os.path.join(base, "nuwiki")
            out = FsOutput(path)
            out.dump_json(siteinfo=siteinfo.get_siteinfo("en"))
            written = {}
            newest = {}
            revid = rnd.choice([1, 7, 80, 95])     # revision ids of different digit counts (9/10, 97/104, ...)
            order = []
            for _ in range(rnd.randint(1, 6)):
                t = rnd.choice(titles)
                k = rnd.randint(1, 3)
                revs = []
                for _ in range(k):
                    revid += rnd.choice([1, 2, 3, 7, 11, 60])
                    revs.append(revid)
                rnd.shuffle(revs)
                for r in revs:
                    txt = rnd.choice(texts) + str(r)
                    order.append((t, r, txt))
            rnd.shuffle(order)
            for t, r, txt in order:
                out.write_pages({"pages": {str(r): {"title": t, "ns": 0, "revisions": [{"revid": r, "*": txt}]}}})
                written[r] = (t, txt)
                if t not in newest or newest[t][0] < r:
                    newest[t] = (r, txt)
            out.close()
            zpath = os.path.join(base, "a.zip")
            with zipfile.ZipFile(zpath, "w") as z:
                for d, _, fs in os.walk(path):
                    for f in fs:
                        z.write(os.path.join(d, f), os.path.relpath(os.path.join(d, f), path))
            dst = os.path.join(base, "x") + "/"
            os.makedirs(dst)
            with zipfile.ZipFile(zpath) as z:
                nuwiki.extractall(z, dst)
            nw = nuwiki.NuWiki(dst)
            for r, (t, txt) in written.items():
                total += 1
                p = nw.get_page(t, revision=r)
                if p is None or p.rawtext != txt:
                    return total, {"detail": f"revision {r} of {t!r}: wrote {txt!r}, read {None if p is None else p.rawtext!r}",
                                   "witness": {"title": t, "revid": r, "text": txt, "order": order}, "class": "by-revid"}
            for t, (r, txt) in newest.items():
                total += 1
                for spelling in (t, t.replace(" ", "_"), " " + t, t[0].lower() + t[1:]):
                    p = nw.normalize_and_get_page(spelling, 0)
                    if p is None or p.rawtext != txt:
                        return total, {"detail": f"title {spelling!r}: newest revision {r} has {txt!r}, read {None if p is None else p.rawtext!r}",
                                       "witness": {"title": spelling, "newest_revid": r, "order": order}, "class": "by-title-newest"}
        finally:
            shutil.rmtree(base, ignore_errors=True)
    return total, None


def bounded(chk):
    n1, f1 = bounded_fs_escape(3 if chk.tier == "quick" else 4)
    chk.bounded_result("fs_escape_injective_on_canonical_titles", n1, n1, True,
                       "all canonical titles (no edge/double spaces) over {a,B,1,space,-,.,~,ä,中} up to length 3 (quick) / 4 (thorough) + every special character against the text of its own escape code behind 4 prefixes",
                       [f1] if f1 else [])
    n2, f2 = bounded_roundtrip(chk.seed, 40 if chk.tier == "quick" else 400)
    chk.bounded_result("write_zip_read_roundtrip", n2, n2, False,
                       "FsOutput.write_pages/close -> zip -> extractall -> NuWiki: every revision by revid, every title (4 spellings) -> newest revision; texts with near-separators, CR/LF, empty, non-BMP",
                       [f2] if f2 else [])
    n4, f4 = redirect_table_case()
    chk.bounded_result("redirect_table_read_back_as_written", n4, n4, True,
                       "9 redirect tables through FsOutput.write_redirects -> NuWiki: titles such as 'type', 'title', 'items' as sources", [f4] if f4 else [])
    n3, f3 = history_and_images_case()
    chk.bounded_result("lookups_in_sequence_and_image_files", n3, n3, True,
                       "one archive through FsOutput -> zip -> extractall -> NuWiki: colon titles with a non-namespace prefix looked up under different default namespaces one after the other (both orders); image files whose names hold dots, '~', non-ASCII letters or start with a namespace word (next to the same name without it) found again by title, each with its own bytes",
                       [f3] if f3 else [])
    bad, w, cls = replay_redirect(None, None)
    chk.bounded_result("redirect_with_stored_stub", 2, 1, True,
                       "archive holding the redirecting stub, the target and the redirects.json entry (what the fetcher writes): the stub's title, in two spellings, leads to the target's text",
                       [{"detail": str(w), "witness": w, "class": cls}] if bad else [])


def redirect_table_case():
    """the redirect table is a table of titles: whatever titles it holds, it is read back as written"""
    import os, shutil, tempfile
    from mwlib.core import nuwiki
    from mwlib.network import siteinfo
    from mwlib.network.fetch import FsOutput
    n = 0
    for table in ({"type": "source", "color": "colour"}, {"Type": "Collection"}, {"a": "b", "type": "article"}, {"type": "custom"}, {"type": "Chapter", "items": "x"},
                  {"Type": "Source"}, {"title": "T", "type": "license"}, {}, {"x": "y"}):
        n += 1
        base = tempfile.mkdtemp(prefix="verif_c14_")
        try:
            path = os.path.join(base, "nuwiki")
            out = FsOutput(path)
            out.dump_json(siteinfo=siteinfo.get_siteinfo("en"))
            out.write_redirects(dict(table))
            out.close()
            try:
                got = nuwiki.NuWiki(path).redirects
            except Exception as e:  # noqa: BLE001
                return n, {"detail": f"redirect table {table!r}: reading the archive raised {type(e).__name__}: {e}", "witness": {"redirects": table}, "class": "redirect-table"}
            if not isinstance(got, dict) or got != table:
                return n, {"detail": f"redirect table {table!r} is read back as {type(got).__name__} {got!r}", "witness": {"redirects": table}, "class": "redirect-table"}
        finally:
            shutil.rmtree(base, ignore_errors=True)
    return n, None


def history_and_images_case():
    import os, shutil, tempfile, zipfile
    from mwlib.core import nuwiki
    from mwlib.network import siteinfo
    from mwlib.network.fetch import FsOutput
    pages = [("Star Trek: Voyager", 0, 1, "voyager text"), ("Template:Star Trek: Navbox", 10, 2, "navbox text"), ("Template:Foo: Bar", 10, 3, "foo bar text")]
    images = ["File:And so on....png", "File:A b.png", "File:\u00c4~x.v1.2.png", "File:Star Trek: Logo.png",
              # file names that themselves start with a namespace word, next to the same name without it
              "File:User:Example signature.png", "File:Image:Old upload.jpg", "File:Old upload.jpg", "File:Wikipedia:Meetup 2.7~beta.jpg",
              "File:Template:Box.svg", "File:Box.svg", "File:File:Twice.png"]
    n = 0
    for order in (0, 1):
        base = tempfile.mkdtemp(prefix="verif_c14_")
        try:
            path = os.path.join(base, "nuwiki")
            out = FsOutput(path)
            out.dump_json(siteinfo=siteinfo.get_siteinfo("en"))
            for title, ns, rev, text in pages:
                out.write_pages({"pages": {str(rev): {"title": title, "ns": ns, "revisions": [{"revid": rev, "*": text}]}}})
            for im in images:
                p = out.get_imagepath(im)
                os.makedirs(os.path.dirname(p), exist_ok=True)
                open(p, "wb").write(b"PNG" + im.encode("utf-8"))
            out.close()
            zpath = os.path.join(base, "a.zip")
            with zipfile.ZipFile(zpath, "w") as z:
                for d, _, fs in os.walk(path):
                    for f in fs:
                        z.write(os.path.join(d, f), os.path.relpath(os.path.join(d, f), path))
            dst = os.path.join(base, "x") + "/"
            os.makedirs(dst)
            try:
                with zipfile.ZipFile(zpath) as z:
                    nuwiki.extractall(z, dst)
            except Exception as e:  # noqa: BLE001
                return n + 1, {"detail": f"the archive written by FsOutput cannot be unpacked: {type(e).__name__}: {e}", "witness": {"images": images}, "class": "archive-unreadable"}
            nw = nuwiki.NuWiki(dst)
            lookups = [("Star Trek: Voyager", 0, "voyager text"), ("Star Trek: Navbox", 10, "navbox text"), ("Foo: Bar", 10, "foo bar text"), ("Star Trek: Voyager", 0, "voyager text")]
            if order:
                lookups.reverse()
            for name, dns, want in lookups:
                n += 1
                pg = nw.normalize_and_get_page(name, dns)
                if pg is None or pg.rawtext != want:
                    return n, {"detail": f"after {[(a, b) for a, b, _ in lookups[:lookups.index((name, dns, want))]]}: normalize_and_get_page({name!r}, {dns}) = {None if pg is None else pg.rawtext!r}, stored: {want!r}",
                               "witness": {"lookups": [(a, b) for a, b, _ in lookups]}, "class": "lookup-depends-on-history"}
            for im in images:
                n += 1
                got = nw.normalize_and_get_image_path(im)
                if not got or not os.path.exists(got) or open(got, "rb").read() != b"PNG" + im.encode("utf-8"):
                    return n, {"detail": f"image {im!r} stored by FsOutput is not found again (normalize_and_get_image_path -> {got!r})", "witness": {"image": im}, "class": "image-not-found"}
        finally:
            shutil.rmtree(base, ignore_errors=True)
    return n, None


def replay(model, obligation):
    n2, f2 = bounded_roundtrip(0, 40)
    if f2:
        return True, f2["witness"], f2["class"]
    n1, f1 = bounded_fs_escape(3)
    if f1:
        return True, f1["witness"], f1["class"]
    return False, {"searched": n1 + n2}, None


def run(chk):
    p_record_format(chk)
    p_fs_escape(chk)
    p_fs_escape_loop(chk)
    p_get_page_by_title(chk)
    bounded(chk)
    chk.vc_replay["C14."] = replay
    chk.assumptions += [
        "json.dumps without indent emits no raw newline (JSON escapes control characters)",
        "str(ord(c)) is a non-empty string of digits, injective in c",
        "the per-function composition (write_pages loop, _read_revisions loops) is covered by the bounded round trip, not by discharged contracts; _get_page by title is under contract (redirect table first), its by-revision branch is bounded only",
        "excluded as the property says: texts containing the separator; additionally texts starting with '\\x0c --page-- ' (they complete a separator with the header's newline: known finding)",
    ]


# ----------------------------------------------------------------------------- fs_escape: the loop implements the per-character code of the lemmas
def p_fs_escape_loop(chk):
    """The injectivity lemmas are about the code e(c) = c | '~~' | '~' + str(ord(c)) + '~'.  This group ties
    them to the source: in fs_escape's loop every character of the input appends exactly one piece, and that
    piece is e(char); when the loop is skipped, every character is plain (e(c) = c), so the string is its own
    code."""
    from pyvc import models
    from pyvc.interp import Explorer, LoopSpec
    from pyvc.values import PObj, SStr, Model, z3_of
    ex = Explorer()
    fn = ex.function(UNORG, "fs_escape")
    tilde = z3.StringVal("~")
    special = [tilde, z3.StringVal("/"), z3.StringVal("\\")]

    def plain(c):
        return z3.And(models.ord_of(c) < 128, *[c != x for x in special])

    def e_spec(c):
        return z3.If(c == tilde, z3.StringVal("~~"), z3.If(plain(c), c, z3.Concat(tilde, models.str_of_int(models.ord_of(c)), tilde)))

    def pieces_append(I, res, piece):
        I.ghost["appended"].append(piece)
    ex.methods[("pieces", "append")] = Model("list.append (pieces of the escaped name)", pieces_append)

    def havoc(I, v, it):
        v["result"] = PObj("pieces", {})
        I.ghost["appended"] = []
        I.ghost["in_loop"] = True

    def after_body(I, v, it):
        app = I.ghost["appended"]
        c = z3_of(v["char"])
        out = [("exactly_one_piece_per_character", len(app) == 1)]
        if len(app) == 1:
            out.append(("the_piece_is_the_code_of_the_character", z3_of(app[0]) == e_spec(c)))
        return out
    ex.loopspecs[(fn.ident, 0)] = LoopSpec(lambda I, v, it: [], None, havoc, extra_havoc=("result",), after_body=after_body)
    # the tail of the function (join / strip / replace / non_word.sub) is not part of this contract
    ex.methods[("str", "join")] = Model("str.join of the pieces", lambda I, sep, parts: I.fresh_str("joined_pieces"))
    ex.methods[("str", "strip")] = Model("str.strip (tail, outside this contract)", lambda I, s, *a: I.fresh_str("stripped"))
    ex.methods[("str", "replace")] = Model("str.replace (tail, outside this contract)", lambda I, s, a, b, *r: I.fresh_str("replaced"))
    ex.global_overrides[(UNORG, "non_word")] = PObj("regex", {})
    ex.methods[("regex", "sub")] = Model("non_word.sub (outside this contract)", lambda I, r, repl, s: I.fresh_str("after_non_word"))

    def harness(I):
        s = I.fresh("name", z3.StringSort())
        I.inputs["name"] = s
        I.ghost["in_loop"] = False
        I.ghost["appended"] = []
        # axiom instance of str.isascii for the skolem position used below
        k = I.fresh("k", z3.IntSort())
        ck = z3.SubString(s, k, 1)
        I.assume(z3.Implies(z3.And(models.is_ascii(s), k >= 0, k < z3.Length(s)), models.ord_of(ck) < 128))
        out = ex.run_function(I, fn, [SStr(s)])
        I.oblige("no_raise", out.returned)
        if not I.ghost["in_loop"]:
            I.oblige("skipped_only_if_every_character_is_plain", z3.Implies(z3.And(k >= 0, k < z3.Length(s)), plain(ck)))
    chk.prove("unorganized.fs_escape[loop]", harness, ex, targets=[fn], replay=replay_fs_escape_loop)


def replay_fs_escape_loop(model, obligation):
    n, fail = bounded_fs_escape(3)
    if fail:
        return True, fail["witness"], "collision"
    return False, {"titles": n}, None


# ----------------------------------------------------------------------------- NuWiki._get_page by title: the redirect table is consulted first
def p_get_page_by_title(chk):
    """Contract (C14: every equivalent spelling and every redirect recorded in redirects.json leads to the
    target's stored page): for a lookup by title, if `name` has an entry in the redirect table and the target is
    stored, the target's page is returned - also when the redirecting page itself is stored (the fetcher stores
    stub, target and table entry together); otherwise the page stored under `name`."""
    from pyvc.interp import Explorer
    from pyvc.values import PObj, SStr, SMap, SRef, ClassRef
    ex = Explorer()
    mod = source.module(NUWIKI)
    ncls = ClassRef(mod.defs["NuWiki"], mod)
    fn = ex.function(NUWIKI, "NuWiki._get_page")
    S, Z, B = z3.StringSort(), z3.IntSort(), z3.BoolSort()
    red_has = z3.Function("redirects_has", S, B)
    red_get = z3.Function("redirects_get", S, S)
    rev_of = z3.Function("stored_page_of_title", S, Z)      # 0: nothing stored under that title

    def page(term):
        return None if term is None else SRef("page", term)

    def rev_get(I, k):
        return SRef("page", rev_of(z3_of_(k)))

    def z3_of_(v):
        from pyvc.values import z3_of
        return z3_of(v)
    redirects = SMap(lambda I, k: red_has(z3_of_(k)), lambda I, k: SStr(red_get(z3_of_(k))), "redirects")
    revisions = SMap(lambda I, k: rev_of(z3_of_(k)) != 0, rev_get, "revisions")
    # `a or b` on page references: a reference is falsy iff it is None (pages define no __bool__/__len__)

    def harness(I):
        name = I.fresh("name", S)
        I.inputs["name"] = name
        me = PObj(ncls, {"redirects": redirects, "revisions": revisions})
        out = ex.run_function(I, fn, [me, SStr(name)])
        I.oblige("no_raise", out.returned)
        r = out.value
        got = z3.IntVal(0) if r is None else r.z
        target = red_get(name)
        want = z3.If(z3.And(red_has(name), rev_of(target) != 0), rev_of(target), rev_of(name))
        I.oblige("redirect_target_first_then_the_page_itself", got == want)
    chk.prove("nuwiki.NuWiki._get_page[by title]", harness, ex, targets=[fn], replay=replay_redirect)


def replay_redirect(model, obligation):
    """real NuWiki over a directory written by the real FsOutput: stub + target + redirects.json entry, as the
    fetcher writes them when a page fetched by revision id turns out to be a redirect"""
    import os, shutil, tempfile
    from mwlib.core import nuwiki
    from mwlib.network import siteinfo
    from mwlib.network.fetch import FsOutput
    base = tempfile.mkdtemp(prefix="verif_c14_")
    try:
        path = os.path.join(base, "nuwiki")
        out = FsOutput(path)
        out.dump_json(siteinfo=siteinfo.get_siteinfo("en"))
        out.write_pages({"pages": {"1": {"title": "Old name", "ns": 0, "revisions": [{"revid": 1, "*": "#REDIRECT [[New name]]"}]}}})
        out.write_pages({"pages": {"2": {"title": "New name", "ns": 0, "revisions": [{"revid": 2, "*": "the real text"}]}}})
        out.dump_json(redirects={"Old name": "New name"})
        out.close()
        w = nuwiki.NuWiki(path)
        for how, p in (("get_page('Old name')", w.get_page("Old name")), ("normalize_and_get_page('old_name', 0)", w.normalize_and_get_page("old_name", 0))):
            if p is None or p.rawtext != "the real text":
                return True, {"archive": "stub 'Old name' (#REDIRECT [[New name]]), page 'New name', redirects.json {'Old name': 'New name'}",
                              how: None if p is None else p.rawtext}, "redirect_precedence"
        return False, {"cases": 2}, None
    finally:
        shutil.rmtree(base, ignore_errors=True)
