"""Bounded history search on the *real* qs.jobs.workq / qs.qserve.QPlugin with real
greenlets.  Used (i) to turn a refuted / undischarged invariant obligation into a concrete
failing history (replay), and (ii) as the labelled bounded stand-in of C16-C18.
Never counted as proof.
"""
import itertools
import pickle
import random

import gevent
import logging

logging.disable(logging.CRITICAL)
CHANNELS = ["a", "b"]


class World:
    """one server state + up to 3 worker connections + a controllable clock"""

    def __init__(self):
        from qs import jobs, qserve
        self.jobs_mod = jobs
        self.now = [1000.0]
        self._orig_time = jobs.time.time
        self.clock = lambda: self.now[0]
        self.wq = jobs.workq()
        wq = self.wq

        class Handler(qserve.QPlugin):
            workq = wq
        self.Handler = Handler
        self.conns = {w: Handler() for w in (1, 2, 3)}
        self.pulling = {}     # worker -> greenlet blocked or finished in rpc_qpull
        self.received = []    # (worker, snapshot dict, was_done_at_receipt, channels asked)
        self.added = []       # job ids in order
        self.log = []
        self.violations = []
        self.dying = {}       # worker -> (greenlet with a pending kill, its connection handler)
        self.jobs_seen = []   # every job object ever created by an add
        self.given = {}       # (jobid, serial) -> (worker, connection epoch of that worker at the hand-out)
        self.conn_epoch = {}  # worker -> number of disconnects so far

    def rebind(self, wq):
        self.wq = wq

        class Handler(self.Handler.__mro__[1]):
            workq = wq
        self.Handler = Handler
        self.conns = {w: Handler() for w in (1, 2, 3)}
        # the old server process is gone, and with it the greenlets that served its connections
        for g in list(self.pulling.values()) + [g for g, _ in self.dying.values()]:
            if not g.dead:
                g.kill(block=False)
        gevent.sleep(0)
        self.pulling = {}
        self.dying = {}
        self.restarted = True     # (job objects are rebuilt by the restore: identity tracking ends here)
        for w in (1, 2, 3):       # a restart drops every connection
            self.conn_epoch[w] = self.conn_epoch.get(w, 0) + 1

    # --- operations -------------------------------------------------------------
    def with_clock(self, fn, *a, **k):
        import time as _t
        real = _t.time
        _t.time = self.clock
        try:
            return fn(*a, **k)
        finally:
            _t.time = real

    def add(self, channel, priority=0, jobid=None, timeout=50.0):
        jid = self.with_clock(self.wq.push, channel, payload={"n": len(self.added)}, priority=priority,
                              jobid=jobid, timeout=timeout)
        self.added.append(jid)
        j = self.wq.id2job.get(jid)
        if j is not None and not any(j is x for x in self.jobs_seen):
            self.jobs_seen.append(j)      # by object: the id table may forget a job (two jobs under one id)
        return jid

    def start_pull(self, worker, channels):
        if worker in self.pulling and not self.pulling[worker].dead:
            return False
        conn = self.conns[worker]
        # oracle for the order clause of C17: what a non-blocking pull must return
        cands = [j for c, q in self.wq.channel2q.items() if (not channels or c in channels) for j in q if not j.done]
        expected = min(cands, key=lambda j: (j.priority, j.serial)).jobid if cands else None
        nrecv = len(self.received)

        def run():
            # channels None: the request carried no "channels" argument at all (ServerProxy.qpull())
            snap = conn.rpc_qpull(list(channels)) if channels is not None else conn.rpc_qpull()
            self.received.append((worker, snap, snap.get("done", False), list(channels or ())))
            # once per enqueueing: a second hand-out of the same job needs the first holder's connection to have dropped
            key = (snap.get("jobid"), snap.get("serial"))
            prev = self.given.get(key)
            if prev is not None and self.conn_epoch.get(prev[0], 0) == prev[1] and self.twice_violation is None:
                self.twice_violation = (f"job {key[0]!r} handed to worker {worker} while worker {prev[0]}, who received it before, is still connected "
                                        f"and has not finished it")
            self.given[key] = (worker, self.conn_epoch.get(worker, 0))
        g = gevent.spawn(run)
        self.pulling[worker] = g
        gevent.sleep(0)      # let it run until it returns or blocks
        if expected is not None and len(self.received) > nrecv and self.received[-1][1]["jobid"] != expected:
            got = self.received[-1][1]
            self.order_violation = (f"worker {worker} pulled job {got['jobid']!r} (priority {got['priority']}) while job {expected!r} "
                                    f"with a lower (priority, serial) was queued in a requested channel")
        return True

    def run_loop(self):
        for _ in range(3):
            gevent.sleep(0)
            self.reap()

    def reap(self):
        """finish the disconnects whose kill has been delivered (handle_client's finally: shutdown())"""
        for worker, (g, conn) in list(self.dying.items()):
            if g.dead:
                del self.dying[worker]
                conn.shutdown()
                self.conn_epoch[worker] = self.conn_epoch.get(worker, 0) + 1

    def disconnect_async(self, worker):
        """the reader greenlet saw EOF and scheduled the kill of the handler greenlet; nothing has run yet, so
        requests of other connections that are ready in the same loop turn are served first"""
        g = self.pulling.pop(worker, None)
        conn = self.conns[worker]
        if g is None or g.dead:
            return False
        g.kill(block=False)
        self.dying[worker] = (g, conn)
        self.conns[worker] = self.Handler()
        return True

    def finish(self, jobid, error=None):
        for conn in self.conns.values():
            if jobid in conn.running_jobs:
                conn.rpc_qfinish(jobid, result={"r": 1} if not error else None, error=error)
                for k in [k for k in self.given if k[0] == jobid]:
                    del self.given[k]
                return True
        return False      # only the worker holding a job reports it finished

    def kill(self, jobid):
        # a client's connection (3), not a worker's: rpc_qkill also forgets the job in the killing connection's
        # own running_jobs, which would hide what a worker still holding the job does later
        self.conns[3].rpc_qkill([jobid])

    def advance(self, dt=100.0):
        self.now[0] += dt
        self.with_clock(self.wq.handletimeouts)
        # third arm of finish / kill / timeout: every deadline (<= 50 s after the add) has passed now
        for jid, j in self.wq.id2job.items():
            if not j.done and self.timeout_violation is None:
                self.timeout_violation = (f"job {jid!r} (timeout {j.timeout - (self.now[0] - dt):+.0f}s at the time) is still unfinished after "
                                          f"the clock passed its deadline and handletimeouts ran")

    timeout_violation = None

    twice_violation = None

    def disconnect(self, worker):
        g = self.pulling.pop(worker, None)
        conn = self.conns[worker]
        if g is not None and not g.dead:
            # the reader greenlet saw EOF and kills the handler greenlet; its finally runs shutdown()
            g.kill(block=False)
            gevent.sleep(0)
        conn.shutdown()
        self.conns[worker] = self.Handler()
        self.conn_epoch[worker] = self.conn_epoch.get(worker, 0) + 1      # (what it received until now belonged to the old connection)

    # --- observation --------------------------------------------------------------
    def places(self, j):
        n = 0
        where = []
        for c, q in self.wq.channel2q.items():
            k = sum(1 for x in q if x is j)
            if k:
                n += k
                where.append(f"queue[{c}]x{k}")
        for chans, ev in self.wq._waiters:
            if ev.ready() and ev.value is j:
                n += 1
                where.append("waiter")
        for w, conn in list(self.conns.items()) + [(f"{w}(closing)", c) for w, (_, c) in self.dying.items()]:
            k = sum(1 for x in conn.running_jobs.values() if x is j)
            if k:
                n += k
                where.append(f"conn{w}")
        return n, where

    def check_c16(self):
        if self.twice_violation:
            return self.twice_violation
        for jid, j in list(self.wq.id2job.items()):
            if j.done:
                continue
            n, where = self.places(j)
            if n != 1:
                return f"job {jid!r} (not finished) is in {n} places {where}"
        if not self.restarted:
            for j in self.jobs_seen:
                if not j.done and self.wq.id2job.get(j.jobid) is not j:
                    n, where = self.places(j)
                    if n != 1:
                        return (f"job with id {j.jobid!r} and serial {j.serial} (not finished; another job took its id in the id table) "
                                f"is in {n} places {where}")
        return None

    restarted = False

    order_violation = None

    def check_c17(self):
        if self.order_violation:
            return self.order_violation
        if self.timeout_violation:
            return self.timeout_violation
        for worker, snap, was_done, channels in self.received:
            if was_done:
                return f"worker {worker} received job {snap['jobid']!r} that was already finished (error={snap['error']!r})"
            if channels and snap["channel"] not in channels:
                return f"worker {worker} asked {channels} but received a job of channel {snap['channel']!r}"
        for j in self.wq.id2job.values():
            if j.done != j.finish_event.is_set():
                return f"job {j.jobid!r}: done={j.done} but finish_event.is_set()={j.finish_event.is_set()}"
        return None


def ops_alphabet(njobs_max=3):
    ops = []
    for c in CHANNELS:
        for p in (0, 1):
            ops.append(("add", c, p))
    for w in (1, 2):
        for chans in (("a",), ("b",), (), ("a", "b")) + ((("b", "a"),) if w == 1 else ()):
            ops.append(("pull", w, chans))
    ops.append(("run",))
    for k in range(njobs_max):
        ops.append(("finish", k))
        ops.append(("kill", k))
    ops.append(("drop", 0))
    ops.append(("clock",))
    for w in (1, 2):
        ops.append(("disconnect", w))
    return ops


def apply(world, op):
    kind = op[0]
    if kind == "add":
        if len(op) > 3:
            world.add(op[1], op[2], timeout=op[3])
        else:
            world.add(op[1], op[2])
    elif kind == "pull":
        return world.start_pull(op[1], op[2])
    elif kind == "run":
        world.run_loop()
    elif kind in ("finish", "kill"):
        if op[1] >= len(world.added):
            return False
        if kind == "finish":
            return world.finish(world.added[op[1]])
        world.kill(world.added[op[1]])
    elif kind == "drop":
        if op[1] >= len(world.added):
            return False
        world.conns[3].rpc_qdrop([world.added[op[1]]])
    elif kind == "clock":
        world.advance()
    elif kind == "disconnect":
        world.disconnect(op[1])
    elif kind == "disconnect_async":
        return world.disconnect_async(op[1])
    elif kind == "add_int_id":
        # a client supplies an integer id (JSON clients can): the id the counter will reach with the next automatic job
        world.add(op[1], 0, jobid=world.wq.count + 2)
    elif kind == "readd":
        if op[1] >= len(world.added):
            return False
        world.add("a", 0, jobid=world.added[op[1]])
    elif kind == "saverestore":
        wq2 = pickle.loads(pickle.dumps(world.wq))
        world.rebind(wq2)
    return True


LAST_APPLIED = []      # the operations of the last history that were applicable (lenient histories skip the others)


def run_history(ops, checks=("c16", "c17"), lenient=False):
    w = World()
    del LAST_APPLIED[:]
    try:
        for i, op in enumerate(ops):
            try:
                applied = apply(w, op)
            except Exception:  # noqa: BLE001 - a request that fails is answered with an error; the state it leaves is what is checked
                applied = True
            if applied is False:
                if lenient:
                    continue
                return None, None     # op not applicable: history pruned
            LAST_APPLIED.append(op)
            for c in checks:
                msg = getattr(w, "check_" + c)()
                if msg:
                    return c, f"after op {i} {op}: {msg}"
        w.run_loop()
        for c in checks:
            msg = getattr(w, "check_" + c)()
            if msg:
                return c, f"after final loop turn: {msg}"
        return "ok", None
    finally:
        for g in list(w.pulling.values()):
            if not g.dead:
                g.kill(block=False)
        gevent.sleep(0)


def search(max_len, checks=("c16", "c17"), budget=200000, seed=0, want=None, random_len=0, random_n=0, skip=None, skipped=None):
    """exhaustive to max_len over the alphabet, then seeded random longer histories.
    Returns (evaluations, distinct_applicable, first failure or None, samples)."""
    ops = ops_alphabet()
    n = 0
    applicable = 0
    samples = []
    for ln in range(1, max_len + 1):
        for hist in itertools.product(ops, repeat=ln):
            if hist[0][0] in ("run", "finish", "kill", "clock", "disconnect"):
                continue
            n += 1
            if n > budget:
                return n, applicable, None, samples
            res, msg = run_history(hist, checks)
            if res is None:
                continue
            applicable += 1
            if applicable % 5000 == 1 and len(samples) < 4:
                samples.append([list(o) for o in hist])
            if res != "ok" and (want is None or res == want):
                f = {"check": res, "history": [list(o) for o in hist], "detail": msg}
                if skip is not None and skip(f):
                    if skipped is not None and not skipped:
                        skipped.append(f)
                    continue
                return n, applicable, f, samples
    if "c17" in checks:
        # targeted family for the order clause: 3-4 adds with priorities 0..2 on one channel, one
        # optional kill, then pulls until the queue is empty
        for k in (3, 4):
            for prios in itertools.product((0, 1, 2), repeat=k):
                for killed in [None] + list(range(k)):
                    hist = [("add", "a", p) for p in prios] + ([("kill", killed)] if killed is not None else []) + \
                           [("pull", 1, ("a",)), ("finish", 0), ("finish", 1), ("finish", 2), ("pull", 2, ()), ("pull", 1, ("a",))]
                    n += 1
                    res, msg = run_history(hist, checks, lenient=True)
                    if res is None:
                        continue
                    applicable += 1
                    if res != "ok" and (want is None or res == want):
                        f = {"check": res, "history": [list(o) for o in LAST_APPLIED] + [["run"]], "detail": msg}
                        if skip is not None and skip(f):
                            if skipped is not None and not skipped:
                                skipped.append(f)
                            continue
                        return n, applicable, f, samples
    if True:   # targeted families, for every oracle
        # targeted families (deeper than the exhaustive bound, small alphabets):
        #  (1) an id that is killed and added again while a worker still holds / has released the old job
        #  (2) a job finished while it is queued BEHIND another one, then pulls
        fams = [([("add", "a", 0), ("pull", 1, ("a",)), ("run",)],
                 [("kill", 0), ("readd", 0), ("pull", 2, ("a",)), ("run",), ("disconnect", 1), ("disconnect", 2), ("pull", 1, ("a",)), ("clock",)], 4),
                ([("add", "a", 0), ("add", "a", 0)],
                 [("kill", 1), ("kill", 0), ("finish", 1), ("pull", 1, ("a",)), ("pull", 2, ("a",)), ("run",)], 4),
                # (4) an explicit integer id next to automatic ids
                ([], [("add_int_id", "a"), ("add", "a", 0), ("pull", 1, ("a",)), ("pull", 2, ("a",)), ("finish", 0), ("finish", 1), ("run",), ("disconnect", 1)], 5),
                # (3) a blocked puller whose connection dies in the same loop turn in which a job arrives; pulls
                #     that carry no channels argument at all
                ([],
                 [("pull", 1, ("a",)), ("pull", 1, None), ("disconnect_async", 1), ("add", "a", 0), ("add", "b", 0), ("run",),
                  ("pull", 2, ("a",)), ("pull", 2, None), ("finish", 0)], 4)]
        for prefix, alpha, depth in fams:
            for ln in range(1, depth + 1):
                for tail in itertools.product(alpha, repeat=ln):
                    hist = prefix + list(tail) + [("run",)]
                    n += 1
                    res, msg = run_history(hist, checks, lenient=True)
                    if res is None:
                        continue
                    applicable += 1
                    if res != "ok" and (want is None or res == want):
                        f = {"check": res, "history": [list(o) for o in LAST_APPLIED] + [["run"]], "detail": msg}
                        if skip is not None and skip(f):
                            if skipped is not None and not skipped:
                                skipped.append(f)
                            continue
                        return n, applicable, f, samples
    rnd = random.Random(seed)
    for _ in range(random_n):
        hist = [rnd.choice(ops) for _ in range(rnd.randint(max_len + 1, random_len))]
        if hist[0][0] != "add" and hist[0][0] != "pull":
            hist[0] = ("pull", 1, ("a",))
        n += 1
        res, msg = run_history(hist, checks)
        if res is None:
            continue
        applicable += 1
        if res != "ok" and (want is None or res == want):
            f = {"check": res, "history": [list(o) for o in hist], "detail": msg}
            if skip is not None and skip(f):
                if skipped is not None and not skipped:
                    skipped.append(f)
                continue
            return n, applicable, f, samples
    return n, applicable, None, samples


if __name__ == "__main__":
    import sys
    import time
    t = time.time()
    print(search(int(sys.argv[1]) if len(sys.argv) > 1 else 3))
    print(time.time() - t)
