"""Documents of the well-formed-wikitext grammar of C02 (also the input space of C05-C07):
a spec-level document (the denotation) and its serialisation to wikitext.

Every visible word is unique ("w<n>"), so order, uniqueness and the structural ancestors
of each word can be compared between the denotation and the parse tree.
"""
import random


class Gen:
    def __init__(self, rnd, size):
        self.rnd = rnd
        self.n = 0
        self.size = size
        self.expected = []   # (word, ancestors tuple)

    def word(self, anc):
        self.n += 1
        w = f"w{self.n}"
        self.expected.append((w, tuple(anc)))
        return w

    def inline(self, anc, depth=0):
        r = self.rnd
        parts = []
        for _ in range(r.randint(1, 3)):
            k = r.random()
            if k < 0.45 or depth > 1:
                parts.append(self.word(anc))
            elif k < 0.55:
                parts.append("''" + self.inline(anc + ["Emphasized"], depth + 2) + "''")
            elif k < 0.62:
                parts.append("'''" + self.inline(anc + ["Strong"], depth + 2) + "'''")
            elif k < 0.65 and depth == 0:
                # one italic span holding several bold spans (the apostrophe resolver keeps many open alternatives)
                n_bold = r.randint(2, 8)
                a2 = anc + ["Emphasized"]
                seg = [self.word(a2)]
                for _ in range(n_bold):
                    seg.append("'''" + self.word(a2 + ["Strong"]) + "'''")
                    seg.append(self.word(a2))
                parts.append("''" + " ".join(seg) + "''")
            elif k < 0.72:
                parts.append("<b>" + self.inline(anc + ["Strong"], depth + 2) + "</b>")
            elif k < 0.78:
                parts.append("<i>" + self.inline(anc + ["Emphasized"], depth + 2) + "</i>")
            elif k < 0.82:
                t = f"Target{self.n}"
                parts.append(f"[[{t}|" + self.word(anc + [f"ArticleLink:{t}"]) + "]]")
            elif k < 0.86:
                # bare link: the visible text is the target itself
                t = f"w{self.n + 1}"
                parts.append("[[" + self.word(anc + [f"ArticleLink:{t}"]) + "]]")
            elif k < 0.92:
                parts.append("[http://example.org/" + str(self.n) + " " + self.word(anc + ["NamedURL"]) + "]")
            else:
                parts.append("<ref>" + self.word(anc + ["Reference"]) + "</ref>")
        return " ".join(parts)

    def paragraph(self, anc):
        # (paragraph nodes are not part of the compared structure: the property lists sections,
        # lists, tables, styles, links - the parser also wraps lists and tables into paragraphs)
        return self.inline(anc) + "\n\n"

    def lst(self, anc, prefix="", depth=0):
        kind = self.rnd.choice("*#")
        cls = "ItemList-ul" if kind == "*" else "ItemList-ol"
        out = ""
        for _ in range(self.rnd.randint(1, 3)):
            a = anc + [cls, "Item"]
            out += prefix + kind + " " + self.inline(a, 1) + "\n"
            if depth < 2 and self.rnd.random() < 0.3:
                out += self.lst(a, prefix + kind, depth + 1)
        return out + ("\n" if not prefix else "")

    def table(self, anc):
        rows = self.rnd.randint(2, 3)
        cols = self.rnd.randint(2, 3)
        out = "{|\n"
        k = self.rnd.random()
        if k < 0.3:
            # caption: text, an inline formula, more text (all of it belongs to the caption)
            out += "|+ " + self.word(anc + ["Table"]) + " <math>x^2</math> " + self.word(anc + ["Table"]) + "\n"
        elif k < 0.4:
            # caption with a link and no attribute part: text, link, text
            t = f"Target{self.n}"
            out += "|+ " + self.word(anc + ["Table"]) + f" [[{t}|" + self.word(anc + ["Table", f"ArticleLink:{t}"]) + "]] " + self.word(anc + ["Table"]) + "\n"
        elif k < 0.5:
            # caption with an attribute part, then styled text and a link
            t = f"Target{self.n}"
            out += '|+ style="color:red" | ' + self.word(anc + ["Table"]) + " ''" + self.word(anc + ["Table", "Emphasized"]) + f"'' [[{t}|" + \
                self.word(anc + ["Table", f"ArticleLink:{t}"]) + "]]\n"
        implicit_first_row = self.rnd.random() < 0.3      # the first row needs no leading |-
        for r in range(rows):
            if r or not implicit_first_row:
                out += "|-\n"
            for c in range(cols):
                hdr = r == 0 and self.rnd.random() < 0.5
                a = anc + ["Table", "Row", "Cell"]
                out += ("! " if hdr else "| ") + self.inline(a, 1) + "\n"
        return out + "|}\n\n"

    def deflist(self, anc):
        """definition list: inline (`; t : d`) or two-line spelling, further `:` lines, and - without
        a blank line - list lines of another kind right behind it"""
        out = ""
        for _ in range(self.rnd.randint(1, 2)):
            if self.rnd.random() < 0.5:
                out += "; " + self.word(anc + ["DefinitionTerm"]) + " : " + self.word(anc + ["DefinitionDescription"]) + "\n"
            else:
                out += ";" + self.word(anc + ["DefinitionTerm"]) + "\n:" + self.word(anc + ["DefinitionDescription"]) + "\n"
            for _ in range(self.rnd.randint(0, 2)):
                out += ": " + self.word(anc + ["DefinitionDescription"]) + "\n"
            if self.rnd.random() < 0.5:
                kind = self.rnd.choice("*#")
                cls = "ItemList-ul" if kind == "*" else "ItemList-ol"
                for _ in range(self.rnd.randint(1, 2)):
                    out += kind + " " + self.word(anc + [cls, "Item"]) + "\n"
        return out + "\n"

    def tight(self, anc):
        """blocks separated by a single newline only: list, text line, (table,) list"""
        out = self.lst(anc, depth=2).rstrip("\n") + "\n"
        out += self.word(anc) + "\n"
        if self.rnd.random() < 0.4:
            out += "{|\n|-\n| " + self.word(anc + ["Table", "Row", "Cell"]) + "\n|}\n"
        out += self.lst(anc, depth=2).rstrip("\n") + "\n"
        return out + "\n"

    def pre(self, anc):
        return " " + self.word(anc + ["PreFormatted"]) + "\n\n"

    def blocks(self, anc, level):
        out = ""
        for _ in range(self.rnd.randint(1, 3)):
            k = self.rnd.random()
            if k < 0.4:
                out += self.paragraph(anc)
            elif k < 0.6:
                out += self.lst(anc)
            elif k < 0.7:
                out += self.deflist(anc)
            elif k < 0.78:
                out += self.tight(anc)
            elif k < 0.92:
                out += self.table(anc)
            else:
                out += self.pre(anc)
        # sub-sections come last: a section swallows everything up to the next heading of <= level
        while level < 4 and self.n < self.size and self.rnd.random() < 0.4:
            out += self.section(anc, level + 1)
        return out

    def section(self, anc, level):
        eq = "=" * level
        a = anc + [f"Section{level}"]
        title = self.word(a + ["caption"])
        out = f"{eq} {title} {eq}\n"
        out += self.paragraph(a)       # every section has body text
        out += self.blocks(a, level)
        return out

    def document(self):
        out = self.paragraph([])
        for _ in range(self.rnd.randint(1, 3)):
            out += self.section([], 2)
        return out


def document(seed, size=12):
    g = Gen(random.Random(seed), size)
    text = g.document()
    return text, g.expected


def documents(tier, seed):
    n = 150 if tier == "quick" else 1500
    return [document(seed * 100003 + i, 6 + i % 10)[0] for i in range(n)]


STYLES = ("Emphasized", "Strong")


def canon(anc):
    """bold-inside-italic and italic-inside-bold denote the same styles: runs of adjacent style ancestors are sorted"""
    out, run = [], []
    for a in list(anc) + [None]:
        if a in STYLES:
            run.append(a)
        else:
            out.extend(sorted(set(run)))
            run = []
            if a is not None:
                out.append(a)
    return tuple(out)


def tree_words(tree):
    """[(word, structural ancestors)] of a parsed (advanced) tree, in reading order"""
    from mwlib.parser import advtree as A
    out = []

    def label(n):
        c = n.__class__.__name__
        if c == "Section":
            return f"Section{n.level}"
        if c == "ItemList":
            return "ItemList-ol" if getattr(n, "numbered", False) else "ItemList-ul"
        if c == "ArticleLink":
            return f"ArticleLink:{n.target}"
        if c in ("Item", "Table", "Row", "Cell", "Strong", "Emphasized", "NamedURL", "Reference", "PreFormatted",
                 "DefinitionTerm", "DefinitionDescription"):
            return c
        return None

    def walk(n, anc):
        if n.__class__.__name__ == "ArticleLink" and not n.children:
            # a bare link shows its target
            for w in (n.target or "").split():
                if w[:1] in "wW" and w[1:].isdigit():
                    out.append(("w" + w[1:], tuple(anc + [f"ArticleLink:{n.target}"])))
            return
        if n.__class__.__name__ == "Text":
            for w in (n.caption or "").split():
                if w.startswith("w") and w[1:].isdigit():
                    out.append((w, tuple(anc)))
            return
        lab = label(n)
        a = anc + [lab] if lab else anc
        kids = list(n.children)
        if n.__class__.__name__ == "Section" and kids:
            walk(kids[0], a + ["caption"])
            kids = kids[1:]
        for c in kids:
            walk(c, a)
    walk(tree, [])
    return out


def markup_residue(tree):
    """pieces of wiki markup that ended up as visible text: every Text leaf of a document of this grammar consists of
    generated words only (the grammar writes no punctuation as text)"""
    out = []
    for n in [tree] + list(tree.allchildren()):
        if n.__class__.__name__ == "Text":
            for w in (n.caption or "").split():
                if not (w.startswith("w") and w[1:].isdigit()):
                    out.append(w)
    return out
