"""C19 - render status is faithful to the job's real state (DESIGN 3/C19)."""
import z3

from pyvc.interp import Explorer
from pyvc.values import PObj, SStr, SBool, SInt, Model, kind_of, z3_of

NSERVE = "mwlib/core/nserve.py"
WRITERS = ["odf", "rl", "xhtml", "xl", "zim"]


def jsonval(I, name):
    """an arbitrary JSON value of which the code may only test truthiness / pass it on"""
    return PObj("jsonval", {"truthy": I.sym_bool(name + "_truthy")}, name=name)


def snapshot(I, name):
    """qinfo() result: None (unknown / dropped id) or job._json().  Fields are created
    lazily (forking only when the code under verification reads them)."""
    if I.decide(I.sym_bool(name + "_absent").z):
        return None
    snap = PObj("snapshot", {}, name=name)
    snap.made = {}
    snap.make = {
        "done": lambda: I.sym_bool(name + "_done"),
        "error": lambda: None if I.decide(I.sym_bool(name + "_error_none").z) else I.sym_str(name + "_error"),
        "info": lambda: jsonval(I, name + "_info"),
        "result": lambda: _result(I, name),
    }
    return snap


def _result(I, name):
    if I.decide(I.sym_bool(name + "_result_none").z):
        return None
    if I.decide(I.sym_bool(name + "_result_empty").z):
        return {}
    result = {"url": I.sym_str(name + "_url"), "size": I.sym_int(name + "_size")}
    if I.decide(I.sym_bool(name + "_has_fn").z):
        result["suggested_filename"] = I.sym_str(name + "_fn")
    return result


def field(I, snap, key):
    """read a snapshot field (spec side and model side share the lazily created value)"""
    if key not in snap.made:
        mk = snap.make.get(key)
        snap.made[key] = mk() if mk else PObj("jsonval", {"truthy": I.fresh_bool(key)}, name=key)
    return snap.made[key]


def install_snapshot(ex):
    ex.truthy_hooks["snapshot"] = lambda I, v: True          # job._json() is a non-empty dict
    ex.getitem_hooks["snapshot"] = lambda I, v, k: field(I, v, k) if isinstance(k, str) else I.throw("KeyError", k)
    ex.methods[("snapshot", "get")] = Model("dict.get on job snapshot", lambda I, v, k, d=None: field(I, v, k))


def p1_status(chk):
    ex = Explorer()
    ex.truthy_hooks["jsonval"] = lambda I, v: I.truthy(v.fields["truthy"])
    install_snapshot(ex)
    fn = ex.function(NSERVE, "Application.do_render_status")
    proc = ex.function(NSERVE, "Application._process_and_return_finished_state")
    ex.inline.add(proc.ident)
    ex.inline.add(NSERVE + ":Bunch.__init__")
    ex.inline.add(NSERVE + ":Application.error_response")

    # contract of get_content_disposition (verified separately in p4): some header string
    cd_fn = z3.Function("content_disposition", z3.StringSort(), z3.StringSort(), z3.StringSort())

    def cd_contract(I, filename, ext):
        I.ghost["cd_args"] = (filename, ext)
        return I.fresh_str("content_disposition")
    ex.contracts[NSERVE + ":get_content_disposition"] = cd_contract

    def harness(I):
        cid = I.sym_str("collection_id")
        I.assume(z3.Length(cid.z) == 16)   # check_collection_id contract: [a-f0-9]{16}
        I.assume(z3.Not(z3.Contains(cid.z, z3.StringVal(":"))))
        wi = I.choose(len(WRITERS), "writer")
        writer = WRITERS[wi]
        if I.decide(I.sym_bool("writer_posted").z):
            post_data = {"writer": writer}
            default_writer = I.sym_str("default_writer")   # irrelevant when a writer is posted
        else:
            post_data = {}
            default_writer = writer
        r = snapshot(I, "r")
        z = snapshot(I, "z")
        calls = []

        def qinfo(I2, qs, jobid=None):
            t_r = I2.eq_term(jobid, I2.binop(__import__("ast").Add(), cid, ":render-" + writer))
            t_z = I2.eq_term(jobid, I2.binop(__import__("ast").Add(), cid, ":makezip"))
            calls.append(jobid)
            I2.oblige("qinfo_only_own_jobs", z3.Or(t_r, t_z))
            if I2.decide(t_r):
                return r
            return z
        ex.methods[("qserve", "qinfo")] = Model("qserve.qinfo (rpc_qinfo: job._json() or None)", qinfo)
        app = PObj(fn.cls, {"default_writer": default_writer, "qserve": PObj("qserve"),
                            "collection_id": None, "post_url": None})
        is_new = I.decide(I.sym_bool("is_new").z)
        out = ex.run_function(I, fn, [app, cid, post_data], {"is_new": is_new})
        I.oblige("no_raise", out.returned, meta={"exc": out.exc.cls.name if out.exc else None})
        res = out.value
        I.oblige("returns_dict", isinstance(res, dict))
        if is_new:
            I.oblige("is_new_is_error_response", "error" in res and "state" not in res)
            return
        state = res.get("state")
        I.oblige("state_is_one_of_three", state in ("failed", "finished", "progress"))
        I.oblige("echo_collection_id", I.eq_term(res.get("collection_id"), cid))
        I.oblige("echo_writer", I.eq_term(res.get("writer"), writer))
        # truthy(r.error) as a term
        r_error = field(I, r, "error") if r is not None else None
        if r_error is None:
            err_truthy = False
        else:
            err_truthy = z3.Length(r_error.z) > 0
        done = False if r is None else field(I, r, "done").z

        def as_term(b):
            return z3.BoolVal(b) if isinstance(b, bool) else b
        I.oblige("failed_iff_error", as_term(state == "failed") == as_term(err_truthy))
        if state == "failed":
            I.oblige("failed_reports_the_error", I.eq_term(res.get("error"), r_error) if r else False)
        I.oblige("finished_iff_done_without_error",
                 as_term(state == "finished") == z3.And(as_term(done), z3.Not(as_term(err_truthy))))
        if state == "finished":
            result = field(I, r, "result")
            if result:
                I.oblige("finished_url_from_result", I.eq_term(res.get("url"), result["url"]))
                I.oblige("finished_size_from_result", I.eq_term(res.get("content_length"), result["size"]))
            else:
                I.oblige("finished_without_result_has_no_url", "url" not in res)
            ct = {"odf": "application/vnd.oasis.opendocument.text", "rl": "application/pdf", "xhtml": "text/xml",
                  "xl": "application/pdf", "zim": "application/zim"}[writer]
            ext = {"odf": "odt", "rl": "pdf", "xhtml": "html", "xl": "pdf", "zim": "zim"}[writer]
            I.oblige("finished_content_type_of_writer", res.get("content_type") == ct)
            I.oblige("finished_has_content_disposition", "content_disposition" in res)
            fn_arg, ext_arg = I.ghost.get("cd_args", (None, None))
            I.oblige("content_disposition_ext_of_writer", ext_arg == ext)
            want_fn = result.get("suggested_filename", "") if result else None
            I.oblige("content_disposition_from_suggested_filename",
                     I.eq_term(fn_arg, want_fn) if want_fn is not None else fn_arg is None)
        if state == "progress":
            st = res.get("status")
            r_info = field(I, r, "info") if r is not None else None
            if r_info is not None and I.truthy(r_info):
                I.oblige("progress_shows_render_info", st is r_info)
            elif z is None:
                I.oblige("progress_without_any_job_is_empty", st == {})
            elif I.truthy(field(I, z, "done")):
                I.oblige("progress_after_fetch_done_is_fixed_message",
                         isinstance(st, dict) and set(st) == {"status"} and isinstance(st["status"], str))
            else:
                I.oblige("progress_shows_fetch_info", st is field(I, z, "info"))
        I.oblige("at_most_two_queries", len(calls) <= 2)

    chk.prove("nserve.do_render_status", harness, ex, replay=replay_by_search, targets=[fn, proc])


def run(chk):
    p1_status(chk)
    p3_jobid_separation(chk)
    p4_content_disposition(chk)
    bounded(chk)
    chk.assumptions += [
        "qserve.qinfo returns job._json() (all fields present) or None (rpc_qinfo contract; see C17/C18)",
        "collection ids are 16 characters without ':' (check_collection_id regex ^[a-f0-9]{16}$)",
        "header-safe := printable ASCII, no whitespace, no parameter delimiter ; : \" ' ,",
        "suggested filenames contain no control characters (property's quantifier)",
    ]


# ---------------------------------------------------------------------------- bounded stand-in / replay finder
def _job_states():
    """snapshots of the real qs.jobs.job in every state of the property's alphabet"""
    from qs.jobs import job
    out = [("absent", None)]

    def mk(**kw):
        j = job("render", payload={}, jobid="x")
        j.serial = 1
        for k, v in kw.items():
            setattr(j, k, v)
        return j._json()
    out.append(("queued", mk()))
    out.append(("running_info", mk(info={"status": "rendering", "progress": 42})))
    out.append(("finished_result", mk(done=True, result={"url": "http://h/f.pdf", "size": 123, "suggested_filename": "Möt ö;r"})))
    out.append(("finished_result_nofn", mk(done=True, result={"url": "http://h/f.pdf", "size": 5})))
    out.append(("finished_noresult", mk(done=True, result=None)))
    out.append(("finished_info", mk(done=True, result={"url": "u", "size": 1}, info={"status": "done"})))
    out.append(("error", mk(done=True, error="boom")))
    out.append(("killed", mk(done=True, error="killed")))
    out.append(("timeout", mk(done=True, error="timeout")))
    out.append(("error_not_done", mk(done=False, error="odd")))
    return out


def expected(r, z, writer, name2writer):
    """the property's mapping, written from the statement"""
    if r is not None and r.get("error"):
        return {"state": "failed", "error": r["error"]}
    if r is not None and r.get("done"):
        e = {"state": "finished", "content_type": name2writer[writer].content_type}
        if r.get("result"):
            e["url"] = r["result"]["url"]
            e["content_length"] = r["result"]["size"]
        return e
    if r is not None and r.get("info"):
        return {"state": "progress", "status": r["info"]}
    if z is None:
        return {"state": "progress", "status": {}}
    if z.get("done"):
        return {"state": "progress", "status": None}
    return {"state": "progress", "status": z.get("info")}


def bounded_status(first_only=True):
    from mwlib.core import nserve
    states = _job_states()
    failures, n, distinct, samples = [], 0, set(), []
    for writer in sorted(nserve.name2writer):
        for other_writer_state in ("absent", "finished_result"):
            for rn, r in states:
                for zn, z in states:
                    for posted in (True, False):
                        cid = "0123456789abcdef"
                        table = {f"{cid}:render-{writer}": r, f"{cid}:makezip": z}
                        for w2 in nserve.name2writer:
                            if w2 != writer:
                                table[f"{cid}:render-{w2}"] = dict(states)[other_writer_state]

                        class Q:
                            def qinfo(self, jobid):
                                return table.get(jobid)
                        app = nserve.Application(default_writer=writer if not posted else "rl")
                        app.qserve = Q()
                        n += 1
                        try:
                            got = app.do_render_status(cid, {"writer": writer} if posted else {})
                        except Exception as e:  # noqa: BLE001
                            got = {"raised": type(e).__name__}
                        exp = expected(r, z, writer, nserve.name2writer)
                        bad = got.get("state") != exp["state"]
                        for k in ("error", "url", "content_length", "content_type"):
                            if k in exp and got.get(k) != exp[k]:
                                bad = True
                        if exp["state"] == "progress" and exp["status"] is not None and got.get("status") != exp["status"]:
                            bad = True
                        if got.get("state") == "finished" and ("\n" in got.get("content_disposition", "") or
                                                                not got.get("content_disposition", "").isascii()):
                            bad = True
                        distinct.add((rn, zn, got.get("state")))
                        if n % 211 == 1 and len(samples) < 4:
                            samples.append({"render_job": rn, "makezip_job": zn, "writer": writer, "got": got.get("state")})
                        if bad:
                            failures.append({"detail": f"render={rn} makezip={zn} writer={writer} posted={posted}: got {got}, expected {exp}",
                                             "witness": {"render_job": rn, "makezip_job": zn, "writer": writer, "posted": posted,
                                                         "other_writers": other_writer_state}, "class": f"{rn}/{zn}"})
                            if first_only:
                                return n, len(distinct), failures, samples
    return n, len(distinct), failures, samples


def bounded(chk):
    nh, fh = status_history_search(4 if chk.tier == "quick" else 5)
    chk.bounded_result("status_against_the_real_queue_over_histories", nh, nh, True,
                       "real Application.do_render / do_render_status over a real workq (in-process proxy, JSON round trip): all histories of <= 4 (quick) / 5 (thorough) operations out of 14 (render, pulls, info, finish ok / error / result+error, fetch ok / error, kills, time-outs, dropdead, another writer finishing) starting with a render request: the state reported after every operation is the one the statement defines from the render job",
                       [fh] if fh else [])
    nf, badf = filename_search(3 if chk.tier == "quick" else 4)
    chk.bounded_result("content_disposition_filenames", nf, nf, True, "all names over a 17-symbol alphabet (delimiters, space, non-ASCII, compatibility characters that NFKD-decompose to delimiters) up to length 3 (quick) / 4 (thorough)",
                       [{"detail": str(badf), "witness": badf, "class": "unsafe-header"}] if badf else [])
    n, d, failures, samples = bounded_status()
    chk.bounded_result("status_mapping_job_states", n, d, True,
                       "all combinations of 11 render-job states x 11 makezip-job states x writers x posted/default writer x other writers' jobs, real Application with a stub queue serving real job._json() snapshots",
                       failures, samples)


def replay_by_search(model, obligation):
    n, d, failures, samples = bounded_status()
    if failures:
        return True, failures[0]["witness"], failures[0]["class"]
    n2, fail = status_history_search(3)
    if fail:
        return True, dict(fail["witness"], detail=fail["detail"]), fail["class"]
    return False, {"model": model, "searched": n + n2}, None


# ---------------------------------------------------------------------------- P3 job-id separation (lemma over the id templates)
def p3_jobid_separation(chk):
    S = z3.StringSort()
    c1, c2, w1, w2 = z3.Consts("cid1 cid2 w1 w2", S)
    pre = [z3.Length(c1) == 16, z3.Length(c2) == 16]
    r1 = z3.Concat(c1, z3.StringVal(":render-"), w1)
    r2 = z3.Concat(c2, z3.StringVal(":render-"), w2)
    mz = z3.Concat(c2, z3.StringVal(":makezip"))
    chk.lemma("jobid.render_ids_injective.cid", pre + [r1 == r2], c1 == c2, ["cid1", "cid2", "w1", "w2"])
    chk.lemma("jobid.render_ids_injective.writer", pre + [r1 == r2], w1 == w2, ["cid1", "cid2", "w1", "w2"])
    chk.lemma("jobid.render_never_equals_makezip", pre, r1 != mz, ["cid1", "cid2", "w1"])
    # the templates are the ones in the code: every f-string building a job id in nserve.py
    import ast
    from pyvc import source
    mod = source.module(NSERVE)
    templates = set()
    for n in ast.walk(mod.tree):
        if isinstance(n, ast.JoinedStr):
            lits = [v.value for v in n.values if isinstance(v, ast.Constant)]
            if any(":render-" in l or ":makezip" in l for l in lits):
                templates.add(ast.unparse(n))
    ok = templates == {"f'{collection_id}:render-{writer}'", "f'{collection_id}:makezip'"}
    chk.static("jobid.templates_in_code", ok, f"job id templates found in nserve.py: {sorted(templates)}")


# ---------------------------------------------------------------------------- P4 header-safe file names
FORBIDDEN = [" ", ";", ":", '"', "'", ","]


def _safe_char(c):
    return 0x20 <= ord(c) <= 0x7E


def validate_nfkd_ascii():
    """library contract used below, validated for every code point on every run:
    NFKD(c).encode('ascii','ignore') of a non-control character is printable ASCII"""
    import unicodedata
    bad = []
    n = 0
    for cp in range(0x110000):
        c = chr(cp)
        if unicodedata.category(c) in ("Cc", "Cs"):
            continue
        n += 1
        out = unicodedata.normalize("NFKD", c).encode("ascii", "ignore").decode()
        if not all(_safe_char(x) for x in out):
            bad.append(cp)
    return n, bad


def p4_content_disposition(chk):
    import re as _re
    from pyvc import models
    ex = Explorer()
    vals = ex.function(NSERVE, "get_content_disposition_values")
    disp = ex.function(NSERVE, "get_content_disposition")
    safe = models.alphabet("printable_ascii", _safe_char)
    for c in FORBIDDEN:
        models.excludes_char(c)
    n, bad = validate_nfkd_ascii()
    chk.static("content_disposition.nfkd_ascii_contract_validated", not bad,
               f"{n} non-control code points checked; violating: {bad[:5]}")

    def normalize(I, form, s):
        return PObj("nfkd", {"src": s})
    ex.models["unicodedata.normalize"] = Model("unicodedata.normalize", normalize)

    def nfkd_encode(I, o, enc, errors):
        if (enc, errors) != ("ASCII", "ignore"):
            from pyvc.interp import Undecided
            raise Undecided("encode other than ASCII/ignore")
        return PObj("asciibytes", {"src": o.fields["src"]})
    ex.methods[("nfkd", "encode")] = Model("str.encode('ASCII','ignore') after NFKD", nfkd_encode)

    def ascii_decode(I, o):
        r = I.fresh("ascii_fn", z3.StringSort())
        # contract (validated above for every code point): the source has no control
        # character => the result is printable ASCII
        I.assume(safe(r))
        return SStr(r)
    ex.methods[("asciibytes", "decode")] = Model("bytes.decode after NFKD/ASCII", ascii_decode)

    def re_sub(I, pattern, repl, s, *a, **k):
        m = _re.fullmatch(r"\[([^\]\\^-]+)\]\+", pattern) if isinstance(pattern, str) else None
        if not m or not isinstance(repl, str):
            from pyvc.interp import Undecided
            raise Undecided(f"re.sub shape {pattern!r}")
        cls = m.group(1)
        z = z3_of(s)
        r = I.fresh("resub", z3.StringSort())
        # contract of re.sub('[class]+', repl, s): no class character survives unless repl
        # re-introduces it; characters come from s or repl; unchanged if nothing matches
        for c in cls:
            if c not in repl:
                I.assume(z3.Not(z3.Contains(r, z3.StringVal(c))))
        I.assume(z3.Implies(z3.And([z3.Not(z3.Contains(z, z3.StringVal(c))) for c in cls]), r == z))
        I.assume(z3.Implies(z3.Length(z) > 0, z3.Length(r) > 0) if repl else z3.BoolVal(True))
        models.alphabet_facts_derived(I, r, [z], [repl])
        return SStr(r)
    ex.models["re.sub"] = Model("re.sub (character-class+ pattern)", re_sub)

    def quote(I, s, *a, **k):
        r = I.fresh("quoted", z3.StringSort())
        # contract of urllib.parse.quote: output alphabet is [A-Za-z0-9_.~/-] and %XX
        I.assume(safe(r))
        for c in FORBIDDEN:
            I.assume(z3.Not(z3.Contains(r, z3.StringVal(c))))
        return SStr(r)
    ex.models["urllib.parse.quote"] = Model("urllib.parse.quote", quote)

    def harness_vals(I):
        if I.decide(I.sym_bool("filename_none").z):
            filename = None
        else:
            filename = I.sym_str("filename")
        out = ex.run_function(I, vals, [filename, "pdf"])
        I.oblige("no_raise", out.returned)
        ascii_fn, utf8_fn = out.value
        a = z3_of(ascii_fn)
        I.oblige("ascii_fn_nonempty", z3.Length(a) > 0)
        I.oblige("ascii_fn_printable_ascii", models.alpha_term(safe, _safe_char, a))
        for c in FORBIDDEN:
            I.oblige(f"ascii_fn_no_delimiter.{ord(c):02x}", z3.Not(z3.Contains(a, z3.StringVal(c))))
        if filename is None:
            I.oblige("default_name", I.eq_term(utf8_fn, "collection"))

    chk.prove("nserve.get_content_disposition_values", harness_vals, ex, targets=[vals], replay=replay_filenames)

    ex2 = Explorer()
    ex2.models.update({k: ex.models[k] for k in ("urllib.parse.quote",)})

    def vals_contract(I, filename, ext):
        a = I.fresh("ascii_fn", z3.StringSort())
        I.assume(z3.Length(a) > 0)
        I.assume(safe(a))
        for c in FORBIDDEN:
            I.assume(z3.Not(z3.Contains(a, z3.StringVal(c))))
        u = I.fresh_str("utf8_fn")
        return (SStr(a), u)
    ex2.contracts[NSERVE + ":get_content_disposition_values"] = vals_contract

    def harness_disp(I):
        filename = None if I.decide(I.sym_bool("filename_none").z) else I.sym_str("filename")
        ext = ["odt", "pdf", "html", "zim"][I.choose(4, "ext")]
        out = ex2.run_function(I, disp, [filename, ext])
        I.oblige("no_raise", out.returned)
        h = z3_of(out.value)
        I.oblige("header_printable_ascii", models.alpha_term(safe, _safe_char, h) if not z3.is_string_value(h) else True)
        I.oblige("header_is_inline_with_filename", z3.PrefixOf(z3.StringVal("inline; filename="), h))

    chk.prove("nserve.get_content_disposition", harness_disp, ex2, targets=[disp], replay=replay_filenames)


def filename_search(maxlen=3):
    """run-time contract of P4 on the real functions over all names of <= maxlen symbols"""
    import itertools
    from mwlib.core import nserve
    alpha = ["a", " ", ";", ":", '"', "'", ",", "\u00f6", "_", "\u4e2d", ".", "\uff1b", "\uff0c", "\uff1a", "\uff02", "\u037e", "\uff07"]
    n = 0
    for ln in range(0, maxlen + 1):
        for t in itertools.product(alpha, repeat=ln):
            name = "".join(t)
            for fn in (name, None) if ln == 0 else (name,):
                n += 1
                try:
                    a, u = nserve.get_content_disposition_values(fn, "pdf")
                    h = nserve.get_content_disposition(fn, "pdf")
                except Exception as e:  # noqa: BLE001
                    return n, {"filename": fn, "raised": type(e).__name__}
                ok = a and all(0x20 < ord(c) <= 0x7e and c not in ";:\"'," for c in a) and \
                    all(0x20 <= ord(c) <= 0x7e for c in h) and h.startswith("inline; filename=" + a + ".pdf")
                if not ok:
                    return n, {"filename": fn, "ascii_fn": a, "header": h}
    return n, None


def replay_filenames(model, obligation):
    n, bad = filename_search()
    if bad:
        return True, bad, "unsafe-header"
    return False, {"model": model, "searched": n}, None


# ----------------------------------------------------------------------------- bounded: status against the real queue, over histories
def status_history_search(depth=4):
    """real nserve.Application.do_render / do_render_status over a real qs.jobs.workq (in-process proxy with a JSON round
    trip, as rpcclient does): after every operation of every history the reported state is the one the statement defines
    from the render job itself: finished <=> done without error, failed <=> done with an error, progress otherwise"""
    import itertools
    import json
    import logging
    import time as _time
    logging.disable(logging.CRITICAL)
    from mwlib.core import nserve
    from qs import jobs, qserve
    CID, WRITER = "0123456789abcdef", "rl"
    RENDER, MAKEZIP = f"{CID}:render-{WRITER}", f"{CID}:makezip"

    class Proxy:
        def __init__(self, wq):
            class H(qserve.QPlugin):
                workq = wq
            self.h = H()

        def __getattr__(self, name):
            m = getattr(self.h, "rpc_" + name)
            return lambda **kw: json.loads(json.dumps(m(**json.loads(json.dumps(kw)))))

    ops = ["render", "pull_render", "pull_zip", "info", "finish_ok", "finish_err", "finish_both", "zip_ok", "zip_err", "kill", "kill_zip", "clock", "dropdead", "other_writer_ok"]

    def run(hist):
        wq = jobs.workq()
        wiki, worker = Proxy(wq), Proxy(wq)
        now = [1000.0]
        real_time = _time.time
        _time.time = lambda: now[0]
        try:
            app = nserve.Application()
            app.qserve = wiki
            held = set()
            for k, op in enumerate(hist):
                try:
                    if op == "render":
                        app.do_render(CID, {"writer": WRITER}, False)
                    elif op in ("pull_render", "pull_zip"):
                        ch = "render" if op == "pull_render" else "makezip"
                        if not any(not j.done for j in wq.channel2q.get(ch, [])):
                            continue        # a pull that would block: not part of this search
                        held.add(worker.qpull(channels=[ch])["jobid"])
                    elif op == "info" and RENDER in held:
                        worker.qsetinfo(jobid=RENDER, info={"status": "rendering", "progress": 10})
                    elif op in ("finish_ok", "finish_err", "finish_both") and RENDER in held:
                        worker.qfinish(jobid=RENDER, result={"url": "http://x/out.pdf", "size": 10, "suggested_filename": "a"} if op != "finish_err" else None,
                                       error="boom" if op != "finish_ok" else None)
                    elif op in ("zip_ok", "zip_err") and MAKEZIP in held:
                        worker.qfinish(jobid=MAKEZIP, result={} if op == "zip_ok" else None, error=None if op == "zip_ok" else "fetch failed")
                    elif op == "kill":
                        wiki.qkill(jobids=[RENDER])
                    elif op == "kill_zip":
                        wiki.qkill(jobids=[MAKEZIP])
                    elif op == "clock":
                        now[0] += 100000.0
                        wq.handletimeouts()
                    elif op == "dropdead":
                        now[0] += 100000.0
                        wq.dropdead()
                    elif op == "other_writer_ok":
                        jid = wiki.qadd(channel="render", jobid=f"{CID}:render-odf", payload={})
                        j = wq.id2job.get(f"{CID}:render-odf")
                        if j is not None and not j.done:
                            wq.finishjob(j.jobid, result={"url": "http://x/other.odt", "size": 1})
                    else:
                        continue
                except KeyError:
                    continue            # e.g. finishing a job the queue has dropped
                j = wq.id2job.get(RENDER)
                want = "progress" if (j is None or not j.done) else ("failed" if j.error else "finished")
                st = app.do_render_status(CID, {"writer": WRITER})
                if st.get("state") != want:
                    snap = None if j is None else {"done": j.done, "error": j.error, "has_result": bool(j.result)}
                    return f"after {list(hist[:k + 1])}: render job {snap}: reported {st.get('state')!r} ({ {x: st[x] for x in st if x in ('error', 'status')} }), the statement says {want!r}"
                if want == "finished" and not (st.get("url") and "content_type" in st and "suggested_filename" in st or "url" in st):
                    return f"after {list(hist[:k + 1])}: finished without a download url"
            return None
        finally:
            _time.time = real_time
    n = 0
    for ln in range(1, depth + 1):
        for hist in itertools.product(ops, repeat=ln):
            if hist[0] != "render":
                continue
            n += 1
            msg = run(hist)
            if msg:
                return n, {"detail": msg, "witness": {"history": list(hist)}, "class": "status-history"}
    return n, None
