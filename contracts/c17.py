"""C17 - jobs go to eligible workers in priority/FIFO order; finished stays finished.

Function contracts on the real code of qs/jobs.py, qs/qserve.py over the abstract queue
state of contracts/qmodel.py (DESIGN 3/C17).
"""
import z3

from pyvc.interp import Explorer, LoopSpec, Forall, PathCut, Undecided
from pyvc.values import PObj, SRef, SInt, SBool, SReal, SStr, Model, z3_of
from contracts import qmodel as qm
from contracts import c16
from contracts.qmodel import st, Z, Bo, A, JOBS, QSERVE


# ----------------------------------------------------------------------------- order on jobs
def p_order(chk):
    """job.__le__ / __eq__ (real code) against the lexicographic spec; the derived __lt__
    of functools.total_ordering (`a <= b and a != b`) is then the strict order used by
    heapq and min(); strict-total-order lemmas over it."""
    ex = c16.new_explorer()
    le = ex.function(JOBS, "job.__le__")
    eq = ex.function(JOBS, "job.__eq__")
    ne = ex.function(JOBS, "job.__ne__")
    ex.inline |= {le.ident, eq.ident, ne.ident}

    def harness(I):
        S = qm.State(I, "s0_")
        I.ghost["S"] = S
        a, b = I.fresh("a@job", Z), I.fresh("b@job", Z)
        I.inputs.update({str(a): a, str(b): b})
        ja, jb = SRef("job", a), SRef("job", b)
        pa, pb = z3.Select(S["j_prio"], a), z3.Select(S["j_prio"], b)
        sa, sb = z3.Select(S["j_serial"], a), z3.Select(S["j_serial"], b)
        I.assume(z3.And(sa != 0, sb != 0))     # pushed jobs carry a serial
        r_le = ex.run_function(I, le, [ja, jb])
        r_eq = ex.run_function(I, eq, [ja, jb])
        I.oblige("no_raise", r_le.returned and r_eq.returned)
        spec_lt = z3.Or(pa < pb, z3.And(pa == pb, sa < sb))
        spec_eq = z3.And(pa == pb, sa == sb)
        le_t, eq_t = I.as_bool_term(r_le.value), I.as_bool_term(r_eq.value)
        I.oblige("eq_is_pairwise_equality", eq_t == spec_eq)
        # total_ordering: __lt__(a, b) := __le__(a, b) and a != b
        lt_derived = z3.And(le_t, z3.Not(eq_t))
        I.oblige("derived_lt_is_lexicographic_priority_then_serial", lt_derived == spec_lt)
        I.oblige("spec_matches_qmodel_lt", spec_lt == qm.lt(S, a, b))

    chk.prove("jobs.job.order", harness, ex, targets=[le, eq])
    # strict total order on jobs with pairwise distinct (priority, serial)
    p1, p2, p3, s1, s2, s3 = z3.Ints("p1 p2 p3 s1 s2 s3")

    def L(pa, sa, pb, sb):
        return z3.Or(pa < pb, z3.And(pa == pb, sa < sb))
    chk.lemma("jobs.job.order.irreflexive", [], z3.Not(L(p1, s1, p1, s1)))
    chk.lemma("jobs.job.order.transitive", [L(p1, s1, p2, s2), L(p2, s2, p3, s3)], L(p1, s1, p3, s3))
    chk.lemma("jobs.job.order.total_on_distinct_serials", [s1 != s2], z3.Or(L(p1, s1, p2, s2), L(p2, s2, p1, s1)))
    chk.lemma("jobs.job.order.fifo_within_priority", [p1 == p2, s1 < s2], L(p1, s1, p2, s2))
    # the decorator is there
    import ast
    from pyvc import source
    node = source.module(JOBS).defs["job"]
    decos = [ast.unparse(d) for d in node.decorator_list]
    chk.static("jobs.job.order.total_ordering_decorator", "total_ordering" in decos, f"decorators of job: {decos}")


# ----------------------------------------------------------------------------- finality and counters
def p_mark_finished(chk):
    ex = c16.new_explorer()
    fn = ex.function(JOBS, "workq._mark_finished")

    def harness(I):
        S, w = c16.start(I, ex)
        j = I.fresh("job@job", Z)
        I.inputs[str(j)] = j
        I.assume(qm.valid_job(S, j))
        I.assume(z3.Select(S["j_serial"], j) != 0)
        before = S.copy()
        mode = I.choose(3, "caller")
        if mode == 0:      # finishjob
            err = None if I.decide(I.sym_bool("error_none").z) else I.sym_str("error")
            kw = {"result": qm.json_of(I, I.fresh("res", Z)), "error": err, "ttl": I.sym_int("ttl")}
        elif mode == 1:    # killjobs
            err = "killed"
            kw = {"error": "killed"}
        else:              # handletimeouts
            err = "timeout"
            kw = {"error": "timeout"}
        was_done = I.decide(z3.Select(S["j_done"], j))
        out = ex.run_function(I, fn, [w, SRef("job", j)], kw)
        I.oblige("no_raise", out.returned, meta=c16.note_exc(out))
        S1 = st(I)
        if was_done:
            same = all(S1.t[k].eq(before.t[k]) for k in S1.t)
            I.oblige("finality.finished_job_is_left_untouched", same)
            return
        I.oblige("marks_done", z3.Select(S1["j_done"], j))
        I.oblige("sets_finish_event", z3.Select(S1["e_set"], z3.Select(S1["j_event"], j)))
        if err is None:
            I.oblige("records_no_error", z3.Select(S1["j_err_none"], j))
        else:
            I.oblige("records_error", z3.And(z3.Not(z3.Select(S1["j_err_none"], j)), z3.Select(S1["j_err"], j) == z3_of(err)))
        ch = z3.Select(S1["j_chan"], j)

        def cnt(Sx, k):
            return z3.If(z3.Select(Sx["c_has"], ch), z3.Select(Sx["c_" + k], ch), z3.IntVal(0))
        total0 = sum(cnt(before, k) for k in ("error", "timeout", "killed", "success"))
        total1 = sum(cnt(S1, k) for k in ("error", "timeout", "killed", "success"))
        # every error value, the empty report included (it used to move no counter: fix in DESIGN 4)
        I.oblige("exactly_one_outcome_counter_bumped", total1 == total0 + 1)
        c = I.fresh("other@chan", Z)
        I.assume(c != ch)
        for k in ("error", "timeout", "killed", "success"):
            I.oblige("other_channels_counters_unchanged", z3.Select(S1["c_" + k], c) == z3.Select(before["c_" + k], c))
        c16.finish(I, w)

    chk.prove("jobs.workq._mark_finished", harness, ex, targets=[fn], replay=replay_outcomes)
    # frame: done / error / result of a job are assigned nowhere else in qs/
    import ast
    from pyvc import source
    writers = []
    for rel in ("qs/jobs.py", "qs/qserve.py", "qs/rpcserver.py", "qs/misc.py"):
        m = source.module(rel)
        for fnode in ast.walk(m.tree):
            if isinstance(fnode, ast.FunctionDef):
                for n in ast.walk(fnode):
                    if isinstance(n, ast.Attribute) and isinstance(n.ctx, ast.Store) and n.attr in ("done", "error", "result"):
                        writers.append(f"{rel}:{fnode.name}:{n.lineno}")
                    if isinstance(n, ast.Call) and isinstance(n.func, ast.Name) and n.func.id == "setattr":
                        writers.append(f"{rel}:{fnode.name}:{n.lineno}:setattr")
    ok = all(":_mark_finished:" in x or ":__setstate__:" in x for x in writers)
    chk.static("jobs.frame.outcome_fields_written_only_by__mark_finished", ok and writers, f"writers of done/error/result: {writers}")


def p_finishjob(chk):
    """finishjob / killjobs on a job that is already finished change nothing (the first of
    finish / kill / timeout wins); on an unfinished one they go through _mark_finished"""
    ex = c16.new_explorer()
    fn = ex.function(JOBS, "workq.finishjob")

    def harness(I):
        S, w = c16.start(I, ex)
        jid = I.sym_int("jobid@id")
        I.assume(jid.z != 0)
        I.assume(z3.Select(S["id_has"], jid.z))
        j = z3.Select(S["id_val"], jid.z)
        before = S.copy()
        was_done = I.decide(z3.Select(S["j_done"], j))
        err = None if I.decide(I.sym_bool("error_none").z) else I.sym_str("error")
        out = ex.run_function(I, fn, [w, jid], {"result": qm.json_of(I, I.fresh("res", Z)), "error": err})
        I.oblige("no_raise", out.returned, meta=c16.note_exc(out))
        S1 = st(I)
        if was_done:
            for k in ("j_done", "j_err_none", "j_err", "j_result", "j_ttl", "e_set", "c_error", "c_timeout", "c_killed", "c_success"):
                I.oblige("finality.late_report_changes_nothing." + k, S1.t[k].eq(before.t[k]) or S1.t[k] == before.t[k])
        else:
            I.oblige("marks_done", z3.Select(S1["j_done"], j))

    chk.prove("jobs.workq.finishjob", harness, ex, targets=[fn], replay=replay_history)


# ----------------------------------------------------------------------------- pop: eligibility, not finished, order
preenall_contract = qm.preenall_contract


def p_pop(chk):
    ex = c16.new_explorer()
    fn = ex.function(JOBS, "workq.pop")
    ex.contracts[JOBS + ":workq._preenall"] = preenall_contract

    def harness(I):
        S, w = c16.start(I, ex)
        asked = qm.Channels(I.fresh("asked@chan", A(Z, Bo)), I.sym_bool("asked_empty").z)
        mem, emp = asked.member, asked.empty
        I.assume(Forall(["chan"], lambda x: z3.Implies(emp, z3.Not(z3.Select(mem, x))), "empty_list_has_no_member"))

        def on_yield(I2, a):
            raise PathCut()      # the blocking path is C16's segment B / I14
        I.ghost["on_yield"] = on_yield
        # heapq contract for every channel queue (not only the ones the loop body touches)
        def heap_axiom_now():
            S0 = st(I)
            Q, prio, serial = S0["Q"], S0["j_prio"], S0["j_serial"]

            def ax(c, x):
                qc = z3.Select(Q, c)
                m = qm.heap_min(qc, prio, serial)
                pm, px, sm, sx = z3.Select(prio, m), z3.Select(prio, x), z3.Select(serial, m), z3.Select(serial, x)
                return z3.Implies(z3.Select(qc, x) > 0, z3.And(z3.Select(qc, m) > 0, z3.Not(z3.Or(px < pm, z3.And(px == pm, sx < sm)))))
            I.assume(Forall(["chan", "job"], ax, "heapq_min_all_channels"))
        I.ghost["after_preen"] = heap_axiom_now
        out = ex.run_function(I, fn, [w, asked])
        I.oblige("no_raise", out.returned, meta=c16.note_exc(out))
        S1 = st(I)
        j = out.value.z
        ch = z3.Select(S1["j_chan"], j)
        I.oblige("result_from_a_requested_channel", z3.Or(emp, z3.Select(mem, ch)))
        I.oblige("result_not_finished", z3.Not(z3.Select(S1["j_done"], j)))
        # among the queued, unfinished candidates of the requested channels none is smaller
        Qb = S["Q"]       # queues as preened, before the pop

        def minimal(c, x):
            return z3.Implies(z3.And(z3.Or(emp, z3.Select(mem, c)), z3.Select(S1["q_has"], c), qm.sel2(S1["Q"], c, x) > 0,
                                     z3.Not(z3.Select(S1["j_done"], x))),
                              z3.Not(qm.lt(S1, x, j)))
        I.oblige("result_is_minimal_among_candidates", Forall(["chan", "job"], minimal))
        I.oblige("result_removed_from_its_queue", qm.sel2(S1["Q"], ch, j) == 0)

    chk.prove("jobs.workq.pop[non-blocking]", harness, ex, targets=[fn], replay=replay_history)

    # _preenjobq against the contract used above (one queue)
    ex2 = c16.new_explorer()
    pj = ex2.function(JOBS, "workq._preenjobq")

    def inv_preen(I, v, it):
        S = st(I)
        old = I.ghost["preen_old"]
        c = v["q"].chan
        Q0, Q1, done = old["Q"], S["Q"], S["j_done"]
        same = [S.t[k].eq(old.t[k]) if k != "Q" else True for k in S.t]
        return [("only_this_queue_changes_and_only_finished_leave",
                 Forall(["chan", "job"], lambda cc, x: z3.And(
                     z3.Implies(cc != c, qm.sel2(Q1, cc, x) == qm.sel2(Q0, cc, x)),
                     qm.sel2(Q1, cc, x) <= qm.sel2(Q0, cc, x), qm.sel2(Q1, cc, x) >= 0,
                     z3.Implies(qm.sel2(Q1, cc, x) < qm.sel2(Q0, cc, x), z3.Select(done, x))))),
                ("other_queues_identical", Forall(["chan"], lambda cc: z3.Implies(cc != c, z3.Select(Q1, cc) == z3.Select(Q0, cc)))),
                ("nothing_else_changes", all(same))]

    def havoc_preen(I, v, it):
        S = st(I)
        S["Q"] = I.fresh("loop_Q", A(Z, A(Z, Z)))
    ex2.loopspecs[(JOBS + ":workq._preenjobq", 0)] = LoopSpec(inv_preen, None, havoc_preen)

    def harness2(I):
        S, w = c16.start(I, ex2)
        c = I.fresh("c@chan", Z)
        I.assume(z3.Select(S["q_has"], c))
        I.ghost["preen_old"] = S.copy()
        out = ex2.run_function(I, pj, [w, qm.HeapView(c)])
        I.oblige("no_raise", out.returned, meta=c16.note_exc(out))
        S1 = st(I)
        qc = z3.Select(S1["Q"], c)
        h = qm.heap_min(qc, S1["j_prio"], S1["j_serial"])
        I.oblige("head_unfinished_afterwards", z3.Implies(z3.Select(qc, h) > 0, z3.Not(z3.Select(S1["j_done"], h))))

    chk.prove("jobs.workq._preenjobq", harness2, ex2, targets=[pj])


def preenjobq_contract(I, w, q):
    """contract of workq._preenjobq(q) (verified against its body by jobs.workq._preenjobq):
    only this queue changes, only finished jobs leave it, its head is unfinished afterwards"""
    S = st(I)
    c = q.chan
    Q0 = S["Q"]
    Q1 = I.fresh("preen1_Q", A(Z, A(Z, Z)))
    done, prio, serial = S["j_done"], S["j_prio"], S["j_serial"]
    I.assume(Forall(["chan", "job"], lambda cc, x: z3.And(
        z3.Implies(cc != c, qm.sel2(Q1, cc, x) == qm.sel2(Q0, cc, x)),
        qm.sel2(Q1, cc, x) <= qm.sel2(Q0, cc, x), qm.sel2(Q1, cc, x) >= 0,
        z3.Implies(qm.sel2(Q1, cc, x) < qm.sel2(Q0, cc, x), z3.Select(done, x))), "preenjobq_effect"))
    I.assume(Forall(["chan"], lambda cc: z3.Implies(cc != c, z3.Select(Q1, cc) == z3.Select(Q0, cc)), "preenjobq_other_queues_identical"))
    qc = z3.Select(Q1, c)
    h = qm.heap_min(qc, prio, serial)
    I.assume(z3.Implies(z3.Select(qc, h) > 0, z3.Not(z3.Select(done, h))))
    S["Q"] = Q1
    return SInt(I.fresh("removed", Z))


def p_preenall(chk):
    """workq._preenall against the contract its callers use (qmodel.preenall_contract):
    iteration over every channel queue, each preened through _preenjobq's contract"""
    ex = c16.new_explorer()
    fn = ex.function(JOBS, "workq._preenall")
    ex.contracts[JOBS + ":workq._preenjobq"] = preenjobq_contract

    def inv(I, v, it):
        S = st(I)
        old = I.ghost["old"]
        Q0, Q1, done = old["Q"], S["Q"], S["j_done"]
        V = it["V"]
        prio, serial = S["j_prio"], S["j_serial"]

        def heads(c):
            qc = z3.Select(Q1, c)
            h = qm.heap_min(qc, prio, serial)
            return z3.Implies(z3.And(z3.Select(V, c), z3.Select(S["q_has"], c), z3.Select(qc, h) > 0), z3.Not(z3.Select(done, h)))
        same = all(S.t[k].eq(old.t[k]) for k in S.t if k != "Q")
        return [("only_finished_jobs_leave_the_queues", Forall(["chan", "job"], lambda c, x: z3.And(
                    qm.sel2(Q1, c, x) <= qm.sel2(Q0, c, x), qm.sel2(Q1, c, x) >= 0,
                    z3.Implies(qm.sel2(Q1, c, x) < qm.sel2(Q0, c, x), z3.Select(done, x))))),
                ("visited_queues_have_unfinished_heads", Forall(["chan"], heads)),
                ("nothing_else_changes", same)]

    def havoc(I, v, it):
        st(I)["Q"] = I.fresh("loop_Q", A(Z, A(Z, Z)))
    ex.loopspecs[(JOBS + ":workq._preenall", 0)] = LoopSpec(inv, None, havoc)

    def harness(I):
        S, w = c16.start(I, ex)
        I.ghost["old"] = S.copy()
        out = ex.run_function(I, fn, [w])
        I.oblige("no_raise", out.returned, meta=c16.note_exc(out))
        S1 = st(I)
        old = I.ghost["old"]
        Q0, Q1, done = old["Q"], S1["Q"], S1["j_done"]
        prio, serial = S1["j_prio"], S1["j_serial"]
        I.oblige("contract.only_finished_jobs_leave_the_queues", Forall(["chan", "job"], lambda c, x: z3.And(
            qm.sel2(Q1, c, x) <= qm.sel2(Q0, c, x), qm.sel2(Q1, c, x) >= 0,
            z3.Implies(qm.sel2(Q1, c, x) < qm.sel2(Q0, c, x), z3.Select(done, x)))))

        def heads(c):
            qc = z3.Select(Q1, c)
            h = qm.heap_min(qc, prio, serial)
            return z3.Implies(z3.And(z3.Select(S1["q_has"], c), z3.Select(qc, h) > 0), z3.Not(z3.Select(done, h)))
        I.oblige("contract.every_registered_queue_has_an_unfinished_head", Forall(["chan"], heads))
        I.oblige("contract.nothing_else_changes", all(S1.t[k].eq(old.t[k]) for k in S1.t if k != "Q"))

    chk.prove("jobs.workq._preenall", harness, ex, targets=[fn])


# ----------------------------------------------------------------------------- idempotent add
def p_push_idempotent(chk):
    ex = c16.new_explorer()
    fn = ex.function(JOBS, "workq.push")
    ex.models["time.time"] = Model("time.time", lambda I: SReal(I.fresh("now", z3.RealSort())))

    def harness(I):
        S, w = c16.start(I, ex)
        jid = I.sym_int("jobid@id")
        I.assume(jid.z != 0)
        I.assume(z3.Select(S["id_has"], jid.z))
        old = z3.Select(S["id_val"], jid.z)
        killed = z3.And(z3.Not(z3.Select(S["j_err_none"], old)), z3.Select(S["j_err"], old) == z3.StringVal("killed"))
        I.assume(z3.Not(killed))
        before = S.copy()
        out = ex.run_function(I, fn, [w, I.sym_int("channel@chan")], {"jobid": jid, "priority": I.sym_int("prio")})
        I.oblige("no_raise", out.returned, meta=c16.note_exc(out))
        I.oblige("returns_the_existing_id", I.eq_term(out.value, jid))
        S1 = st(I)
        I.oblige("creates_no_second_job", all(S1.t[k].eq(before.t[k]) for k in S1.t))

    chk.prove("jobs.workq.push[existing id]", harness, ex, targets=[fn], replay=replay_history)


# ----------------------------------------------------------------------------- callers of pushjob pass unfinished jobs
def p_pushjob_callers(chk):
    ex = c16.new_explorer()
    sh = ex.function(QSERVE, "QPlugin.shutdown")
    seen = []

    def pre(I, args, kwargs):
        j = args[1]
        seen.append(1)
        I.oblige("pushjob_pre.not_done", z3.Not(z3.Select(st(I)["j_done"], j.z)))
    ex.call_pre[JOBS + ":workq.pushjob"] = pre

    def harness(I):
        S, w = c16.start(I, ex)
        plugin, k = c16.make_plugin(I, ex, w)
        I.ghost["on_take_running"] = c16.release_running
        ex.run_function(I, sh, [plugin])

    chk.prove("qserve.QPlugin.shutdown", harness, ex, targets=[sh], replay=replay_history)


# ----------------------------------------------------------------------------- received job not finished (blocking path)
def p_handoff_not_finished(chk):
    """segment B of rpc_qpull: the job a resumed puller receives.  Between the hand-off
    (AsyncResult.set in pushjob) and the resume of the puller another request can kill the
    job or its timeout can fire: the obligation fails on the unchanged tree (known finding)."""
    ex = c16.new_explorer()
    fn = ex.function(JOBS, "workq.pop")

    def harness(I):
        S, w = c16.start(I, ex)
        asked = qm.Channels(I.fresh("asked@chan", A(Z, Bo)), I.sym_bool("asked_empty").z)
        resumed = {}

        def on_yield(I2, a):
            S1 = qm.State(I2, "s1_")
            I2.ghost["S"] = S1
            sc = I2.ghost.get("schemas")
            if sc is not None:
                sc.items = []
            I2.assumed_foralls = {}
            qm.assume_inv(I2, S1)
            w.fields["count"] = SInt(S1["count"])
            I2.assume(z3.Select(S1["W"], a.z))
            I2.assume(z3.Select(S1["a_watch"], a.z) == asked.member)
            I2.assume(z3.Select(S1["a_any"], a.z) == asked.empty)
            I2.assume(z3.Select(S1["a_ready"], a.z))
            resumed["yes"] = True
            return SRef("job", z3.Select(S1["a_value"], a.z))
        I.ghost["on_yield"] = on_yield
        out = ex.run_function(I, fn, [w, asked])
        if not resumed:
            raise PathCut()
        S1 = st(I)
        j = out.value.z
        I.oblige("handed_job_from_a_requested_channel",
                 z3.Or(asked.empty, z3.Select(asked.member, z3.Select(S1["j_chan"], j))))
        I.oblige("handed_job_not_finished", z3.Not(z3.Select(S1["j_done"], j)))

    chk.prove("jobs.workq.pop[resume]", harness, ex, targets=[fn], replay=handoff_replay)


def handoff_replay(model, obligation):
    if True:
        from contracts import qhistory
        n, appl, fail, samples = qhistory.search(4, checks=("c17",), budget=40000, want="c17")
        if fail:
            return True, fail, classify17(fail)
        return False, {"histories_searched": n}, None


def classify17(fail):
    """known finding = a *blocked* puller receives a job that was killed / timed out between
    the hand-off and its resume; everything else is a different violation"""
    ops = [o[0] for o in fail["history"]]
    d = fail.get("detail", "")
    if "already finished" in d and "pull" in ops and ("kill" in ops or "clock" in ops):
        # the receiving worker's pull must have blocked: the hand-off (pushjob through add / re-add, or through the
        # shutdown of another worker's connection) comes after that pull, and the kill / time-out after the hand-off
        import re as _re
        mw = _re.search(r"worker (\d+) received", d)
        pulls = [i for i, o in enumerate(fail["history"]) if o[0] == "pull" and (mw is None or str(o[1]) == mw.group(1))]
        if pulls:
            p = pulls[-1] if mw else pulls[0]
            for h in range(p + 1, len(ops)):
                if ops[h] in ("add", "readd", "disconnect") and any(x in ("kill", "clock") for x in ops[h + 1:]):
                    return "finished-between-handoff-and-resume"
        first_pull = ops.index("pull")
        if "add" in ops[first_pull:]:
            return "finished-between-handoff-and-resume"
    if "lower (priority" in d:
        return "order"
    return "other:" + d.split(":")[-1][:40]


def replay_outcomes(model, obligation):
    """the three callers of _mark_finished on the real workq, every kind of error report: done, event, finality, counters"""
    import time
    from qs import jobs
    for caller in ("finish", "kill", "timeout"):
        for err in ((None, "", "boom", "killed", "timeout") if caller == "finish" else (None,)):
            w = jobs.workq()
            jid = w.push("render", payload={}, timeout=5)
            job = w.id2job[jid]
            if caller == "finish":
                w.pop(["render"])
                w.finishjob(jid, result={"r": 1}, error=err)
            elif caller == "kill":
                w.killjobs([jid])
            else:
                real = time.time
                time.time = lambda: real() + 3600
                try:
                    w.handletimeouts()
                finally:
                    time.time = real
            snap = (job.done, job.error, job.result)
            stats = {c: dict(v) for c, v in w.getstats()["channel2stat"].items()}
            total = sum(sum(v.values()) for v in stats.values())
            w.finishjob(jid, result={"late": 1}, error="late")
            w.killjobs([jid])
            wit = {"caller": caller, "error_reported": err, "done": job.done, "error": job.error, "counters": stats, "finished_jobs": 1}
            if not job.done or not job.finish_event.is_set():
                return True, dict(wit, detail="job not marked finished / waiters not released"), "outcome"
            if (job.done, job.error, job.result) != snap:
                return True, dict(wit, detail=f"a later report changed the outcome {snap} -> {(job.done, job.error, job.result)}"), "outcome"
            if total != 1:
                return True, dict(wit, detail=f"outcome counters add up to {total}, finished jobs: 1"), "outcome"
    return replay_history(model, obligation)


def replay_history(model, obligation):
    from contracts import qhistory
    n, appl, fail, samples = qhistory.search(3, checks=("c16", "c17"), budget=60000,
                                             skip=lambda f: classify17(f) == "finished-between-handoff-and-resume")
    if fail:
        return True, fail, c16.classify(fail)
    return False, {"histories_searched": n}, None


def bounded(chk):
    from contracts import qhistory
    depth = 3 if chk.tier == "quick" else 4
    known_seen = []
    n, appl, fail, samples = qhistory.search(depth, checks=("c17",), budget=10**7, seed=chk.seed,
                                             random_len=8, random_n=2000 if chk.tier == "quick" else 20000, want="c17",
                                             skip=lambda f: classify17(f) == "finished-between-handoff-and-resume", skipped=known_seen)
    fails = []
    for f in known_seen[:1] + ([fail] if fail else []):
        fails.append({"detail": f["detail"], "witness": f, "class": classify17(f)})
    chk.bounded_result("histories_on_real_gevent_objects", n, appl, True,
                       f"all histories of <= {depth} operations (17 ops, 2 channels, 2 workers) + a targeted order family (3-4 adds with priorities 0..2, "
                       f"optional kill, pulls) + seeded random ones; eligibility / not-finished-at-receipt / priority-FIFO order / finish_event <=> done observed",
                       fails, samples)


def run(chk):
    import os
    qm.EXTENDED = True
    only = os.environ.get("VERIF_ONLY")
    parts = [("order", p_order), ("mark", p_mark_finished), ("finishjob", p_finishjob), ("preenall", p_preenall), ("pop", p_pop), ("idem", p_push_idempotent),
             ("callers", p_pushjob_callers), ("handoff", p_handoff_not_finished),
             # the remaining segments of C16, under the invariant extended by I14 / I15 / I16: the three clauses are
             # established by pushjob / push and have to survive every other request
             ("inv_pushjob", c16.seg_pushjob_new), ("inv_pushjob_contract", c16.seg_pushjob_contract), ("inv_push", c16.seg_push),
             ("inv_qpull", c16.seg_qpull),
             ("inv_qfinish", lambda chk: c16.seg_simple(chk, "qserve.QPlugin.rpc_qfinish", QSERVE, "QPlugin.rpc_qfinish",
                                                        lambda I, S: ([I.sym_int("jobid@id")], {"result": qm.json_of(I, I.fresh("res", Z)),
                                                                      "error": None if I.decide(I.sym_bool("error_none").z) else I.sym_str("error")}),
                                                        plugin=True)),
             ("inv_qkill", lambda chk: c16.seg_simple(chk, "qserve.QPlugin.rpc_qkill", QSERVE, "QPlugin.rpc_qkill",
                                                      lambda I, S: ([c16.idlist(I)], {}), plugin=True)),
             ("inv_timeouts", lambda chk: c16.seg_simple(chk, "jobs.workq.handletimeouts", JOBS, "workq.handletimeouts", lambda I, S: ([], {}))),
             ("inv_dropdead", lambda chk: c16.seg_simple(chk, "jobs.workq.dropdead", JOBS, "workq.dropdead", lambda I, S: ([], {}))),
             ("bounded", bounded)]
    parts = [(n, f) for n, f in parts if not only or n in only.split(",")]
    for n, f in parts:
        if n != "bounded":
            f(chk)
    chk.vc_replay["C17."] = replay_history
    chk.vc_replay["C17.jobs.workq.pop[resume]."] = handoff_replay
    chk.vc_replay["C17.jobs.workq._mark_finished."] = replay_outcomes
    if any(n == "bounded" for n, _ in parts):
        bounded(chk)
    chk.assumptions += [
        "as C16 (cooperative scheduling, heapq/min/random.choice/gevent contracts, abstract ids)",
        "the heads-unfinished clause of _preenall's contract covers queues registered in channel2q (q_has); a queue entry implies its channel is registered (Inv I2)",
        "error reports are None or strings (JSON numbers / lists as error values are not modelled)",
        "functools.total_ordering derives __lt__ from __le__ as `a <= b and a != b`",
    ]
