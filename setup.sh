#!/bin/bash
# Builds /verif/.venv offline from the wheelhouse: python 3.12 (same interpreter as /venv,
# so mwlib's compiled extensions import) + z3-solver, cvc5, jsonschema, crosshair, icontract, deal.
set -e
cd "$(dirname "$0")"
PY=/root/.pyenv/versions/3.12.1/bin/python
[ -x "$PY" ] || PY=$(readlink -f /venv/bin/python)
if [ ! -x .venv/bin/python ] || ! .venv/bin/python -c 'import z3, jsonschema, mwlib' 2>/dev/null; then
  rm -rf .venv
  "$PY" -m venv .venv
  PIP_NO_INDEX=1 .venv/bin/pip install -q --no-index --find-links /opt/veriftools/wheels z3-solver jsonschema >/dev/null
  SP=$(.venv/bin/python -c 'import sysconfig; print(sysconfig.get_paths()["purelib"])')
  echo "import site; site.addsitedir('/venv/lib/python3.12/site-packages')" > "$SP/zz_repo_venv.pth"
fi
.venv/bin/python -c 'import z3, jsonschema, mwlib, qs; print("venv ok", z3.get_version_string(), mwlib.__path__)'
